/-
  Helper lemmas for `Proofs/CoreWinBits.lean`, part 4: the window theorem with bit-fields in its general form
  (`read_prefix_bits_by`). Aligned mode only needs "the alignment of a bit-field is a function `g` of its storage scalar"
  (`Ty.bitsAlignBy`), which allows storage scalars whose size is not their alignment (int24, int48). For those the
  layout opens a new unit for EVERY bit-field at a static offset (the re-aligned offset lies behind the unit, third
  disjunct of the new-unit test) whereas the reader goes on using its unit and only seeks: reader and layout lose step
  (`Desync`), but the reader is never ahead of the layout (`BInvW.off`) and is told where to seek for every further
  bit-field of the type, so its position never goes back. `bit_step_w` is the case analysis; `ptw_ty` / `ptw_fields` the
  mutual induction with the weak position facts of part 3.
-/
import Proofs.Lemmas.CoreWinBits2
import Proofs.Spec.CoreWinBits
namespace Cstruct.Core.Lemmas.WinBits
open Cstruct Cstruct.Core
set_option linter.unusedSimpArgs false

/-! ### The invariant, second version: the reader may lag behind the layout -/

/-- reader and layout agree on what is left of the current unit; inside a unit with static offsets the running offset is
    the unit's end and (aligned mode) the unit's start is a multiple of the alignment `g` assigns to the storage type -/
structure Sync (al : Bool) (g : Scalar → Nat) (st : LState) (bb : BitBuf) : Prop where
  rem : (bb.remaining : Int) = st.bitsRemaining
  unit : st.bitsRemaining ≠ 0 → ∀ o bfo bt bs, st.offset = some o → st.bitsFieldOffset = some bfo →
    st.bitsType = some bt → bt.size = some bs → o = bfo + bs ∧ (al = true → g bt ∣ bfo)

/-- aligned mode, storage type whose alignment does not divide its size (int24, int48): the layout has opened a unit at
    `a` that the reader did not load (it still had bits left); from now on the layout opens a new unit for every further
    bit-field of this type, so the reader is always told where to seek -/
def Desync (al : Bool) (g : Scalar → Nat) (st : LState) : Prop :=
  al = true ∧ ∃ a ft fsz, st.offset = some (a + fsz) ∧ st.bitsFieldOffset = some a ∧ st.bitsType = some ft ∧
    ft.size = some fsz ∧ g ft ∣ a ∧ ¬ (g ft ∣ fsz)

structure BInvW (al : Bool) (g : Scalar → Nat) (st : LState) (bb : BitBuf) (start pos : Nat) : Prop where
  off : ∀ o, st.offset = some o → pos ≤ start + o
  ty : bb.ty = st.bitsType
  mode : Sync al g st bb ∨ Desync al g st

theorem binvw_mkSt (al : Bool) (g : Scalar → Nat) (so : Option Nat) (a start pos : Nat)
    (h : ∀ o, so = some o → pos ≤ start + o) : BInvW al g (mkSt so a) BitBuf.empty start pos :=
  ⟨h, rfl, Or.inl ⟨rfl, fun h0 => absurd rfl h0⟩⟩

theorem lThird_cases (ft : Scalar) (fsz : Nat) (st : LState) (off : Option Nat) (nu : Bool) (hsz : ft.size = some fsz)
    (h : lThird ft st off = .ok nu) :
    ((st.bitsRemaining = 0 ∨ some ft ≠ st.bitsType) ∧ nu = true) ∨
    (st.bitsRemaining ≠ 0 ∧ st.bitsType = some ft ∧
      ((∃ o bfo, off = some o ∧ st.bitsFieldOffset = some bfo ∧ nu = decide (o > bfo + fsz)) ∨
       ((off = none ∨ st.bitsFieldOffset = none) ∧ nu = false))) := by
  unfold lThird at h
  by_cases hc : st.bitsRemaining = 0 ∨ some ft ≠ st.bitsType
  · rw [if_pos hc] at h; cases h; exact Or.inl ⟨hc, rfl⟩
  · rw [if_neg hc] at h
    have hr : st.bitsRemaining ≠ 0 := fun e => hc (Or.inl e)
    have ht : st.bitsType = some ft := by
      apply Decidable.byContradiction
      intro e; exact hc (Or.inr (fun e' => e e'.symm))
    refine Or.inr ⟨hr, ht, ?_⟩
    rw [ht] at h
    simp only [hsz] at h
    cases off with
    | none => cases h; exact Or.inr ⟨Or.inl rfl, rfl⟩
    | some o =>
      cases hb : st.bitsFieldOffset with
      | none => rw [hb] at h; cases h; exact Or.inr ⟨Or.inr rfl, rfl⟩
      | some bfo =>
        rw [hb] at h
        simp only [Except.ok.injEq] at h
        exact Or.inl ⟨o, bfo, rfl, rfl, h.symm⟩

theorem offOf_some {cfg : Cfg} {al : Bool} {ty : Ty} {so : Option Nat} {o' : Nat} (h : offOf cfg al ty so = some o') :
    ∃ o, so = some o ∧ o' = alignTo al o (ty.alignment cfg) := by
  cases so with
  | none => simp [offOf] at h
  | some o => simp only [offOf, Option.map_some, Option.some.injEq] at h; exact ⟨o, rfl, h.symm⟩

/-- layout and reader both open a unit -/
theorem new_both (cfg : Cfg) (al : Bool) (g : Scalar → Nat) (ty : Ty) (ft : Scalar) (fsz b : Nat) (st : LState) (bb : BitBuf)
    (start pos : Nat) (d : Bytes) (bb1 : BitBuf) (p1 : Nat) (v : Int) (bb2 : BitBuf)
    (hoff : ∀ o, st.offset = some o → pos ≤ start + o) (hsz : ft.size = some fsz) (hfa : IsP2 (ty.alignment cfg))
    (hg : al = true → ty.alignment cfg = g ft) (hdv : al = true → ty.alignment cfg ∣ start)
    (hc : bb.remaining = 0 ∨ bb.ty ≠ some ft)
    (hld : loadUnit cfg ft bb d (fieldPos cfg al ty (offOf cfg al ty st.offset) start pos) = .ok (bb1, p1))
    (htk : bb1.take cfg.endian (b + 1) = some (v, bb2)) :
    pos ≤ p1 ∧ BInvW al g (stBit cfg al ty ft fsz (b + 1) true st) bb2 start p1 := by
  obtain ⟨t1, t2, t3⟩ := take_facts cfg.endian bb1 (b + 1) v bb2 htk
  obtain ⟨f1, f2, f3⟩ := fieldPos_facts_w cfg al ty st.offset start pos hoff hfa hdv
  generalize fieldPos cfg al ty (offOf cfg al ty st.offset) start pos = fp at *
  obtain ⟨fsz', l1, l2, l3, l4⟩ := loadUnit_reload cfg ft bb d fp bb1 p1 hc hld
  rw [hsz] at l1; cases l1
  refine ⟨by omega, ?_, ?_, Or.inl ⟨?_, ?_⟩⟩
  · intro o' ho'
    simp only [stBit, if_true] at ho'
    cases ho : st.offset with
    | none => rw [ho] at ho'; simp [offOf] at ho'
    | some o =>
      rw [ho] at ho'
      simp only [offOf, Option.map_some, Option.some.injEq] at ho'
      rw [l2, f3 o ho]; omega
  · simp only [stBit, if_true]; rw [t1, l3]
  · simp only [stBit, if_true]; rw [t3, l4]; rw [l4] at t2; omega
  · intro _ o' bfo bt bs ho' hbfo hbt hbs
    simp only [stBit, if_true] at ho' hbfo hbt
    cases hbt
    rw [hsz] at hbs; cases hbs
    obtain ⟨o, ho, rfl⟩ := offOf_some hbfo
    rw [ho] at ho'
    simp only [offOf, Option.map_some, Option.some.injEq] at ho'
    refine ⟨ho'.symm, ?_⟩
    intro ha; subst ha
    rw [← hg rfl]; exact alignTo_dvd hfa o

/-- the layout opens a unit at a static offset, the reader keeps its unit and only seeks (aligned mode, int24/int48) -/
theorem new_layout_only (cfg : Cfg) (g : Scalar → Nat) (ty : Ty) (ft : Scalar) (fsz b : Nat) (st : LState) (bb : BitBuf)
    (start pos : Nat) (d : Bytes) (bb1 : BitBuf) (p1 : Nat) (v : Int) (bb2 : BitBuf) (o : Nat)
    (ho : st.offset = some o) (hpos : pos ≤ start + o) (hsz : ft.size = some fsz) (hfa : IsP2 (ty.alignment cfg))
    (hg : ty.alignment cfg = g ft) (hbt : bb.ty = some ft) (hnd : ¬ (g ft ∣ fsz))
    (hc : ¬ (bb.remaining = 0 ∨ bb.ty ≠ some ft))
    (hld : loadUnit cfg ft bb d (fieldPos cfg true ty (offOf cfg true ty st.offset) start pos) = .ok (bb1, p1))
    (htk : bb1.take cfg.endian (b + 1) = some (v, bb2)) :
    pos ≤ p1 ∧ BInvW true g (stBit cfg true ty ft fsz (b + 1) true st) bb2 start p1 := by
  obtain ⟨t1, t2, t3⟩ := take_facts cfg.endian bb1 (b + 1) v bb2 htk
  have hfp : fieldPos cfg true ty (offOf cfg true ty st.offset) start pos = start + alignTo true o (ty.alignment cfg) := by
    rw [ho]; simp [fieldPos, offOf]
  rw [hfp] at hld
  obtain ⟨rfl, rfl⟩ := loadUnit_keep cfg ft bb d _ bb1 p1 hc hld
  have hle := le_alignTo true o (ty.alignment cfg)
  refine ⟨by omega, ?_, ?_, Or.inr ⟨rfl, alignTo true o (ty.alignment cfg), ft, fsz, ?_, ?_, ?_, hsz, ?_, hnd⟩⟩
  · intro o' ho'
    simp only [stBit, if_true, ho, offOf, Option.map_some, Option.some.injEq] at ho'
    omega
  · simp only [stBit, if_true]; rw [t1, hbt]
  · simp only [stBit, if_true, ho, offOf, Option.map_some]
  · simp only [stBit, if_true, ho, offOf, Option.map_some]
  · simp only [stBit, if_true]
  · rw [← hg]; exact alignTo_dvd hfa o

/-- layout and reader both continue the unit -/
theorem cont_both (cfg : Cfg) (al : Bool) (g : Scalar → Nat) (ty : Ty) (ft : Scalar) (fsz b : Nat) (st : LState) (bb : BitBuf)
    (start pos : Nat) (d : Bytes) (bb1 : BitBuf) (p1 : Nat) (v : Int) (bb2 : BitBuf)
    (hoff : ∀ o, st.offset = some o → pos ≤ start + o) (hty : bb.ty = st.bitsType) (hS : Sync al g st bb)
    (hfa : IsP2 (ty.alignment cfg)) (hdv : al = true → ty.alignment cfg ∣ start)
    (hc : ¬ (bb.remaining = 0 ∨ bb.ty ≠ some ft))
    (hstay : ∀ o bfo, st.offset = some o → st.bitsFieldOffset = some bfo → alignTo al o (ty.alignment cfg) = o)
    (hld : loadUnit cfg ft bb d (fieldPos cfg al ty none start pos) = .ok (bb1, p1))
    (htk : bb1.take cfg.endian (b + 1) = some (v, bb2)) :
    pos ≤ p1 ∧ BInvW al g (stBit cfg al ty ft fsz (b + 1) false st) bb2 start p1 := by
  obtain ⟨t1, t2, t3⟩ := take_facts cfg.endian bb1 (b + 1) v bb2 htk
  rw [fieldPos_none_eq] at hld
  obtain ⟨rfl, rfl⟩ := loadUnit_keep cfg ft bb d _ bb1 p1 hc hld
  have hsr : st.bitsRemaining ≠ 0 := by
    have := hS.rem
    have : bb1.remaining ≠ 0 := fun e => hc (Or.inl e)
    omega
  refine ⟨le_alignTo _ _ _, ?_, ?_, Or.inl ⟨?_, ?_⟩⟩
  · intro o' ho'
    simp only [stBit, Bool.false_eq_true, if_false] at ho'
    obtain ⟨o, ho, rfl⟩ := offOf_some ho'
    have h1 := alignTo_mono (Or.inr hfa) al pos (start + o) (hoff o ho)
    have h2 : alignTo al (start + o) (ty.alignment cfg) = start + alignTo al o (ty.alignment cfg) := by
      cases al with
      | false => rfl
      | true => exact alignTo_add (Or.inr hfa) true start o (hdv rfl)
    omega
  · simp only [stBit, Bool.false_eq_true, if_false]; rw [t1]; exact hty
  · simp only [stBit, Bool.false_eq_true, if_false]; rw [t3]; have := hS.rem; omega
  · intro _ o' bfo bt bs ho' hbfo hbt' hbs
    simp only [stBit, Bool.false_eq_true, if_false] at ho' hbfo hbt'
    obtain ⟨o, ho, rfl⟩ := offOf_some ho'
    rw [hstay o bfo ho hbfo]
    exact hS.unit hsr o bfo bt bs ho hbfo hbt' hbs


theorem alignTo_gt_of_not_dvd {a : Nat} (ha : IsP2 a) (x : Nat) (h : ¬ (a ∣ x)) : alignTo true x a > x := by
  have h1 := le_alignTo true x a
  have h2 := alignTo_dvd ha x
  rcases Nat.lt_or_ge x (alignTo true x a) with h3 | h3
  · exact h3
  · have : alignTo true x a = x := by omega
    rw [this] at h2; exact absurd h2 h

/-- one bit-field step keeps the invariant, and the reader does not go back -/
theorem bit_step_w (cfg : Cfg) (al : Bool) (g : Scalar → Nat) (ty : Ty) (ft : Scalar) (fsz b : Nat) (st : LState) (bb : BitBuf)
    (start pos : Nat) (d : Bytes) (nu : Bool) (bb1 : BitBuf) (p1 : Nat) (v : Int) (bb2 : BitBuf)
    (hI : BInvW al g st bb start pos) (hsz : ft.size = some fsz) (hfa : IsP2 (ty.alignment cfg))
    (hg : al = true → ty.alignment cfg = g ft) (hdv : al = true → ty.alignment cfg ∣ start)
    (hth : lThird ft st (offOf cfg al ty st.offset) = .ok nu)
    (hld : loadUnit cfg ft bb d (fieldPos cfg al ty (if nu then offOf cfg al ty st.offset else none) start pos) = .ok (bb1, p1))
    (htk : bb1.take cfg.endian (b + 1) = some (v, bb2)) :
    pos ≤ p1 ∧ BInvW al g (stBit cfg al ty ft fsz (b + 1) nu st) bb2 start p1 := by
  -- a desynchronised state always makes the layout open a unit; the reader follows or only seeks
  have desync : Desync al g st → st.bitsType = some ft → nu = true →
      pos ≤ p1 ∧ BInvW al g (stBit cfg al ty ft fsz (b + 1) nu st) bb2 start p1 := by
    rintro ⟨hal, a, ft0, fsz0, ho, hb, hbt, hs0, hd, hnd⟩ ht hnu
    subst hal; subst hnu
    simp only [if_true] at hld
    rw [hbt] at ht; cases ht
    rw [hsz] at hs0; cases hs0
    by_cases hc : bb.remaining = 0 ∨ bb.ty ≠ some ft
    · exact new_both cfg true g ty ft fsz b st bb start pos d bb1 p1 v bb2 hI.off hsz hfa hg hdv hc hld htk
    · have hbty : bb.ty = some ft := by rw [hI.ty]; exact hbt
      exact new_layout_only cfg g ty ft fsz b st bb start pos d bb1 p1 v bb2 (a + fsz) ho (hI.off _ ho) hsz hfa (hg rfl)
        hbty hnd hc hld htk
  rcases lThird_cases ft fsz st _ nu hsz hth with ⟨hcL, rfl⟩ | ⟨hr, ht, hcase⟩
  · -- the layout opens a unit because its unit is used up or the storage type changes
    simp only [if_true] at hld
    rcases hI.mode with hS | hD
    · have hc : bb.remaining = 0 ∨ bb.ty ≠ some ft := by
        rcases hcL with h | h
        · left; have := hS.rem; omega
        · right; rw [hI.ty]; exact fun e => h e.symm
      exact new_both cfg al g ty ft fsz b st bb start pos d bb1 p1 v bb2 hI.off hsz hfa hg hdv hc hld htk
    · by_cases hc : bb.remaining = 0 ∨ bb.ty ≠ some ft
      · exact new_both cfg al g ty ft fsz b st bb start pos d bb1 p1 v bb2 hI.off hsz hfa hg hdv hc hld htk
      · have hbty : bb.ty = some ft := by
          apply Decidable.byContradiction
          intro e; exact hc (Or.inr e)
        have := desync hD (by rw [← hI.ty]; exact hbty) rfl
        simpa only [if_true] using this
  · rcases hI.mode with hS | hD
    · have hc : ¬ (bb.remaining = 0 ∨ bb.ty ≠ some ft) := by
        intro e
        rcases e with e | e
        · have := hS.rem; omega
        · exact e (by rw [hI.ty]; exact ht)
      rcases hcase with ⟨o', bfo, ho', hbfo, rfl⟩ | ⟨hnone, rfl⟩
      · obtain ⟨o, ho, rfl⟩ := offOf_some ho'
        obtain ⟨u1, u2⟩ := hS.unit hr o bfo ft fsz ho hbfo ht hsz
        by_cases hgt : alignTo al o (ty.alignment cfg) > bfo + fsz
        · -- third disjunct: the re-aligned offset lies behind the unit; only in aligned mode
          rw [decide_eq_true hgt] at hld ⊢
          simp only [if_true] at hld
          cases al with
          | false => simp only [alignTo, Bool.false_eq_true, if_false] at hgt; omega
          | true =>
            have hnd : ¬ (g ft ∣ fsz) := by
              intro hdv'
              have : g ft ∣ o := by rw [u1]; exact Nat.dvd_add (u2 rfl) hdv'
              have := alignTo_of_dvd hfa true o (fun _ => by rw [hg rfl]; exact this)
              omega
            have hbty : bb.ty = some ft := by rw [hI.ty]; exact ht
            exact new_layout_only cfg g ty ft fsz b st bb start pos d bb1 p1 v bb2 o ho (hI.off _ ho) hsz hfa (hg rfl)
              hbty hnd hc hld htk
        · rw [decide_eq_false hgt] at hld ⊢
          simp only [Bool.false_eq_true, if_false] at hld
          refine cont_both cfg al g ty ft fsz b st bb start pos d bb1 p1 v bb2 hI.off hI.ty hS hfa hdv hc ?_ hld htk
          intro o2 bfo2 ho2 hb2
          rw [ho] at ho2; cases ho2
          rw [hbfo] at hb2; cases hb2
          have := le_alignTo al o (ty.alignment cfg)
          omega
      · simp only [Bool.false_eq_true, if_false] at hld
        refine cont_both cfg al g ty ft fsz b st bb start pos d bb1 p1 v bb2 hI.off hI.ty hS hfa hdv hc ?_ hld htk
        intro o2 bfo2 ho2 hb2
        rcases hnone with h | h
        · rw [ho2] at h; simp [offOf] at h
        · rw [hb2] at h; cases h
    · have hnu : nu = true := by
        obtain ⟨hal, a, ft0, fsz0, ho, hb, hbt, hs0, hd, hnd⟩ := hD
        subst hal
        rw [hbt] at ht; cases ht
        rw [hsz] at hs0; cases hs0
        rcases hcase with ⟨o', bfo, ho', hbfo, rfl⟩ | ⟨hnone, rfl⟩
        · rw [ho] at ho'
          simp only [offOf, Option.map_some, Option.some.injEq] at ho'
          rw [hb] at hbfo; cases hbfo
          subst ho'
          apply decide_eq_true
          apply alignTo_gt_of_not_dvd hfa
          rw [hg rfl]
          intro h
          exact hnd ((Nat.dvd_add_right hd).1 h)
        · rcases hnone with h | h
          · rw [ho] at h; simp [offOf] at h
          · rw [hb] at h; cases h
      exact desync hD ht hnu


/-! ### `bitsAlignBy` of a member -/

theorem bitsAlignBy_nb {cfg : Cfg} {g : Scalar → Nat} {name an ty bits rest} (hb : isBitW bits = false)
    (h : Fields.bitsAlignBy cfg g (.cons name an ty bits rest) = true) :
    ty.bitsAlignBy cfg g = true ∧ Fields.bitsAlignBy cfg g rest = true := by
  rcases bits with _ | _ | b
  · simpa only [Fields.bitsAlignBy, Bool.and_eq_true] using h
  · simpa only [Fields.bitsAlignBy, Bool.and_eq_true] using h
  · cases hb

theorem bitsAlignBy_bit {cfg : Cfg} {g : Scalar → Nat} {name an ty b rest}
    (h : Fields.bitsAlignBy cfg g (.cons name an ty (some (b + 1)) rest) = true) :
    Fields.bitsAlignBy cfg g rest = true := by
  simp only [Fields.bitsAlignBy, Bool.and_eq_true] at h
  exact h.2

theorem bitsAlignBy_head {cfg : Cfg} {g : Scalar → Nat} {name an ty b rest ft}
    (h : Fields.bitsAlignBy cfg g (.cons name an ty (some (b + 1)) rest) = true) (hbase : ty.bitBase = some ft) :
    ty.alignment cfg = g ft := by
  simp only [Fields.bitsAlignBy, hbase, Bool.and_eq_true, beq_iff_eq] at h
  exact h.1

/-! ### Position facts and truncation, second version -/

def FieldsPTw (cfg : Cfg) (al : Bool) (d : Bytes) (fs : Fields) (offs : List (Option Nat)) (start : Nat) (bb : BitBuf)
    (ctx : Ctx) (pos : Nat) (sz : Option Nat) (sa : Nat) (vs : Vals) (szs : List (String × Nat)) (p : Nat) : Prop :=
  pos ≤ p ∧ (∀ k, sz = some k → alignTo al p sa ≤ start + k) ∧
  ∀ q, p ≤ q → readFields cfg al fs offs start bb ctx (d.take q) pos = .ok (vs, szs, p)

mutual
theorem ptw_ty (cfg : Cfg) (al : Bool) (g : Scalar → Nat) (d : Bytes) : ∀ (ty : Ty), ty.plain = true →
    ty.uniformAlign al = true → ty.pow2Aligned cfg → (al = true → ty.bitsAlignBy cfg g = true) →
    ElemPFw cfg al ty d ∧ ElemT cfg al ty d
  | .sc s a, _, _, _, _ => ⟨elemPF_weak (pf_sc cfg al s a d), t_sc cfg al s a d⟩
  | .enum b a f, _, _, _, _ => ⟨elemPF_weak (pf_enum cfg al b a f d), t_enum cfg al b a f d⟩
  | .ptr t, _, _, _, _ => ⟨elemPF_weak (pf_ptr cfg al t d), t_ptr cfg al t d⟩
  | .union _ _, hPl, _, _, _ => by simp [Ty.plain] at hPl
  | .arr e len, hPl, hU, hP, hBN => by
    have hPle : e.plain = true := by simp only [Ty.plain, Bool.and_eq_true] at hPl; exact hPl.2
    simp only [Ty.bitsAlignBy] at hBN
    simp only [Ty.uniformAlign] at hU
    simp only [Ty.pow2Aligned] at hP
    obtain ⟨ihPF, ih⟩ := ptw_ty cfg al g d e hPle hU hP hBN
    constructor
    · intro ctx pos v p h hpos
      simp only [sAlign] at hpos
      unfold PFw
      simp only [sAlign]
      cases len with
      | fixed n =>
        rw [read_arr_fixed] at h
        obtain ⟨a1, a2, a3⟩ := pfw_array cfg al e d ihPF n ctx pos v p h hpos
        refine ⟨a1, a2, ?_⟩
        intro k hk
        simp only [Ty.size] at hk
        cases he : e.size cfg with
        | none => rw [he] at hk; cases hk
        | some k' => rw [he] at hk; cases hk; exact a3 k' he
      | expr toks =>
        rw [read_arr_expr] at h
        obtain ⟨n, _, h2⟩ := bind_ok h
        obtain ⟨a1, a2, _⟩ := pfw_array cfg al e d ihPF n ctx pos v p h2 hpos
        exact ⟨a1, a2, by intro k hk; simp [Ty.size] at hk⟩
      | nullTerm =>
        rw [read_arr_null] at h
        obtain ⟨a1, a2⟩ := read0_pos cfg e hPl ctx d pos v p h
        exact ⟨a1, fun _ => by rw [a2]; exact Nat.one_dvd _, by intro k hk; simp [Ty.size] at hk⟩
      | eof => simp [Ty.plain] at hPl
    · intro ctx pos v p h hpos q hq
      simp only [sAlign] at hpos
      cases len with
      | fixed n =>
        rw [read_arr_fixed] at h ⊢
        exact tw_array cfg al e d ihPF ih n ctx pos v p h hpos q hq
      | expr toks =>
        rw [read_arr_expr] at h ⊢
        obtain ⟨n, h1, h2⟩ := bind_ok h
        rw [h1]; simp only [Except.bind]
        exact tw_array cfg al e d ihPF ih n ctx pos v p h2 hpos q hq
      | nullTerm =>
        rw [read_arr_null] at h ⊢
        exact t_read0 cfg e hPl ctx d pos v p h q hq
      | eof => simp [Ty.plain] at hPl
  | .struct al' fs, hPl, hU, hP, hBN => by
    simp only [Ty.plain] at hPl
    simp only [Ty.bitsAlignBy] at hBN
    simp only [Ty.uniformAlign, Bool.and_eq_true, beq_iff_eq] at hU
    simp only [Ty.pow2Aligned] at hP
    obtain ⟨rfl, hU⟩ := hU
    have hM := maxAlign_p2 cfg fs hP 0 (Or.inl rfl)
    have key : ∀ ctx pos v p, read cfg (.struct al' fs) ctx d pos = .ok (v, p) →
        (al' = true → sAlign cfg (.struct al' fs) ∣ pos) →
        ∃ sz offs vs szs pf, structLayout cfg al' fs = .ok (sz, Fields.maxAlign cfg fs 0, offs) ∧
          v = .record vs ∧ p = alignTo al' pf (Fields.maxAlign cfg fs 0) ∧
          FieldsPTw cfg al' d fs offs pos BitBuf.empty [] pos sz (Fields.maxAlign cfg fs 0) vs szs pf := by
      intro ctx pos v p h hpos
      rw [read_struct] at h
      obtain ⟨⟨sz, sa, offs⟩, hl, h2⟩ := bind_ok h
      obtain ⟨⟨vs, szs, pf⟩, h3, h4⟩ := bind_ok h2
      have hsa : sa = Fields.maxAlign cfg fs 0 := (layout_final cfg al' fs LState.init sz sa offs hl).1
      subst hsa
      have hdv : al' = true → allAlignDvd cfg pos fs :=
        fun ha => allAlignDvd_of_sAlign cfg al' fs hP pos (hpos ha)
      have hH : ∀ x, alignTo al' (pos + x) (Fields.maxAlign cfg fs 0) = pos + alignTo al' x (Fields.maxAlign cfg fs 0) := by
        intro x
        cases al' with
        | false => rfl
        | true =>
          by_cases h0 : Fields.maxAlign cfg fs 0 = 0
          · simp only [alignTo, if_true, h0, padNat_zero]; omega
          · have := hpos rfl
            simp only [sAlign, Ty.alignment, if_neg h0] at this
            exact alignTo_add hM true pos x this
      refine ⟨sz, offs, vs, szs, pf, hl, ?_, ?_, ?_⟩
      · cases h4; rfl
      · cases h4; rfl
      · exact ptw_fields cfg al' g d fs hPl hU hP hBN LState.init pos BitBuf.empty [] pos sz _ offs vs szs pf hl h3 hdv
          (binvw_mkSt al' g (some 0) 0 pos pos (by intro o ho; cases ho; exact Nat.le_refl _)) hM hH
    constructor
    · intro ctx pos v p h hpos
      obtain ⟨sz, offs, vs, szs, pf, hl, rfl, rfl, b1, b2, _⟩ := key ctx pos v p h hpos
      have hle := le_alignTo al' pf (Fields.maxAlign cfg fs 0)
      refine ⟨by omega, ?_, ?_⟩
      · intro ha; subst ha
        simp only [sAlign, Ty.alignment]
        split
        · exact Nat.one_dvd _
        · rename_i h0
          rcases hM with h1 | h1
          · exact absurd h1 h0
          · exact alignTo_dvd h1 pf
      · intro k hk
        have hsz : (Ty.struct al' fs).size cfg = sz := by
          simp only [Ty.size]
          unfold structLayout LState.init at hl
          rw [hl]
        rw [hsz] at hk
        exact b2 k hk
    · intro ctx pos v p h hpos q hq
      obtain ⟨sz, offs, vs, szs, pf, hl, rfl, rfl, b1, b2, b3⟩ := key ctx pos v p h hpos
      have hle := le_alignTo al' pf (Fields.maxAlign cfg fs 0)
      rw [read_struct, hl]
      simp only [Except.bind]
      rw [b3 q (by omega)]
      rfl
theorem ptw_fields (cfg : Cfg) (al : Bool) (g : Scalar → Nat) (d : Bytes) : ∀ (fs : Fields), Fields.plain fs = true →
    Fields.uniformAlign al fs = true → fs.pow2Aligned cfg → (al = true → Fields.bitsAlignBy cfg g fs = true) →
    ∀ (st : LState) (start : Nat) (bb : BitBuf) (ctx : Ctx) (pos : Nat) (sz : Option Nat) (sa : Nat)
      (offs : List (Option Nat)) (vs : Vals) (szs : List (String × Nat)) (p : Nat),
    Fields.layout cfg al fs st = .ok (sz, sa, offs) →
    readFields cfg al fs offs start bb ctx d pos = .ok (vs, szs, p) →
    (al = true → allAlignDvd cfg start fs) → BInvW al g st bb start pos → (sa = 0 ∨ IsP2 sa) →
    (∀ x, alignTo al (start + x) sa = start + alignTo al x sa) →
    FieldsPTw cfg al d fs offs start bb ctx pos sz sa vs szs p
  | .nil, _, _, _, _, st, start, bb, ctx, pos, sz, sa, offs, vs, szs, p, hl, hr, _, hI, hsa, hH => by
    rw [layout_nil_any] at hl
    simp only [Except.ok.injEq, Prod.mk.injEq] at hl
    obtain ⟨rfl, rfl, rfl⟩ := hl
    rw [readFields_nil] at hr; cases hr
    refine ⟨Nat.le_refl _, ?_, ?_⟩
    · intro k hk
      cases ho : st.offset with
      | none => rw [ho] at hk; cases hk
      | some o =>
        rw [ho] at hk
        simp only [Option.map_some, Option.some.injEq] at hk
        have := alignTo_mono hsa al pos (start + o) (hI.off o ho)
        rw [hH, hk] at this
        exact this
    · intro q _; rw [readFields_nil]
  | .cons name an ty bits rest, hPl, hU, hP, hBN, st, start, bb, ctx, pos, sz, sa, offs, vs, szs, p, hl, hr, hdv, hI, hsa, hH => by
    simp only [Fields.plain, Bool.and_eq_true] at hPl
    simp only [Fields.uniformAlign, Bool.and_eq_true] at hU
    simp only [Fields.pow2Aligned] at hP
    have hfa := alignment_p2 cfg ty hP.1
    cases hb : isBitW bits with
    | false =>
      have hBN' := fun ha => bitsAlignBy_nb hb (hBN ha)
      rw [layout_cons_nb_any cfg al name an ty bits rest st hb] at hl
      obtain ⟨⟨sz', sa', offs'⟩, hl1, hl2⟩ := bind_ok hl
      simp only [Except.ok.injEq, Prod.mk.injEq] at hl2
      obtain ⟨rfl, rfl, rfl⟩ := hl2
      rw [readFields_cons_nb _ _ _ _ _ _ _ _ _ _ _ _ _ _ hb] at hr
      obtain ⟨⟨v, p1⟩, h1, h2⟩ := bind_ok hr
      obtain ⟨⟨vs', szs', p'⟩, h3, h4⟩ := bind_ok h2
      obtain ⟨f1, f2, f3⟩ := fieldPos_facts_w cfg al ty st.offset start pos hI.off hfa (fun ha => (hdv ha).1)
      generalize hfp : fieldPos cfg al ty (offOf cfg al ty st.offset) start pos = fp at *
      have hsa' : al = true → sAlign cfg ty ∣ fp := fun ha => Nat.dvd_trans (sAlign_dvd_alignment cfg ty) (f2 ha)
      obtain ⟨ihPF, ihT⟩ := ptw_ty cfg al g d ty hPl.1 hU.1 hP.1 (fun ha => (hBN' ha).1)
      obtain ⟨a1, _, a3⟩ := ihPF ctx fp v p1 h1 hsa'
      have hinv' : ∀ o, nextOf cfg al ty st.offset = some o → p1 ≤ start + o := by
        intro o' ho'
        cases hso : st.offset with
        | none => rw [hso] at ho'; simp [nextOf, offOf] at ho'
        | some o =>
          rw [hso] at ho'
          cases hs : ty.size cfg with
          | none => simp [nextOf, offOf, hs] at ho'
          | some k =>
            simp only [nextOf, offOf, hs, Option.map_some, Option.bind_some, Option.some.injEq] at ho'
            have := a3 k hs
            rw [f3 o hso] at this; omega
      obtain ⟨b1, b2, b3⟩ := ptw_fields cfg al g d rest hPl.2 hU.2 hP.2 (fun ha => (hBN' ha).2) _ start BitBuf.empty
        (Ctx.set ctx name v) p1 sz' sa' offs' vs' szs' p' hl1 h3 (fun ha => (hdv ha).2)
        (binvw_mkSt al g _ _ start p1 hinv') hsa hH
      have hpp : p' = p := by cases h4; rfl
      subst hpp
      refine ⟨by omega, b2, ?_⟩
      intro q hq
      rw [readFields_cons_nb _ _ _ _ _ _ _ _ _ _ _ _ _ _ hb, hfp]
      rw [ihT ctx fp v p1 h1 hsa' q (by omega)]
      simp only [Except.bind]
      rw [b3 q hq]
      exact h4
    | true =>
      obtain ⟨b, rfl⟩ : ∃ b, bits = some (b + 1) := by
        rcases bits with _ | _ | b
        · cases hb
        · cases hb
        · exact ⟨b, rfl⟩
      rw [layout_cons_bit] at hl
      cases hbase : ty.bitBase with
      | none => rw [hbase] at hl; cases hl
      | some ft =>
        rw [hbase] at hl; simp only [] at hl
        cases hsz : ft.size with
        | none => rw [hsz] at hl; cases hl
        | some fsz =>
          rw [hsz] at hl; simp only [] at hl
          obtain ⟨nu, hth, hl2⟩ := bind_ok hl
          split at hl2
          · cases hl2
          obtain ⟨⟨sz', sa', offs'⟩, hl3, hl4⟩ := bind_ok hl2
          simp only [Except.ok.injEq, Prod.mk.injEq] at hl4
          obtain ⟨rfl, rfl, rfl⟩ := hl4
          have hg : al = true → ty.alignment cfg = g ft := fun ha => bitsAlignBy_head (hBN ha) hbase
          rw [readFields_cons_bits', hbase] at hr
          simp only [] at hr
          obtain ⟨⟨bb1, p1⟩, hld, hr2⟩ := bind_ok hr
          cases htk : bb1.take cfg.endian (b + 1) with
          | none => simp only [htk] at hr2; cases hr2
          | some vb =>
            obtain ⟨v, bb2⟩ := vb
            simp only [htk] at hr2
            obtain ⟨⟨vs', szs', p'⟩, hr3, hr4⟩ := bind_ok hr2
            obtain ⟨s1, s2⟩ := bit_step_w cfg al g ty ft fsz b st bb start pos d nu bb1 p1 v bb2 hI hsz hfa hg
              (fun ha => (hdv ha).1) hth hld htk
            obtain ⟨b1, b2, b3⟩ := ptw_fields cfg al g d rest hPl.2 hU.2 hP.2 (fun ha => bitsAlignBy_bit (hBN ha)) _ start
              bb2 (Ctx.set ctx name (bitVal ty v)) p1 sz' sa' offs' vs' szs' p' hl3 hr3 (fun ha => (hdv ha).2) s2 hsa hH
            have hpp : p' = p := by cases hr4; rfl
            subst hpp
            refine ⟨by omega, b2, ?_⟩
            intro q hq
            rw [readFields_cons_bits', hbase]
            simp only []
            rw [loadUnit_take cfg ft bb d _ (bb1, p1) q hld (by simp only []; omega)]
            simp only [Except.bind, htk]
            rw [b3 q hq]
            exact hr4
end

/-- **Window theorem with bit-fields, general form**: in aligned mode the alignment of a bit-field is a function `g` of
    its storage scalar (nothing in packed mode). Covers int24/int48. -/
theorem read_prefix_bits_by (cfg : Cfg) (al : Bool) (g : Scalar → Nat) (ty : Ty) (hplain : ty.plain = true)
    (hbn : al = true → ty.bitsAlignBy cfg g = true) (hu : ty.uniformAlign al = true) (hp : ty.pow2Aligned cfg) (ctx : Ctx)
    (d1 : Bytes) (pos : Nat) (hal : ty.alignsDivide cfg pos = true) (v : Val) (p : Nat)
    (hr : read cfg ty ctx d1 pos = .ok (v, p)) (d2 : Bytes) (hpre : d1.take p <+: d2) :
    read cfg ty ctx d2 pos = .ok (v, p) := by
  have h1 := (ptw_ty cfg al g d1 ty hplain hu hp hbn).2 ctx pos v p hr
    (fun _ => sAlign_dvd_of_alignsDivide cfg pos ty hal) p (Nat.le_refl _)
  exact read_extend cfg ty hplain ctx (d1.take p) pos v p h1 d2 hpre

end Cstruct.Core.Lemmas.WinBits
