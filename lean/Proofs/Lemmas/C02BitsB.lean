/-
  Helper lemmas for `Proofs/C02Bits.lean`, part 2: the member loop of "parse, then dump" for packed structures with
  bit-fields. Statements `TyF`, `IdleF`, `PendF` (forward and total: given enough input the reader succeeds, consumes the
  declared size, yields a value of the type, and the writer reproduces the consumed bytes under the mask), unfolding of the
  mask, and the central step `bit_step` (one bit-field = one `take`, one `put`, possibly a flush, the remaining members).
-/
import Proofs.Lemmas.C02BitsA
namespace Cstruct.C02B.Lemmas
open Cstruct Cstruct.Core Cstruct.Core.Lemmas Cstruct.C06 Cstruct.C06.Lemmas Cstruct.C02B
open Cstruct.C05.Lemmas (encBytes encBytes_length)
set_option linter.unusedSimpArgs false

/-! ### Unfolding the mask -/

theorem fieldsMaskB_nil (cfg : Cfg) (offs cur u) : fieldsMaskB cfg .nil offs cur u = flushMask cfg.endian u := by
  rw [fieldsMaskB.eq_def]

theorem fieldsMaskB_nb (cfg : Cfg) (name an ty rest fo offs cur u) :
    fieldsMaskB cfg (.cons name an ty none rest) (fo :: offs) cur u =
      flushMask cfg.endian u ++ zeros (fo.getD cur - cur) ++ maskB cfg ty ++
        fieldsMaskB cfg rest offs (fo.getD cur + (maskB cfg ty).length) none := by
  rw [fieldsMaskB.eq_def]
  simp only [List.headD_cons, List.drop_one, List.tail_cons]

theorem fieldsMaskB_bit_new (cfg : Cfg) (name an ty b rest o offs cur u ft fsz) (hbase : ty.bitBase = some ft)
    (hsz : ft.size = some fsz) :
    fieldsMaskB cfg (.cons name an ty (some (b + 1)) rest) (some o :: offs) cur u =
      flushMask cfg.endian u ++ zeros (o - cur) ++
        fieldsMaskB cfg rest offs (o + fsz) (some (PendMask.first cfg.endian fsz (b + 1))) := by
  rw [fieldsMaskB.eq_def]
  simp only [hbase, hsz, Option.bind, List.headD_cons, List.drop_one, List.tail_cons, Option.getD_some]

theorem fieldsMaskB_bit_cont (cfg : Cfg) (name an ty b rest offs cur p ft fsz) (hbase : ty.bitBase = some ft)
    (hsz : ft.size = some fsz) :
    fieldsMaskB cfg (.cons name an ty (some (b + 1)) rest) (none :: offs) cur (some p) =
      fieldsMaskB cfg rest offs cur (some (p.add cfg.endian (b + 1))) := by
  rw [fieldsMaskB.eq_def]
  simp only [hbase, hsz, Option.bind, List.headD_cons, List.drop_one, List.tail_cons]

theorem flushMask_none (e : Endian) : flushMask e none = [] := rfl

theorem flushMask_some (e : Endian) (p : PendMask) : flushMask e (some p) = unitBytes e p.size p.mask := rfl

theorem zeros_zero : zeros 0 = [] := rfl

/-- between units (for the layout) a pending mask unit is emitted before anything else -/
theorem mask_flush (cfg : Cfg) (fs : Fields) (hS : Fields.fragSB cfg fs = true) (st : LState) (sz sa offs)
    (hlay : Fields.layout cfg false fs st = .ok (sz, sa, offs)) (hli : LIdle st fs) (o : Nat) (ho : st.offset = some o)
    (cur : Nat) (p : PendMask) :
    fieldsMaskB cfg fs offs cur (some p) = flushMask cfg.endian (some p) ++ fieldsMaskB cfg fs offs cur none := by
  rcases fs with _ | ⟨name, an, ty, _ | _ | b, rest⟩
  · simp only [fieldsMaskB_nil, flushMask_none, List.append_nil]
  · rw [layout_nb] at hlay
    obtain ⟨⟨sz', sa', offs'⟩, _, heq⟩ := bind_ok hlay
    simp only [Except.ok.injEq, Prod.mk.injEq] at heq
    obtain ⟨rfl, rfl, rfl⟩ := heq
    simp only [fieldsMaskB_nb, flushMask_none, List.nil_append, List.append_assoc]
  · simp [Fields.fragSB] at hS
  · simp only [Fields.fragSB, Bool.and_eq_true] at hS
    obtain ⟨ft, fsz, hbase, hint, hsz⟩ := bitOk_base ty hS.1
    have hnew : st.bitsRemaining = 0 ∨ some ft ≠ st.bitsType := by
      rcases hli with h | h
      · exact Or.inl h
      · rw [hbase] at h; exact Or.inr h
    rw [layout_bit_new cfg name an ty b rest st ft fsz hbase hsz hnew] at hlay
    split at hlay
    · cases hlay
    obtain ⟨⟨sz', sa', offs'⟩, _, heq⟩ := bind_ok hlay
    simp only [Except.ok.injEq, Prod.mk.injEq] at heq
    obtain ⟨rfl, rfl, rfl⟩ := heq
    rw [ho]
    simp only [fieldsMaskB_bit_new cfg name an ty b rest o offs' cur _ ft fsz hbase hsz, flushMask_none, List.nil_append,
      List.append_assoc]

/-! ### The statements -/

/-- parse, then dump, for one type: given enough input -/
def TyF (cfg : Cfg) (ty : Ty) : Prop :=
  ty.fragSB cfg = true → ty.uniformAlign false = true → ty.defErr cfg = none → ∀ n, ty.size cfg = some n →
    (maskB cfg ty).length = n ∧
    ∀ (ctx : Ctx) (d : Bytes) (pos : Nat), pos + n ≤ d.length →
      ∃ v, read cfg ty ctx d pos = .ok (v, pos + n) ∧ HasTyB cfg v ty ∧
        write cfg ty v pos = .ok (andBytes (sread d pos n) (maskB cfg ty))

/-- the member loop from a state without a pending unit: reader position = writer position = layout offset `o` -/
def IdleF (cfg : Cfg) (fs : Fields) : Prop :=
  Fields.fragSB cfg fs = true → Fields.uniformAlign false fs = true → Fields.defErr cfg fs = none →
  ∀ st total sa offs, Fields.layout cfg false fs st = .ok (some total, sa, offs) → LIdle st fs →
  ∀ o, st.offset = some o →
    o ≤ total ∧ (fieldsMaskB cfg fs offs o none).length = total - o ∧
    ∀ (ctx : Ctx) (d : Bytes) (start : Nat) (bbR : BitBuf), start + total ≤ d.length → RIdle bbR fs →
      ∃ vs szs, readFields cfg false fs offs start bbR ctx d (start + o) = .ok (vs, szs, start + total) ∧
        HasTysB cfg vs fs ∧
        ∃ out bbF fl, writeFields cfg false fs offs vs start BitBuf.empty (start + o) = .ok (out, bbF) ∧
          flushBits cfg bbF = .ok fl ∧
          out ++ fl = andBytes (sread d (start + o) (total - o)) (fieldsMaskB cfg fs offs o none)

/-- the layout side of a pending unit of storage type `ft` (`fsz` bytes) of which `k` bits are used -/
structure PendL (st : LState) (ft : Scalar) (fsz k : Nat) : Prop where
  isInt : Scalar.isInt ft = true
  size : ft.size = some fsz
  lty : st.bitsType = some ft
  lrem : st.bitsRemaining = ((8 * fsz - k : Nat) : Int)
  lt : k < 8 * fsz
  loff : st.offset = st.bitsFieldOffset.map (· + fsz)

/-- the member loop from a state with a pending unit at offset `uo`: the layout offset and the reader are behind the
    unit, the reader has loaded it as `U` and handed out `k` bits, the writer has emitted nothing for it and holds
    `F &&& M` where `F` is the unsigned value of the unit's input bytes and `M` the mask of the fields so far -/
def PendF (cfg : Cfg) (fs : Fields) : Prop :=
  Fields.fragSB cfg fs = true → Fields.uniformAlign false fs = true → Fields.defErr cfg fs = none →
  ∀ st total sa offs, Fields.layout cfg false fs st = .ok (some total, sa, offs) →
  ∀ ft fsz k, PendL st ft fsz k → ∀ uo, st.offset = some (uo + fsz) → ∀ M : Nat,
    uo + fsz ≤ total ∧ (fieldsMaskB cfg fs offs (uo + fsz) (some ⟨fsz, k, M⟩)).length = total - uo ∧
    ∀ (ctx : Ctx) (d : Bytes) (start : Nat) (bbR bbW : BitBuf) (U : Int), start + total ≤ d.length →
      U % ((2 ^ (8 * fsz) : Nat) : Int) = (decodeNat cfg.endian (sread d (start + uo) fsz) : Int) →
      bbR.ty = some ft → ReadInv cfg.endian (8 * fsz) U k bbR →
      bbW.ty = some ft → bbW.remaining = 8 * fsz - k →
      bbW.buffer = ((decodeNat cfg.endian (sread d (start + uo) fsz) &&& M : Nat) : Int) →
      ∃ vs szs, readFields cfg false fs offs start bbR ctx d (start + (uo + fsz)) = .ok (vs, szs, start + total) ∧
        HasTysB cfg vs fs ∧
        ∃ out bbF fl, writeFields cfg false fs offs vs start bbW (start + uo) = .ok (out, bbF) ∧
          flushBits cfg bbF = .ok fl ∧
          out ++ fl = andBytes (sread d (start + uo) (total - uo)) (fieldsMaskB cfg fs offs (uo + fsz) (some ⟨fsz, k, M⟩))

/-! ### End of the member list -/

theorem idleF_nil (cfg : Cfg) : IdleF cfg .nil := by
  intro _ _ _ st total sa offs hlay _ o ho
  rw [layout_nil_packed] at hlay
  simp only [Except.ok.injEq, Prod.mk.injEq] at hlay
  obtain ⟨h1, rfl, rfl⟩ := hlay
  rw [ho] at h1
  cases h1
  refine ⟨Nat.le_refl _, by simp [fieldsMaskB_nil, flushMask_none], ?_⟩
  intro ctx d start bbR _ _
  refine ⟨.nil, [], by rw [readFields_nil], .nil, [], BitBuf.empty, [], writeFields_nil .., rfl, ?_⟩
  simp [fieldsMaskB_nil, flushMask_none, andBytes_nil_right]

theorem unit_lt (e : Endian) (d : Bytes) (pos fsz : Nat) (h : pos + fsz ≤ d.length) :
    decodeNat e (sread d pos fsz) < 2 ^ (8 * fsz) := by
  have := C05.Lemmas.decodeNat_lt e (sread d pos fsz)
  rwa [sread_length_of_le d pos fsz h] at this

theorem pendF_nil (cfg : Cfg) : PendF cfg .nil := by
  intro _ _ _ st total sa offs hlay ft fsz k hP uo ho M
  rw [layout_nil_packed] at hlay
  simp only [Except.ok.injEq, Prod.mk.injEq] at hlay
  obtain ⟨h1, rfl, rfl⟩ := hlay
  rw [ho] at h1
  cases h1
  refine ⟨Nat.le_refl _, by simp [fieldsMaskB_nil, flushMask_some, unitBytes_length], ?_⟩
  intro ctx d start bbR bbW U hlen hUF hRty hR hWty hWrem hWbuf
  have hl : start + uo + fsz ≤ d.length := by omega
  have hF := unit_lt cfg.endian d (start + uo) fsz hl
  have hfl := flush_nat cfg ft fsz _ bbW hWty hP.size hWbuf (and_lt_of_lt _ M _ hF)
  refine ⟨.nil, [], by rw [readFields_nil], .nil, [], bbW, _, writeFields_nil .., hfl, ?_⟩
  have e1 : uo + fsz - uo = fsz := by omega
  rw [fieldsMaskB_nil, flushMask_some, e1, List.nil_append]
  exact unit_and cfg.endian _ fsz M (sread_length_of_le d (start + uo) fsz hl)

/-! ### One bit-field: take, put, (flush,) the remaining members -/

theorem putStep_eq (cfg : Cfg) (rest offs vs start fsz i w bb2 pos bb3) (h : BitBuf.put cfg.endian bb2 fsz i w = some bb3) :
    putStep cfg rest offs vs start fsz i w bb2 pos =
      (if bb3.remaining = 0 then flushBits cfg bb3 else .ok []).bind fun fl3 =>
        (writeFields cfg false rest offs vs start (if bb3.remaining = 0 then BitBuf.empty else bb3) (pos + fl3.length)).bind
          fun (o, bbf) => .ok (fl3 ++ o, bbf) := by
  simp only [putStep, h]

theorem bit_step (cfg : Cfg) (rest : Fields) (IHi : IdleF cfg rest) (IHp : PendF cfg rest)
    (hS : Fields.fragSB cfg rest = true) (hU : Fields.uniformAlign false rest = true)
    (hD : Fields.defErr cfg rest = none) (st1 : LState) (total sa offs')
    (hlay : Fields.layout cfg false rest st1 = .ok (some total, sa, offs'))
    (ft : Scalar) (fsz k w : Nat) (hi : Scalar.isInt ft = true) (hsz : ft.size = some fsz)
    (hbt : st1.bitsType = some ft) (hbr : st1.bitsRemaining = ((8 * fsz - (k + w) : Nat) : Int)) (hkw : k + w ≤ 8 * fsz)
    (hoff : st1.offset = st1.bitsFieldOffset.map (· + fsz)) (uo : Nat) (ho : st1.offset = some (uo + fsz)) (M M' : Nat)
    (hM : M' = M ||| slotMask (slotLo cfg.endian (8 * fsz) k w) w) :
    uo + fsz ≤ total ∧ (fieldsMaskB cfg rest offs' (uo + fsz) (some ⟨fsz, k + w, M'⟩)).length = total - uo ∧
    ∀ (d : Bytes) (start : Nat) (bbR bbW : BitBuf) (U : Int), start + total ≤ d.length →
      U % ((2 ^ (8 * fsz) : Nat) : Int) = (decodeNat cfg.endian (sread d (start + uo) fsz) : Int) →
      bbR.ty = some ft → ReadInv cfg.endian (8 * fsz) U k bbR →
      bbW.ty = some ft → bbW.remaining = 8 * fsz - k →
      bbW.buffer = ((decodeNat cfg.endian (sread d (start + uo) fsz) &&& M : Nat) : Int) →
      ∃ (v : Int) (bbR2 : BitBuf), bbR.take cfg.endian w = some (v, bbR2) ∧ 0 ≤ v ∧ v < 2 ^ w ∧
        ∀ ctx : Ctx, ∃ vs szs,
          readFields cfg false rest offs' start bbR2 ctx d (start + (uo + fsz)) = .ok (vs, szs, start + total) ∧
          HasTysB cfg vs rest ∧
          ∃ out bbF fl, putStep cfg rest offs' vs start fsz v w bbW (start + uo) = .ok (out, bbF) ∧
            flushBits cfg bbF = .ok fl ∧
            out ++ fl = andBytes (sread d (start + uo) (total - uo))
              (fieldsMaskB cfg rest offs' (uo + fsz) (some ⟨fsz, k + w, M'⟩)) := by
  by_cases hex : k + w = 8 * fsz
  · -- the unit is exhausted: the writer flushes it now
    have hli : LIdle st1 rest := lidle_of_rem st1 (by rw [hbr]; omega) rest
    obtain ⟨hle, hmlen, hrest⟩ := IHi hS hU hD st1 total sa offs' hlay hli (uo + fsz) ho
    have hmf := mask_flush cfg rest hS st1 _ sa offs' hlay hli (uo + fsz) ho (uo + fsz) ⟨fsz, k + w, M'⟩
    refine ⟨hle, ?_, ?_⟩
    · rw [hmf, List.length_append, hmlen, flushMask_some, unitBytes_length]; simp only []; omega
    intro d start bbR bbW U hlen hUF hRty hR hWty hWrem hWbuf
    obtain ⟨bbR2, ht, hR2, h0, h1⟩ := take_step cfg.endian (8 * fsz) k w U bbR hR hkw
    refine ⟨_, bbR2, ht, h0, h1, ?_⟩
    intro ctx
    obtain ⟨vs, szs, hrr, hvs, out, bbF, fl, hwr, hfl, hout⟩ := hrest ctx d start bbR2 hlen
      (ridle_of_rem bbR2 (by rw [hR2.2.1]; omega) rest)
    refine ⟨vs, szs, hrr, hvs, ?_⟩
    have hl : start + uo + fsz ≤ d.length := by omega
    have hF := unit_lt cfg.endian d (start + uo) fsz hl
    generalize hFd : decodeNat cfg.endian (sread d (start + uo) fsz) = F at hUF hWbuf hF
    have hv := slotVal_of_emod U F (8 * fsz) _ w hUF (slotLo_le cfg.endian (8 * fsz) k w hkw)
    have hput := put_mask cfg.endian fsz k w F M bbW hWrem hWbuf hkw
    rw [← hv, ← hM] at hput
    have hz : 8 * fsz - (k + w) = 0 := by omega
    rw [hz] at hput
    have hfl3 : flushBits cfg { bbW with buffer := ((F &&& M' : Nat) : Int), remaining := 0 } =
        .ok (encBytes cfg.endian fsz (F &&& M')) :=
      flush_nat cfg ft fsz _ _ hWty hsz rfl (and_lt_of_lt _ _ _ hF)
    have hl3 : (encBytes cfg.endian fsz (F &&& M')).length = fsz := encBytes_length _ _ _
    refine ⟨encBytes cfg.endian fsz (F &&& M') ++ out, bbF, fl, ?_, hfl, ?_⟩
    · rw [putStep_eq cfg rest offs' vs start fsz _ w bbW (start + uo) _ hput]
      simp only [if_true, hfl3, Except.bind, hl3]
      rw [show start + uo + fsz = start + (uo + fsz) by omega, hwr]
    · have e1 : total - uo = fsz + (total - (uo + fsz)) := by omega
      have hsl : (sread d (start + uo) fsz).length = fsz := sread_length_of_le d _ fsz hl
      rw [hmf, flushMask_some, e1, sread_add, andBytes_append _ _ _ _ (by rw [hsl, unitBytes_length]),
        List.append_assoc, hout, ← unit_and cfg.endian _ fsz M' hsl, hFd,
        show start + uo + fsz = start + (uo + fsz) by omega]
  · -- the unit stays pending
    have hP : PendL st1 ft fsz (k + w) := ⟨hi, hsz, hbt, hbr, by omega, hoff⟩
    obtain ⟨hle, hmlen, hrest⟩ := IHp hS hU hD st1 total sa offs' hlay ft fsz (k + w) hP uo ho M'
    refine ⟨hle, hmlen, ?_⟩
    intro d start bbR bbW U hlen hUF hRty hR hWty hWrem hWbuf
    obtain ⟨bbR2, ht, hR2, h0, h1⟩ := take_step cfg.endian (8 * fsz) k w U bbR hR hkw
    refine ⟨_, bbR2, ht, h0, h1, ?_⟩
    intro ctx
    have hv := slotVal_of_emod U _ (8 * fsz) _ w hUF (slotLo_le cfg.endian (8 * fsz) k w hkw)
    have hput := put_mask cfg.endian fsz k w _ M bbW hWrem hWbuf hkw
    rw [← hv, ← hM] at hput
    obtain ⟨vs, szs, hrr, hvs, out, bbF, fl, hwr, hfl, hout⟩ := hrest ctx d start bbR2
      { bbW with buffer := _, remaining := 8 * fsz - (k + w) } U hlen hUF (by rw [take_ty ht, hRty]) hR2 hWty rfl rfl
    refine ⟨vs, szs, hrr, hvs, out, bbF, fl, ?_, hfl, hout⟩
    rw [putStep_eq cfg rest offs' vs start fsz _ w bbW (start + uo) _ hput]
    have hnz : 8 * fsz - (k + w) ≠ 0 := by omega
    simp only [hnz, if_false, Except.bind, List.length_nil, Nat.add_zero, List.nil_append, hwr]

end Cstruct.C02B.Lemmas
