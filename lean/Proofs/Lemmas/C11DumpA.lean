/-
  Helper lemmas for `Proofs/C11Dump.lean`, part A: the member order of `UnionMetaType._write`.
  `insertDesc` (stable insertion into a list sorted by descending key) keeps the list sorted; the first element with a
  given property and the last element after an insertion; hence the first "regular" member and the last member of the
  order built by inserting the members one after the other are what the sort-free scans of `Proofs/Spec/C11Dump.lean`
  (`firstLargestRegular`, `lastSmallest`) compute.
-/
import Proofs.Spec.C11Dump

namespace Cstruct.C11.DumpLemmas
open Cstruct

/-- sorted by descending key -/
def SortedD (l : List (Nat × Nat)) : Prop := l.Pairwise (fun a b => a.1 ≥ b.1)

theorem mem_insertDesc (k i : Nat) : ∀ (l : List (Nat × Nat)) (x : Nat × Nat), x ∈ insertDesc k i l → x = (k, i) ∨ x ∈ l
  | [], x, h => by
    simp only [insertDesc, List.mem_singleton] at h
    exact Or.inl h
  | (k', i') :: r, x, h => by
    simp only [insertDesc] at h
    split at h
    · rcases List.mem_cons.1 h with h | h
      · exact Or.inl h
      · exact Or.inr h
    · rcases List.mem_cons.1 h with h | h
      · exact Or.inr (by rw [h]; exact List.mem_cons_self)
      · rcases mem_insertDesc k i r x h with h | h
        · exact Or.inl h
        · exact Or.inr (List.mem_cons_of_mem _ h)

theorem sorted_insertDesc (k i : Nat) : ∀ (l : List (Nat × Nat)), SortedD l → SortedD (insertDesc k i l)
  | [], _ => by simp [insertDesc, SortedD]
  | (k', i') :: r, h => by
    unfold SortedD at h ⊢
    simp only [insertDesc]
    have h' := List.pairwise_cons.1 h
    split
    · rename_i hk
      refine List.pairwise_cons.2 ⟨?_, h⟩
      intro x hx
      rcases List.mem_cons.1 hx with hx | hx
      · rw [hx]; exact Nat.le_of_lt hk
      · have := h'.1 x hx
        simp only [ge_iff_le] at this ⊢
        omega
    · rename_i hk
      refine List.pairwise_cons.2 ⟨?_, sorted_insertDesc k i r h'.2⟩
      intro x hx
      rcases mem_insertDesc k i r x hx with hx | hx
      · rw [hx]; simp only [ge_iff_le]; omega
      · exact h'.1 x hx

/-- the first element with property `P` (of the index) after an insertion -/
theorem find_insertDesc (P : Nat → Bool) (k i : Nat) : ∀ (l : List (Nat × Nat)), SortedD l →
    (insertDesc k i l).find? (fun p => P p.2) =
      if P i then
        (match l.find? (fun p => P p.2) with
         | none => some (k, i)
         | some (k', i') => if k > k' then some (k, i) else some (k', i'))
      else l.find? (fun p => P p.2)
  | [], _ => by
    simp only [insertDesc, List.find?_cons, List.find?_nil]
    cases P i <;> rfl
  | (k1, i1) :: r, h => by
    have h' := List.pairwise_cons.1 h
    simp only [insertDesc]
    by_cases hk : k > k1
    · rw [if_pos hk]
      cases hP : P i with
      | false => simp only [List.find?_cons, hP]; rfl
      | true =>
        simp only [List.find?_cons, hP, if_true]
        cases hP1 : P i1 with
        | true => simp only [if_pos hk]
        | false =>
          simp only
          cases hf : r.find? (fun p => P p.2) with
          | none => rfl
          | some q =>
            obtain ⟨k', i'⟩ := q
            have hm := List.mem_of_find?_eq_some hf
            have := h'.1 _ hm
            simp only [ge_iff_le] at this
            have hk' : k > k' := by omega
            simp only [if_pos hk']
    · rw [if_neg hk]
      simp only [List.find?_cons]
      cases hP1 : P i1 with
      | true =>
        simp only
        cases hP : P i with
        | false => rfl
        | true => simp only [if_true, if_neg hk]
      | false =>
        simp only
        exact find_insertDesc P k i r h'.2

/-- the last element after an insertion -/
theorem getLast_insertDesc (k i : Nat) : ∀ (l : List (Nat × Nat)), SortedD l →
    (insertDesc k i l).getLast? =
      (match l.getLast? with
       | none => some (k, i)
       | some (k', i') => if k > k' then some (k', i') else some (k, i))
  | [], _ => by simp [insertDesc]
  | (k1, i1) :: r, h => by
    have h' := List.pairwise_cons.1 h
    simp only [insertDesc]
    by_cases hk : k > k1
    · rw [if_pos hk]
      rw [List.getLast?_cons_cons]
      cases hl : ((k1, i1) :: r).getLast? with
      | none => simp at hl
      | some q =>
        obtain ⟨k', i'⟩ := q
        have hm := List.mem_of_getLast? hl
        have hk' : k > k' := by
          rcases List.mem_cons.1 hm with hm | hm
          · cases hm; exact hk
          · have := h'.1 _ hm
            simp only [ge_iff_le] at this
            omega
        simp only [if_pos hk']
    · rw [if_neg hk]
      have ih := getLast_insertDesc k i r h'.2
      cases r with
      | nil =>
        simp only [insertDesc, List.getLast?_cons_cons, List.getLast?_singleton, if_neg hk]
      | cons b r' =>
        have hne : ∃ c l', insertDesc k i (b :: r') = c :: l' := by
          obtain ⟨kb, ib⟩ := b
          simp only [insertDesc]
          split <;> exact ⟨_, _, rfl⟩
        obtain ⟨c, l', hc⟩ := hne
        rw [hc, List.getLast?_cons_cons, ← hc, ih, List.getLast?_cons_cons]

/-! ### the order built by inserting the members one after the other -/

/-- insert the members `ks` (the first of which has index `i`) into `acc` -/
def foldKeys : List (Nat × Bool) → Nat → List (Nat × Nat) → List (Nat × Nat)
  | [], _, acc => acc
  | (s, _) :: r, i, acc => foldKeys r (i + 1) (insertDesc s i acc)

/-- member `i` is an anonymous structure -/
def anonK (K : List (Nat × Bool)) (i : Nat) : Bool :=
  match K[i]? with
  | some (_, a) => a
  | none => false

theorem drop_cons_inv {α : Type} (K : List α) (c : Nat) (x : α) (r : List α) (h : K.drop c = x :: r) :
    K[c]? = some x ∧ K.drop (c + 1) = r := by
  constructor
  · have := congrArg (fun l => l[0]?) h
    simpa using this
  · have := congrArg (fun l => l.drop 1) h
    simpa using this

theorem sorted_foldKeys : ∀ (ks : List (Nat × Bool)) (c : Nat) (acc : List (Nat × Nat)), SortedD acc →
    SortedD (foldKeys ks c acc)
  | [], _, _, h => h
  | (s, _) :: r, c, acc, h => sorted_foldKeys r (c + 1) _ (sorted_insertDesc s c acc h)

theorem find_foldKeys (K : List (Nat × Bool)) : ∀ (ks : List (Nat × Bool)) (c : Nat) (acc : List (Nat × Nat)),
    K.drop c = ks → SortedD acc →
    (foldKeys ks c acc).find? (fun p => !anonK K p.2) =
      firstLargestRegular ks c (acc.find? (fun p => !anonK K p.2))
  | [], _, _, _, _ => rfl
  | (s, a) :: r, c, acc, hK, hs => by
    obtain ⟨hc, hK'⟩ := drop_cons_inv K c _ _ hK
    have ha : anonK K c = a := by simp only [anonK, hc]
    simp only [foldKeys]
    rw [find_foldKeys K r (c + 1) _ hK' (sorted_insertDesc s c acc hs),
      find_insertDesc (fun i => !anonK K i) s c acc hs]
    simp only [ha]
    cases a with
    | true => simp only [firstLargestRegular]; rfl
    | false =>
      simp only [firstLargestRegular, Bool.not_false, if_true]
      cases acc.find? (fun p => !anonK K p.2) with
      | none => rfl
      | some q =>
        obtain ⟨k', i'⟩ := q
        simp only
        split <;> simp_all

theorem getLast_foldKeys : ∀ (ks : List (Nat × Bool)) (c : Nat) (acc : List (Nat × Nat)), SortedD acc →
    (foldKeys ks c acc).getLast? = lastSmallest ks c acc.getLast?
  | [], _, _, _ => rfl
  | (s, a) :: r, c, acc, hs => by
    simp only [foldKeys]
    rw [getLast_foldKeys r (c + 1) _ (sorted_insertDesc s c acc hs), getLast_insertDesc s c acc hs]
    cases acc.getLast? with
    | none => simp only [lastSmallest]
    | some q =>
      obtain ⟨k', i'⟩ := q
      simp only [lastSmallest]
      split <;> simp_all

/-- `for i in range(len(items))` over `items[i]` is a left-to-right scan of `items` -/
def foldIdx {α β : Type} (g : α → Nat → β → β) : List α → Nat → β → β
  | [], _, acc => acc
  | x :: r, c, acc => foldIdx g r (c + 1) (g x c acc)

theorem range_foldl_eq {α β : Type} (g : α → Nat → β → β) : ∀ (items : List α) (c : Nat) (acc : β),
    (List.range items.length).foldl (fun acc i => match items[i]? with | some x => g x (i + c) acc | none => acc) acc =
      foldIdx g items c acc
  | [], _, _ => rfl
  | x :: r, c, acc => by
    rw [List.length_cons, List.range_succ_eq_map, List.foldl_cons, List.foldl_map]
    simp only [List.getElem?_cons_zero, List.getElem?_cons_succ, Nat.zero_add, foldIdx]
    have := range_foldl_eq g r (c + 1) (g x c acc)
    rw [← this]
    congr 1
    funext acc i
    have e : i.succ + c = i + (c + 1) := by omega
    rw [e]

end Cstruct.C11.DumpLemmas
