/-
  Helper lemmas for `Proofs/CoreBits.lean`, part 2: the invariant of the packed round trip with bit-fields
  (statements `TyStmt`, `IdleStmt`, `PendStmt`; layout/reader idleness `LIdle`, `RIdle`; pending unit `Pend`) and the
  central step `bit_step`: one bit-field = one `put`, possibly a flush, the remaining members, and the matching `take`.
-/
import Proofs.Lemmas.CoreBitsUnfold
namespace Cstruct.Core.Lemmas
open Cstruct Cstruct.Core Cstruct.C06 Cstruct.C06.Lemmas
open Cstruct.C05.Lemmas (encBytes encBytes_length)
set_option linter.unusedSimpArgs false

/-! ### The invariant of the packed round trip with bit-fields -/

/-- between units, as far as the layout is concerned: the next bit-field (if the next member is one) opens a new unit -/
def LIdle (st : LState) : Fields → Prop
  | .cons _ _ ty (some (_ + 1)) _ => st.bitsRemaining = 0 ∨ ty.bitBase ≠ st.bitsType
  | _ => True

/-- between units, as far as the reader is concerned: the next bit-field (if the next member is one) loads a new unit -/
def RIdle (bbR : BitBuf) : Fields → Prop
  | .cons _ _ ty (some (_ + 1)) _ => bbR.remaining = 0 ∨ bbR.ty ≠ ty.bitBase
  | _ => True

theorem lidle_of_rem (st : LState) (h : st.bitsRemaining = 0) : ∀ fs, LIdle st fs
  | .nil => trivial
  | .cons _ _ _ none _ => trivial
  | .cons _ _ _ (some 0) _ => trivial
  | .cons _ _ _ (some (_ + 1)) _ => Or.inl h

theorem ridle_of_rem (bb : BitBuf) (h : bb.remaining = 0) : ∀ fs, RIdle bb fs
  | .nil => trivial
  | .cons _ _ _ none _ => trivial
  | .cons _ _ _ (some 0) _ => trivial
  | .cons _ _ _ (some (_ + 1)) _ => Or.inl h

/-- round trip of one value of a type, given that writing succeeded; the size fact feeds the layout invariant -/
def TyStmt (cfg : Cfg) (ty : Ty) : Prop :=
  ty.fragSB cfg = true → ty.uniformAlign false = true → ∀ v, HasTyB cfg v ty → ∀ pos bs, write cfg ty v pos = .ok bs →
    (∀ k, ty.size cfg = some k → bs.length = k) ∧
    ∀ (pre post : Bytes) (ctx : Ctx), pre.length = pos →
      read cfg ty ctx (pre ++ bs ++ post) pos = .ok (v, pos + bs.length)

/-- the member loop from a state without a pending unit: writer position = reader position = layout offset -/
def IdleStmt (cfg : Cfg) (fs : Fields) : Prop :=
  Fields.fragSB cfg fs = true → Fields.uniformAlign false fs = true → ∀ vs, HasTysB cfg vs fs →
  ∀ st sz sa offs, Fields.layout cfg false fs st = .ok (sz, sa, offs) → LIdle st fs →
  ∀ start pos out bbF, writeFields cfg false fs offs vs start BitBuf.empty pos = .ok (out, bbF) →
    (∀ o, st.offset = some o → pos = start + o) →
    ∃ fl, flushBits cfg bbF = .ok fl ∧ (∀ o, sz = some o → pos + (out ++ fl).length = start + o) ∧
      ∀ (pre post : Bytes) (ctx : Ctx) (bbR : BitBuf), pre.length = pos → RIdle bbR fs →
        ∃ szs, readFields cfg false fs offs start bbR ctx (pre ++ (out ++ fl) ++ post) pos =
          .ok (vs, szs, pos + (out ++ fl).length)

/-- the state with a pending unit of storage type `ft` (`fsz` bytes) of which `k` bits are used and hold `n`:
    the layout has allocated the unit (its offset is behind it), the writer has emitted nothing for it yet -/
structure Pend (cfg : Cfg) (st : LState) (ft : Scalar) (fsz k n : Nat) (bbW : BitBuf) : Prop where
  isInt : Scalar.isInt ft = true
  size : ft.size = some fsz
  lty : st.bitsType = some ft
  lrem : st.bitsRemaining = ((8 * fsz - k : Nat) : Int)
  lt : k < 8 * fsz
  loff : st.offset = st.bitsFieldOffset.map (· + fsz)
  wty : bbW.ty = some ft
  winv : WriteInv cfg.endian (8 * fsz) k n bbW
  nlt : n < 2 ^ k

/-- the member loop from a state with a pending unit. The bytes written from here on (final flush included) start with
    the unit, whose value `F` extends the bits accumulated so far; a reader that has loaded that unit (reader position =
    writer position + unit size) and handed out the same `k` bits returns the values. -/
def PendStmt (cfg : Cfg) (fs : Fields) : Prop :=
  Fields.fragSB cfg fs = true → Fields.uniformAlign false fs = true → ∀ vs, HasTysB cfg vs fs →
  ∀ st sz sa offs, Fields.layout cfg false fs st = .ok (sz, sa, offs) →
  ∀ ft fsz k n bbW, Pend cfg st ft fsz k n bbW →
  ∀ start pos out bbF, writeFields cfg false fs offs vs start bbW pos = .ok (out, bbF) →
    (∀ o, st.offset = some o → pos + fsz = start + o) →
    ∃ fl F tail, flushBits cfg bbF = .ok fl ∧ out ++ fl = encBytes cfg.endian fsz F ++ tail ∧ F < 2 ^ (8 * fsz) ∧
      URel cfg.endian (8 * fsz) k n F ∧ (∀ o, sz = some o → pos + (out ++ fl).length = start + o) ∧
      ∀ (pre post : Bytes) (ctx : Ctx) (bbR : BitBuf) (U : Int), pre.length = pos → bbR.ty = some ft →
        ReadInv cfg.endian (8 * fsz) U k bbR → U % ((2 ^ (8 * fsz) : Nat) : Int) = (F : Int) →
        ∃ szs, readFields cfg false fs offs start bbR ctx (pre ++ (out ++ fl) ++ post) (pos + fsz) =
          .ok (vs, szs, pos + (out ++ fl).length)

theorem put_ty {e : Endian} {bb bb' : BitBuf} {size : Nat} {i : Int} {w : Nat} (h : bb.put e size i w = some bb') :
    bb'.ty = bb.ty := by
  unfold BitBuf.put at h
  split at h
  · cases h
  · split at h
    · cases h
    · cases h; rfl

theorem take_ty {e : Endian} {bb bb' : BitBuf} {v : Int} {w : Nat} (h : bb.take e w = some (v, bb')) :
    bb'.ty = bb.ty := by
  unfold BitBuf.take at h
  split at h
  · cases h
  · cases e <;> (simp only [Option.some.injEq, Prod.mk.injEq] at h; rw [← h.2])

/-! ### One bit-field: put, (flush,) the remaining members, and the matching take -/

theorem bit_step (cfg : Cfg) (rest : Fields) (IHi : IdleStmt cfg rest) (IHp : PendStmt cfg rest)
    (hS : Fields.fragSB cfg rest = true) (hU : Fields.uniformAlign false rest = true) (vs' : Vals)
    (hvs : HasTysB cfg vs' rest) (st1 : LState) (sz sa offs') (hlay : Fields.layout cfg false rest st1 = .ok (sz, sa, offs'))
    (ft : Scalar) (fsz k n w : Nat) (bb2 : BitBuf) (hi : Scalar.isInt ft = true) (hsz : ft.size = some fsz)
    (hbt : st1.bitsType = some ft) (hbr : st1.bitsRemaining = ((8 * fsz - (k + w) : Nat) : Int)) (hkw : k + w ≤ 8 * fsz)
    (hoff : st1.offset = st1.bitsFieldOffset.map (· + fsz)) (hty : bb2.ty = some ft)
    (hinv : WriteInv cfg.endian (8 * fsz) k n bb2) (hn : n < 2 ^ k) (i : Int) (hi0 : 0 ≤ i) (hi1 : i < 2 ^ w)
    (start pos : Nat) (out : Bytes) (bbF : BitBuf)
    (hw : putStep cfg rest offs' vs' start fsz i w bb2 pos = .ok (out, bbF))
    (hpos : ∀ o, st1.offset = some o → pos + fsz = start + o) :
    ∃ fl F tail, flushBits cfg bbF = .ok fl ∧ out ++ fl = encBytes cfg.endian fsz F ++ tail ∧ F < 2 ^ (8 * fsz) ∧
      URel cfg.endian (8 * fsz) k n F ∧ (∀ o, sz = some o → pos + (out ++ fl).length = start + o) ∧
      ∀ (pre post : Bytes) (bbR : BitBuf) (U : Int), pre.length = pos → bbR.ty = some ft →
        ReadInv cfg.endian (8 * fsz) U k bbR → U % ((2 ^ (8 * fsz) : Nat) : Int) = (F : Int) →
        ∃ bbR2, bbR.take cfg.endian w = some (i, bbR2) ∧ ∀ ctx : Ctx,
          ∃ szs, readFields cfg false rest offs' start bbR2 ctx (pre ++ (out ++ fl) ++ post) (pos + fsz) =
            .ok (vs', szs, pos + (out ++ fl).length) := by
  obtain ⟨m, rfl⟩ := Int.eq_ofNat_of_zero_le hi0
  have hm : m < 2 ^ w := by exact_mod_cast hi1
  obtain ⟨bb3, hput, hinv3⟩ := put_step cfg.endian fsz k n w m bb2 hinv hn hm hkw
  have hn3 := acc_lt cfg.endian k n m w hn hm
  have hty3 : bb3.ty = some ft := by rw [put_ty hput, hty]
  simp only [putStep, hput] at hw
  -- the reader's step, once the final unit value is known
  have rd : ∀ (F : Nat), URel cfg.endian (8 * fsz) (k + w) (acc cfg.endian k n m w) F →
      URel cfg.endian (8 * fsz) k n F ∧
      ∀ (bbR : BitBuf) (U : Int), ReadInv cfg.endian (8 * fsz) U k bbR → U % ((2 ^ (8 * fsz) : Nat) : Int) = (F : Int) →
        ∃ bbR2, bbR.take cfg.endian w = some ((m : Int), bbR2) ∧ ReadInv cfg.endian (8 * fsz) U (k + w) bbR2 ∧
          bbR2.ty = bbR.ty := by
    intro F hrel
    obtain ⟨h1, h2⟩ := urel_step cfg.endian (8 * fsz) k n m w F hn hm hkw hrel
    refine ⟨h1, ?_⟩
    intro bbR U hR hUF
    obtain ⟨bbR2, ht, hR2, _, _⟩ := take_step cfg.endian (8 * fsz) k w U bbR hR hkw
    have hlo : slotLo cfg.endian (8 * fsz) k w + w ≤ 8 * fsz := by
      cases cfg.endian <;> simp only [slotLo] <;> omega
    rw [← slotVal_emod U (8 * fsz) _ w hlo, hUF, h2] at ht
    exact ⟨bbR2, ht, hR2, take_ty ht⟩
  by_cases hex : k + w = 8 * fsz
  · -- the unit is exhausted: it is flushed now
    have hrem3 : bb3.remaining = 0 := by rw [hinv3.1]; omega
    simp only [hrem3, if_true] at hw
    obtain ⟨F, hfl3, hF, hrel⟩ := flush_pend cfg ft fsz (k + w) _ bb3 hty3 hsz hinv3 hn3 (by omega)
    rw [hfl3] at hw
    simp only [Except.bind] at hw
    obtain ⟨⟨o, bbF'⟩, hwr, hout⟩ := bind_ok hw
    simp only [Except.ok.injEq, Prod.mk.injEq] at hout
    obtain ⟨rfl, rfl⟩ := hout
    have hl3 : (encBytes cfg.endian fsz F).length = fsz := encBytes_length _ _ _
    obtain ⟨fl, hfl, hsize, hread⟩ := IHi hS hU vs' hvs st1 sz sa offs' hlay
      (lidle_of_rem st1 (by rw [hbr]; omega) rest) start _ o bbF' hwr (by intro o' ho'; rw [hl3]; exact hpos o' ho')
    obtain ⟨hrel0, hrd⟩ := rd F hrel
    refine ⟨fl, F, o ++ fl, hfl, by simp only [List.append_assoc], hF, hrel0, ?_, ?_⟩
    · intro o' ho'
      have := hsize o' ho'
      simp only [List.length_append, hl3] at this ⊢; omega
    · intro pre post bbR U hp hRty hR hUF
      obtain ⟨bbR2, ht, hR2, _⟩ := hrd bbR U hR hUF
      refine ⟨bbR2, ht, ?_⟩
      intro ctx
      have hri : RIdle bbR2 rest := ridle_of_rem bbR2 (by rw [hR2.2.1]; omega) rest
      obtain ⟨szs, hr⟩ := hread (pre ++ encBytes cfg.endian fsz F) post ctx bbR2
        (by rw [List.length_append, hp, hl3]) hri
      refine ⟨szs, ?_⟩
      have e1 : pre ++ (encBytes cfg.endian fsz F ++ o ++ fl) ++ post =
          pre ++ encBytes cfg.endian fsz F ++ (o ++ fl) ++ post := by simp only [List.append_assoc]
      rw [hl3] at hr
      rw [e1, hr]
      simp only [List.length_append, hl3]
      congr 3; omega
  · -- the unit stays pending
    have hrem3 : bb3.remaining ≠ 0 := by rw [hinv3.1]; omega
    simp only [hrem3, if_false, Except.bind, List.length_nil, Nat.add_zero, List.nil_append] at hw
    obtain ⟨⟨o, bbF'⟩, hwr, hout⟩ := bind_ok hw
    simp only [Except.ok.injEq, Prod.mk.injEq] at hout
    obtain ⟨rfl, rfl⟩ := hout
    have hP : Pend cfg st1 ft fsz (k + w) (acc cfg.endian k n m w) bb3 :=
      ⟨hi, hsz, hbt, hbr, by omega, hoff, hty3, hinv3, hn3⟩
    obtain ⟨fl, F, tail, hfl, hdata, hF, hrel, hsize, hread⟩ := IHp hS hU vs' hvs st1 sz sa offs' hlay ft fsz _ _ bb3 hP
      start pos o bbF' hwr hpos
    obtain ⟨hrel0, hrd⟩ := rd F hrel
    refine ⟨fl, F, tail, hfl, hdata, hF, hrel0, hsize, ?_⟩
    intro pre post bbR U hp hRty hR hUF
    obtain ⟨bbR2, ht, hR2, hty2⟩ := hrd bbR U hR hUF
    refine ⟨bbR2, ht, ?_⟩
    intro ctx
    exact hread pre post ctx bbR2 U hp (by rw [hty2, hRty]) hR2 hUF

end Cstruct.Core.Lemmas
