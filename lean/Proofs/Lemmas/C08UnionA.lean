/-
  Helper lemmas for `Proofs/C08Union.lean`, part 1: rigid types (`Proofs/Spec/C08Union.lean`).
  A successful read of a rigid type of size `k` from `pos` ends at `pos + k` and, unless `k = 0`, inside the input; a failing
  read fails with `EOFError`. A covered union cannot be read from a buffer shorter than its size.
-/
import Proofs.Spec.C08Union
import Proofs.Lemmas.Core
namespace Cstruct.C08.Lemmas
open Cstruct Cstruct.Core Cstruct.Core.Lemmas

/-- result of a rigid read of `k` bytes at `pos` in an input of `len` bytes -/
def RigR {α : Type} (k pos len : Nat) : Except Err (α × Nat) → Prop
  | .ok (_, p) => p = pos + k ∧ (k = 0 ∨ p ≤ len)
  | .error e => e = .eof

/-- the same for the member loop of a packed structure: from offset `o` to offset `e` relative to `start` -/
def RigF (e o start len : Nat) : Except Err (Vals × List (String × Nat) × Nat) → Prop
  | .ok (_, _, p) => p = start + e ∧ (e = o ∨ p ≤ len)
  | .error er => er = .eof

theorem readExact_rig (d : Bytes) (pos n : Nat) : RigR n pos d.length (readExact d pos n) := by
  unfold readExact
  simp only []
  split
  · exact rfl
  · rename_i h
    simp only [ne_eq, Decidable.not_not, sread, List.length_take, List.length_drop] at h
    exact ⟨rfl, by omega⟩

theorem rigR_bind {α β : Type} {k pos len : Nat} {x : Except Err (α × Nat)} (h : RigR k pos len x) (g : α → β) :
    RigR k pos len (x.bind fun ab => .ok (g ab.1, ab.2)) := by
  cases x with
  | error e => exact h
  | ok r => obtain ⟨a, p⟩ := r; exact h

theorem rigR_map {α β : Type} {k pos len : Nat} {x : Except Err (α × Nat)} (h : RigR k pos len x) (g : α → β) :
    RigR k pos len (x.map fun ab => (g ab.1, ab.2)) := by
  cases x with
  | error e => exact h
  | ok r => obtain ⟨a, p⟩ := r; exact h

/-- rigid scalars -/
def scRigid : Scalar → Bool
  | .pint _ _ => true | .aint _ _ => true | .pflt _ => true | .char => true | .void => true | _ => false

theorem scRigid_of_isInt {s : Scalar} (h : Scalar.isInt s = true) : scRigid s = true := by
  cases s <;> simp [Scalar.isInt] at h <;> rfl

theorem readScalar_rig (cfg : Cfg) (s : Scalar) (hs : scRigid s = true) (d : Bytes) (pos : Nat) :
    ∃ k, s.size = some k ∧ RigR k pos d.length (readScalar cfg s d pos) := by
  cases s with
  | pint n sg =>
    exact ⟨n, rfl, rigR_bind (readExact_rig d pos n) fun bs => Val.int (decodeInt cfg.endian sg bs)⟩
  | pflt n =>
    exact ⟨n, rfl, rigR_bind (readExact_rig d pos n) fun bs => Val.flt (decodeNat cfg.endian bs)⟩
  | aint n sg =>
    exact ⟨n, rfl, rigR_bind (readExact_rig d pos n) fun bs => Val.int (decodeInt cfg.endian sg bs)⟩
  | char =>
    exact ⟨1, rfl, rigR_bind (readExact_rig d pos 1) fun bs => Val.bytes bs⟩
  | void => exact ⟨0, rfl, rfl, Or.inl rfl⟩
  | wchar => cases hs
  | leb sg => cases hs

theorem readScalar_isInt (cfg : Cfg) (s : Scalar) (hi : Scalar.isInt s = true) (d : Bytes) (pos : Nat) (v : Val) (p : Nat)
    (h : readScalar cfg s d pos = .ok (v, p)) : ∃ i, v = .int i := by
  cases s <;> simp [Scalar.isInt] at hi <;>
  · simp only [readScalar, bind, pure] at h
    obtain ⟨⟨bs, q⟩, _, h2⟩ := bind_ok h
    cases h2
    exact ⟨_, rfl⟩

theorem wrapInt_rig {k pos len : Nat} {x : Except Err (Val × Nat)} (f : Int → Val) (h : RigR k pos len x)
    (hi : ∀ v p, x = .ok (v, p) → ∃ i, v = .int i) : RigR k pos len (wrapInt f x) := by
  cases x with
  | error e => exact h
  | ok r =>
    obtain ⟨v, p⟩ := r
    obtain ⟨i, rfl⟩ := hi v p rfl
    exact h

/-- what the induction knows about an element type of size `k` -/
def ElemRig (cfg : Cfg) (e : Ty) (k : Nat) : Prop :=
  ∀ (ctx : Ctx) (d : Bytes) (pos : Nat), RigR k pos d.length (read cfg e ctx d pos)

theorem rig_sc (cfg : Cfg) (s : Scalar) (a : Nat) (hs : scRigid s = true) : ∃ k, (Ty.sc s a).size cfg = some k ∧ ElemRig cfg (.sc s a) k := by
  obtain ⟨k, hk, _⟩ := readScalar_rig cfg s hs [] 0
  refine ⟨k, by simp only [Ty.size]; exact hk, ?_⟩
  intro ctx d pos
  rw [read_sc]
  obtain ⟨k', hk', h⟩ := readScalar_rig cfg s hs d pos
  rw [hk] at hk'; cases hk'
  exact h

theorem readN_rig (cfg : Cfg) (e : Ty) (k : Nat) (hE : ElemRig cfg e k) :
    ∀ (n : Nat) (ctx : Ctx) (d : Bytes) (pos : Nat), RigR (n * k) pos d.length (readN cfg e n ctx d pos) := by
  intro n
  induction n with
  | zero =>
    intro ctx d pos
    rw [readN_zero]
    exact ⟨by simp, Or.inl (by simp)⟩
  | succ n ih =>
    intro ctx d pos
    rw [readN_succ]
    have h1 := hE ctx d pos
    cases hx : read cfg e ctx d pos with
    | error er => rw [hx] at h1; exact h1
    | ok r =>
      obtain ⟨v, p1⟩ := r
      rw [hx] at h1
      have h2 := ih ctx d p1
      simp only [Except.bind]
      cases hy : readN cfg e n ctx d p1 with
      | error er => rw [hy] at h2; exact h2
      | ok r2 =>
        obtain ⟨vs, p'⟩ := r2
        rw [hy] at h2
        obtain ⟨a1, a2⟩ := h1
        obtain ⟨b1, b2⟩ := h2
        show p' = pos + (n + 1) * k ∧ ((n + 1) * k = 0 ∨ p' ≤ d.length)
        rw [Nat.succ_mul]
        generalize n * k = m at *
        omega

theorem readN_map_rig (cfg : Cfg) (e : Ty) (k : Nat) (hE : ElemRig cfg e k) (n : Nat) (ctx : Ctx) (d : Bytes) (pos : Nat) :
    RigR (n * k) pos d.length ((readN cfg e n ctx d pos).map fun (x : Vals × Nat) => (Val.list x.1, x.2)) :=
  rigR_map (readN_rig cfg e k hE n ctx d pos) Val.list

theorem readArray_rig (cfg : Cfg) (e : Ty) (he : e.rigid cfg = true) (k : Nat) (hk : e.size cfg = some k) (hE : ElemRig cfg e k)
    (n : Nat) (ctx : Ctx) (d : Bytes) (pos : Nat) : RigR (n * k) pos d.length (readArray cfg e n ctx d pos) := by
  cases e with
  | sc s a =>
    rw [readArray.eq_1]
    simp only [Ty.size] at hk
    cases s with
    | pint sz sg =>
      cases hk
      simp only [readScalarArray]
      rw [Nat.mul_comm n k]
      exact rigR_bind (readExact_rig d pos (k * n)) fun bs =>
        Val.list (Vals.ofInts ((splitEvery k n bs).map (decodeInt cfg.endian sg)))
    | pflt sz =>
      cases hk
      simp only [readScalarArray]
      rw [Nat.mul_comm n k]
      exact rigR_bind (readExact_rig d pos (k * n)) fun bs =>
        Val.list (Vals.ofList ((splitEvery k n bs).map fun b => Val.flt (decodeNat cfg.endian b)))
    | char =>
      cases hk
      simp only [readScalarArray]
      by_cases h0 : n = 0
      · subst h0; exact ⟨rfl, Or.inl rfl⟩
      · rw [if_neg h0, Nat.mul_one]
        exact rigR_bind (readExact_rig d pos n) fun bs => Val.bytes bs
    | aint sz sg => simp only [readScalarArray]; exact readN_map_rig cfg _ k hE n ctx d pos
    | void => simp only [readScalarArray]; exact readN_map_rig cfg _ k hE n ctx d pos
    | wchar => simp [Ty.rigid] at he
    | leb sg => simp [Ty.rigid] at he
  | enum b a f =>
    rw [readArray.eq_2]
    simp only [Ty.rigid] at he
    simp only [Ty.size] at hk
    have hEb : ElemRig cfg (.sc b a) k := by
      obtain ⟨k', hk', h⟩ := rig_sc cfg b a (scRigid_of_isInt he)
      simp only [Ty.size] at hk'
      rw [hk] at hk'; cases hk'
      exact h
    cases b with
    | pint sz sg =>
      cases hk
      simp only [readScalarArray]
      have h := readExact_rig d pos (k * n)
      rw [Nat.mul_comm n k]
      cases hx : readExact d pos (k * n) with
      | error er => rw [hx] at h; exact h
      | ok r => obtain ⟨bs, p⟩ := r; rw [hx] at h; exact h
    | aint sz sg =>
      simp only [readScalarArray]
      have h := readN_rig cfg _ k hEb n ctx d pos
      cases hx : readN cfg (.sc (.aint sz sg) a) n ctx d pos with
      | error er => rw [hx] at h; exact h
      | ok r => obtain ⟨vs, p⟩ := r; rw [hx] at h; exact h
    | pflt _ => simp [Scalar.isInt] at he
    | char => simp [Scalar.isInt] at he
    | wchar => simp [Scalar.isInt] at he
    | leb _ => simp [Scalar.isInt] at he
    | void => simp [Scalar.isInt] at he
  | ptr ty =>
    rw [readArray.eq_3 _ _ _ _ _ _ (by intros; contradiction) (by intros; contradiction)]
    exact readN_map_rig cfg _ k hE n ctx d pos
  | arr e' len =>
    rw [readArray.eq_3 _ _ _ _ _ _ (by intros; contradiction) (by intros; contradiction)]
    exact readN_map_rig cfg _ k hE n ctx d pos
  | struct al fs =>
    rw [readArray.eq_3 _ _ _ _ _ _ (by intros; contradiction) (by intros; contradiction)]
    exact readN_map_rig cfg _ k hE n ctx d pos
  | union al fs =>
    rw [readArray.eq_3 _ _ _ _ _ _ (by intros; contradiction) (by intros; contradiction)]
    exact readN_map_rig cfg _ k hE n ctx d pos

/-! ### Unfolding the union reader -/

theorem read_union (cfg : Cfg) (al fs ctx data pos) :
    read cfg (.union al fs) ctx data pos =
      match (Ty.union al fs).size cfg with
      | none => .error .notImpl
      | some sz =>
        (readMembers cfg fs [] (sread data pos sz)).bind fun vs =>
          .ok (.union (sread data pos sz) vs, pos + sz) := by
  rw [read]
  cases (Ty.union al fs).size cfg with
  | none => rfl
  | some sz =>
    simp only []
    cases readMembers cfg fs [] (sread data pos sz) <;> rfl

theorem readMembers_nil (cfg : Cfg) (ctx buf) : readMembers cfg .nil ctx buf = .ok .nil := by
  rw [readMembers]

theorem readMembers_cons (cfg : Cfg) (name an ty bits rest ctx buf) :
    readMembers cfg (.cons name an ty bits rest) ctx buf =
      (read cfg ty ctx buf 0).bind fun (v, _) =>
        (readMembers cfg rest (ctx.set name v) buf).bind fun vs => .ok (.cons v vs) := by
  rw [readMembers]
  cases read cfg ty ctx buf 0 with
  | error e => rfl
  | ok r =>
    obtain ⟨v, p⟩ := r
    simp only [Except.bind]
    cases readMembers cfg rest (ctx.set name v) buf <;> rfl

theorem sread_length (d : Bytes) (pos n : Nat) : (sread d pos n).length = min n (d.length - pos) := by
  simp [sread, List.length_take, List.length_drop]

/-! ### The rigid induction -/

mutual
theorem rig_ty (cfg : Cfg) : ∀ (ty : Ty), ty.rigid cfg = true → ∃ k, ty.size cfg = some k ∧ ElemRig cfg ty k
  | .sc s a, h => rig_sc cfg s a (by cases s <;> simp [Ty.rigid] at h <;> rfl)
  | .enum b a f, h => by
    simp only [Ty.rigid] at h
    obtain ⟨k, hk, _⟩ := readScalar_rig cfg b (scRigid_of_isInt h) [] 0
    refine ⟨k, by simp only [Ty.size]; exact hk, ?_⟩
    intro ctx d pos
    rw [read_enum]
    obtain ⟨k', hk', h'⟩ := readScalar_rig cfg b (scRigid_of_isInt h) d pos
    rw [hk] at hk'; cases hk'
    exact wrapInt_rig _ h' (fun v p hx => readScalar_isInt cfg b h d pos v p hx)
  | .ptr t, h => by
    simp only [Ty.rigid] at h
    obtain ⟨k, hk, _⟩ := readScalar_rig cfg cfg.ptr (scRigid_of_isInt h) [] 0
    refine ⟨k, by simp only [Ty.size]; exact hk, ?_⟩
    intro ctx d pos
    rw [read_ptr]
    obtain ⟨k', hk', h'⟩ := readScalar_rig cfg cfg.ptr (scRigid_of_isInt h) d pos
    rw [hk] at hk'; cases hk'
    exact wrapInt_rig _ h' (fun v p hx => readScalar_isInt cfg cfg.ptr h d pos v p hx)
  | .arr e len, h => by
    simp only [Ty.rigid, Bool.and_eq_true] at h
    obtain ⟨k, hk, hE⟩ := rig_ty cfg e h.2
    cases len with
    | fixed n =>
      refine ⟨n * k, by simp only [Ty.size, hk], ?_⟩
      intro ctx d pos
      rw [read_arr_fixed]
      exact readArray_rig cfg e h.2 k hk hE n ctx d pos
    | expr _ => simp at h
    | nullTerm => simp at h
    | eof => simp at h
  | .struct al fs, h => by
    simp only [Ty.rigid, Bool.and_eq_true, Bool.not_eq_true'] at h
    obtain ⟨rfl, hf⟩ := h
    obtain ⟨L, F, _⟩ := rig_fields cfg fs hf
    refine ⟨endOff cfg false fs 0, ?_, ?_⟩
    · simp only [Ty.size]
      rw [show ({ offset := some 0, alignment := 0, bitsType := none, bitsFieldOffset := some 0, bitsRemaining := 0 } : LState)
        = mkSt (some 0) 0 from rfl, L]
    · intro ctx d pos
      rw [read_struct]
      unfold structLayout
      rw [init_eq_mkSt, L]
      simp only [Except.bind]
      have h1 := F 0 pos BitBuf.empty [] d
      rw [Nat.add_zero] at h1
      cases hx : readFields cfg false fs (offsS cfg false fs 0) pos BitBuf.empty [] d pos with
      | error er => rw [hx] at h1; exact h1
      | ok r =>
        obtain ⟨vs, szs, p⟩ := r
        rw [hx] at h1
        obtain ⟨a1, a2⟩ := h1
        show (if false = true then p + padNat p _ else p) = pos + endOff cfg false fs 0 ∧ _
        simp only [Bool.false_eq_true, if_false]
        exact ⟨a1, a2⟩
  | .union al fs, h => by
    simp only [Ty.rigid, Bool.and_eq_true] at h
    obtain ⟨hf, hc⟩ := h
    cases hsz : (Ty.union al fs).size cfg with
    | none => rw [hsz] at hc; cases hc
    | some sz =>
      rw [hsz] at hc
      simp only [] at hc
      refine ⟨sz, rfl, ?_⟩
      intro ctx d pos
      rw [read_union, hsz]
      simp only []
      obtain ⟨_, _, M⟩ := rig_fields cfg fs hf
      cases hx : readMembers cfg fs [] (sread d pos sz) with
      | error er => exact M _ _ _ hx
      | ok vs =>
        have hc' := rig_cover cfg fs sz hc [] _ vs hx
        have hl := sread_length d pos sz
        show pos + sz = pos + sz ∧ (sz = 0 ∨ pos + sz ≤ d.length)
        omega
theorem rig_fields (cfg : Cfg) : ∀ (fs : Fields), Fields.rigid cfg fs = true →
    (∀ o a, Fields.layout cfg false fs (mkSt (some o) a) =
      .ok (some (endOff cfg false fs o), Fields.maxAlign cfg fs a, offsS cfg false fs o)) ∧
    (∀ o start bb ctx d, RigF (endOff cfg false fs o) o start d.length
      (readFields cfg false fs (offsS cfg false fs o) start bb ctx d (start + o))) ∧
    (∀ ctx buf e, readMembers cfg fs ctx buf = .error e → e = .eof)
  | .nil, _ => by
    refine ⟨fun o a => ?_, fun o start bb ctx d => ?_, fun ctx buf e h => ?_⟩
    · rw [layout_nil]; rfl
    · rw [readFields_nil]; exact ⟨rfl, Or.inl rfl⟩
    · rw [readMembers_nil] at h; cases h
  | .cons name an ty bits rest, h => by
    simp only [Fields.rigid, Bool.and_eq_true, Option.isNone_iff_eq_none] at h
    obtain ⟨⟨rfl, ht⟩, hr⟩ := h
    obtain ⟨k, hk, hE⟩ := rig_ty cfg ty ht
    obtain ⟨L, F, M⟩ := rig_fields cfg rest hr
    have hfo : ∀ o, alignTo false o (ty.alignment cfg) = o := fun o => by simp [alignTo]
    refine ⟨fun o a => ?_, fun o start bb ctx d => ?_, fun ctx buf e h => ?_⟩
    · rw [layout_cons cfg false name an ty rest o a k hk, L]
      simp only [Except.bind, endOff, offsS, Fields.maxAlign, hk, Option.getD_some]
    · simp only [offsS, endOff, hk, Option.getD_some, hfo]
      rw [readFields_cons_S]
      have h1 := hE ctx d (start + o)
      cases hx : read cfg ty ctx d (start + o) with
      | error er => rw [hx] at h1; exact h1
      | ok r =>
        obtain ⟨v, p1⟩ := r
        rw [hx] at h1
        obtain ⟨a1, a2⟩ := h1
        have e1 : p1 = start + (o + k) := by omega
        subst e1
        simp only [Except.bind]
        have h2 := F (o + k) start BitBuf.empty (Ctx.set ctx name v) d
        cases hy : readFields cfg false rest (offsS cfg false rest (o + k)) start BitBuf.empty (Ctx.set ctx name v) d
            (start + (o + k)) with
        | error er => rw [hy] at h2; exact h2
        | ok r2 =>
          obtain ⟨vs, szs, p'⟩ := r2
          rw [hy] at h2
          obtain ⟨b1, b2⟩ := h2
          show p' = start + endOff cfg false rest (o + k) ∧ (endOff cfg false rest (o + k) = o ∨ p' ≤ d.length)
          omega
    · rw [readMembers_cons] at h
      have h1 := hE ctx buf 0
      cases hx : read cfg ty ctx buf 0 with
      | error er =>
        rw [hx] at h1 h
        cases h
        exact h1
      | ok r =>
        obtain ⟨v, p1⟩ := r
        rw [hx] at h
        simp only [Except.bind] at h
        cases hy : readMembers cfg rest (Ctx.set ctx name v) buf with
        | error er =>
          rw [hy] at h
          cases h
          exact M _ _ _ hy
        | ok vs => rw [hy] at h; cases h
theorem rig_cover (cfg : Cfg) : ∀ (fs : Fields) (sz : Nat), Fields.covered cfg fs sz = true →
    ∀ ctx buf vs, readMembers cfg fs ctx buf = .ok vs → sz ≤ buf.length
  | .nil, _, h => by simp [Fields.covered] at h
  | .cons name an ty bits rest, sz, h => by
    intro ctx buf vs hm
    rw [readMembers_cons] at hm
    obtain ⟨⟨v, p⟩, h1, h2⟩ := bind_ok hm
    obtain ⟨vs', h3, _⟩ := bind_ok h2
    simp only [Fields.covered, Bool.or_eq_true, Bool.and_eq_true, beq_iff_eq] at h
    rcases h with ⟨ht, hs⟩ | hc
    · obtain ⟨k, hk, hE⟩ := rig_ty cfg ty ht
      rw [hs] at hk; cases hk
      have := hE ctx buf 0
      rw [h1] at this
      obtain ⟨a1, a2⟩ := this
      omega
    · exact rig_cover cfg rest sz hc _ _ _ h3
end

end Cstruct.C08.Lemmas
