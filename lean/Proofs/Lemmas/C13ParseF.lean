/-
  C13, definition parser — helper lemmas (6): the token the alternation `matchTok` produces at each kind of lexeme.
-/
import Proofs.Lemmas.C13ParseE

namespace Cstruct.DefParser.C13
open Cstruct.DefParser

theorem matchTok_typedef (ac : Bool) (c : Char) (r : List Char) (hc : isWsA c = true) :
    matchTok ac (kwTypedef ++ c :: r) = some (⟨.typedef, kwTypedef⟩, c :: r) := by
  have h1 : matchConfig (kwTypedef ++ c :: r) = none := matchConfig_ne 't' _ (by decide)
  have h2 : matchDefine isWsA (kwTypedef ++ c :: r) = none := matchDefine_ne _ 't' _ (by decide)
  have h3 : matchTypedef isWsA (kwTypedef ++ c :: r) = some (kwTypedef, c :: r) := by
    simp [matchTypedef, kwTypedef, lit, hc]
  simp only [matchTok, h1, h2, h3]

theorem matchTok_struct (ac : Bool) (u : Bool) (c : Char) (r : List Char) (hc : isWsA c = true ∨ c = '{') :
    matchTok ac ((Lexeme.struct u).text ++ c :: r) = some (⟨.struct, (Lexeme.struct u).text⟩, c :: r) := by
  have hc' : (isWsA c || c == '{') = true := by rcases hc with h | h <;> simp [h]
  cases u with
  | false =>
    have h1 : matchConfig (kwStruct ++ c :: r) = none := matchConfig_ne 's' _ (by decide)
    have h2 : matchDefine isWsA (kwStruct ++ c :: r) = none := matchDefine_ne _ 's' _ (by decide)
    have h3 : matchTypedef isWsA (kwStruct ++ c :: r) = none := matchTypedef_ne _ 's' _ (by decide)
    have h4 : matchStruct isWsA (kwStruct ++ c :: r) = some (kwStruct, c :: r) := by
      simp [matchStruct, kwStruct, lit, hc']
    simp only [Lexeme.text, Bool.false_eq_true, if_false, matchTok, h1, h2, h3, h4]
  | true =>
    have h1 : matchConfig (kwUnion ++ c :: r) = none := matchConfig_ne 'u' _ (by decide)
    have h2 : matchDefine isWsA (kwUnion ++ c :: r) = none := matchDefine_ne _ 'u' _ (by decide)
    have h3 : matchTypedef isWsA (kwUnion ++ c :: r) = none := matchTypedef_ne _ 'u' _ (by decide)
    have h4 : matchStruct isWsA (kwUnion ++ c :: r) = some (kwUnion, c :: r) := by
      simp [matchStruct, kwUnion, lit, hc']
    simp only [Lexeme.text, if_true, matchTok, h1, h2, h3, h4]

/-- a word that is followed neither by a bit width, a count nor `;` is no declarator -/
theorem matchName_word_none {sp : Char → Bool} (_hs : SpOK sp) (v Y : List Char) (hne : v ≠ []) (hv : v.all isWord = true)
    (hY : noHead isWord Y = true) (h1 : (Y.dropWhile sp).head? ≠ some ':') (h2 : (Y.dropWhile sp).head? ≠ some ';')
    (h3 : Y.head? ≠ some '[') : matchName sp (v ++ Y) = none := by
  obtain ⟨c, v', rfl⟩ := List.exists_cons_of_ne_nil hne
  have hc : isWord c = true := by simp only [List.all_cons, Bool.and_eq_true] at hv; exact hv.1
  have hpre : namePre sp ((c :: v') ++ Y) = [] := namePre_ne sp c _ (word_ne hc _ (by decide))
  have hw := tw_app isWord (c :: v') Y hv hY
  have hb := nameBits_none sp Y h1
  have ht : nameTail sp Y = none := by
    unfold nameTail
    split
    · simp_all
    · rfl
  have hcnt : nameCount sp Y = none := by
    unfold nameCount
    split
    · simp_all
    · rw [ht]
  unfold matchName
  simp only [hpre, List.length_nil, List.drop_zero, hw.1, hw.2, List.isEmpty_cons, Bool.false_eq_true, if_false, hb, hcnt]

theorem notKeyword (v : List Char) (h : isKeyword v = false) :
    v ≠ kwTypedef ∧ v ≠ kwStruct ∧ v ≠ kwUnion ∧ v ≠ kwEnum ∧ v ≠ kwFlag := by
  simp only [isKeyword, Bool.or_eq_false_iff, beq_eq_false_iff_ne] at h
  exact ⟨h.1.1.1.1, h.1.1.1.2, h.1.1.2, h.1.2, h.2⟩

/-- the recognisers in front of NAME fail at a word that is no keyword (and is not followed by a comma, behind `}`) -/
theorem before_name_word (ac : Bool) (v Y : List Char) (hne : v ≠ []) (hv : v.all isWord = true) (hk : isKeyword v = false)
    (hY : noHead isWord Y = true) (hc : (Y.dropWhile isWsA).head? ≠ some ',') :
    matchConfig (v ++ Y) = none ∧ matchDefine isWsA (v ++ Y) = none ∧ matchTypedef isWsA (v ++ Y) = none ∧
    matchStruct isWsA (v ++ Y) = none ∧ matchEnum isWsA (v ++ Y) = none ∧ matchDefs isWsA ac (v ++ Y) = none := by
  obtain ⟨k1, k2, k3, k4, k5⟩ := notKeyword v hk
  obtain ⟨c, v', rfl⟩ := List.exists_cons_of_ne_nil hne
  have hcw : isWord c = true := by simp only [List.all_cons, Bool.and_eq_true] at hv; exact hv.1
  have hh : c ≠ '#' := word_ne hcw _ (by decide)
  refine ⟨matchConfig_ne c _ hh, matchDefine_ne _ c _ hh, matchTypedef_word spOK_A _ Y hv hY k1,
    matchStruct_word spOK_A _ Y hv hY k2 k3, matchEnum_word spOK_A _ Y hv hY k4 k5, ?_⟩
  simpa using matchDefs_word_none spOK_A ac [] (c :: v') Y rfl (by simp) hv hY hc

theorem matchTok_ident (ac : Bool) (v Y : List Char) (hwf : (Lexeme.ident v).wf = true) (hY : noHead isWord Y = true)
    (h1 : (Y.dropWhile isWsA).head? ≠ some ':') (h2 : (Y.dropWhile isWsA).head? ≠ some ';')
    (h3 : (Y.dropWhile isWsA).head? ≠ some ',') (h4 : Y.head? ≠ some '[') :
    matchTok ac (v ++ Y) = some (⟨.ident, v⟩, Y) := by
  simp only [Lexeme.wf, Bool.and_eq_true, Bool.not_eq_true'] at hwf
  obtain ⟨⟨hst, hv⟩, hk⟩ := hwf
  have hne : v ≠ [] := by intro e; subst e; simp at hst
  obtain ⟨b1, b2, b3, b4, b5, b6⟩ := before_name_word ac v Y hne hv hk hY h3
  have b7 := matchName_word_none spOK_A v Y hne hv hY h1 h2 h4
  obtain ⟨c, v', rfl⟩ := List.exists_cons_of_ne_nil hne
  have hv' : v'.all isWord = true := by simp only [List.all_cons, Bool.and_eq_true] at hv; exact hv.2
  have hw := tw_app isWord v' Y hv' hY
  have b8 : matchIdent ((c :: v') ++ Y) = some (c :: v', Y) := by
    simp only [matchIdent, List.cons_append, hst, if_true, hw.1, hw.2]
  simp only [matchTok, b1, b2, b3, b4, b5, b6, b7, b8]

theorem matchTok_block (ac : Bool) (c : Char) (r : List Char) (hc : c = '{' ∨ c = '}') :
    matchTok ac (c :: r) = some (⟨.block, [c]⟩, r) := by
  have hne : c ≠ '#' ∧ c ≠ 't' ∧ c ≠ 's' ∧ c ≠ 'u' ∧ c ≠ 'e' ∧ c ≠ 'f' ∧ c ≠ '*' ∧ isWord c = false ∧ isWsA c = false ∧ isIdStart c = false := by
    rcases hc with rfl | rfl <;> decide
  obtain ⟨h1, h2, h3, h4, h5, h6, h7, h8, h9, h10⟩ := hne
  have hb : matchBlock (c :: r) = some ([c], r) := by simp [matchBlock, hc]
  simp only [matchTok, matchConfig_ne c r h1, matchDefine_ne _ c r h1, matchTypedef_ne _ c r h2, matchStruct_ne _ c r h3 h4,
    matchEnum_ne _ c r h5 h6, matchDefs_nword _ ac c r h9 h8, matchName_nword _ c r h7 h8, matchIdent_nstart c r h10, hb]

theorem matchTok_semi (ac : Bool) (r : List Char) : matchTok ac (';' :: r) = some (⟨.eol, [';']⟩, r) := by
  simp only [matchTok, matchConfig_ne ';' r (by decide), matchDefine_ne _ ';' r (by decide), matchTypedef_ne _ ';' r (by decide),
    matchStruct_ne _ ';' r (by decide) (by decide), matchEnum_ne _ ';' r (by decide) (by decide),
    matchDefs_nword isWsA ac ';' r (by decide) (by decide), matchName_nword isWsA ';' r (by decide) (by decide),
    matchIdent_nstart ';' r (by decide), matchBlock_ne ';' r (by decide) (by decide), matchLookup_ne _ ';' r (by decide)]
  rfl

theorem matchTok_config (ac : Bool) (vals rest : List Char) (hwf : (Lexeme.config vals).wf = true) :
    matchTok ac ((Lexeme.config vals).text ++ rest) = some (⟨.config, (Lexeme.config vals).text⟩, rest) := by
  simp only [matchTok, matchConfig_lexeme vals rest hwf]

/-- behind the word of a declarator: no comma -/
theorem nameRest_nocomma (bits : Option (List Char × List Char × List Char)) (cnt : Option (List Char)) (s R : List Char)
    (hbits : (match bits with | none => true | some (a, b, ds) => blank a && blank b && !ds.isEmpty && ds.all Char.isDigit) = true)
    (hb : blank s = true) : ((bitsText bits ++ countText cnt ++ s ++ ';' :: R).dropWhile isWsA).head? ≠ some ',' := by
  cases bits with
  | some t =>
    obtain ⟨a, bb, ds⟩ := t
    simp only [Bool.and_eq_true] at hbits
    have := dropWhile_app isWsA a (':' :: (bb ++ ds ++ countText cnt ++ s ++ ';' :: R)) hbits.1.1.1 (by simp [noHead]; decide)
    simp only [bitsText, List.append_assoc, List.cons_append] at this ⊢
    rw [this]; simp
  | none =>
    cases cnt with
    | some c =>
      have : isWsA '[' = false := by decide
      simp [bitsText, countText, this]
    | none =>
      have := dropWhile_app isWsA s (';' :: R) hb (by simp [noHead]; decide)
      simp only [bitsText, countText, List.nil_append]
      rw [this]; simp

theorem matchTok_name (ac : Bool) (pre w : List Char) (bits : Option (List Char × List Char × List Char)) (cnt : Option (List Char))
    (hwf : (Lexeme.name pre w bits cnt).wf = true) (s R : List Char) (hb : blank s = true) :
    matchTok ac ((Lexeme.name pre w bits cnt).text ++ s ++ ';' :: R)
      = some (⟨.name, (Lexeme.name pre w bits cnt).text ++ s⟩, ';' :: R) := by
  have hm := matchName_lexeme spOK_A pre w bits cnt hwf s R hb
  simp only [Lexeme.wf, Bool.and_eq_true, isWordStr, Bool.or_eq_true, Bool.not_eq_true', List.isEmpty_eq_false_iff] at hwf
  obtain ⟨⟨⟨⟨hpre, hkw⟩, hwne, hw⟩, hbits⟩, -⟩ := hwf
  cases pre with
  | cons p pre =>
    simp only [preOK, Bool.and_eq_true, beq_iff_eq] at hpre
    obtain ⟨rfl, -⟩ := hpre
    have e : (Lexeme.name ('*' :: pre) w bits cnt).text ++ s ++ ';' :: R
        = '*' :: (pre ++ w ++ bitsText bits ++ countText cnt ++ s ++ ';' :: R) := by simp [Lexeme.text]
    rw [e] at hm ⊢
    simp only [matchTok, matchConfig_ne '*' _ (by decide), matchDefine_ne _ '*' _ (by decide), matchTypedef_ne _ '*' _ (by decide),
      matchStruct_ne _ '*' _ (by decide) (by decide), matchEnum_ne _ '*' _ (by decide) (by decide),
      matchDefs_nword isWsA ac '*' _ (by decide) (by decide), hm]
  | nil =>
    have hk : isKeyword w = false := by rcases hkw with h | h; exact absurd rfl h; exact h
    have e : (Lexeme.name [] w bits cnt).text ++ s ++ ';' :: R = w ++ (bitsText bits ++ countText cnt ++ s ++ ';' :: R) := by
      simp [Lexeme.text]
    obtain ⟨b1, b2, b3, b4, b5, b6⟩ := before_name_word ac w _ hwne hw hk (noHead_word_nameRest bits cnt s R hbits hb)
      (nameRest_nocomma bits cnt s R hbits hb)
    rw [e] at hm ⊢
    simp only [matchTok, b1, b2, b3, b4, b5, b6, hm]

theorem matchTok_enum (ac : Bool) (fl : Bool) (ws1 nm ws2 : List Char) (ty : Option (List Char × List Char × List Char))
    (vals : List Char) (hwf : (Lexeme.enum fl ws1 nm ws2 ty vals).wf = true) (s R : List Char) (hb : blank s = true) :
    matchTok ac ((Lexeme.enum fl ws1 nm ws2 ty vals).text ++ s ++ ';' :: R)
      = some (⟨.enum, (Lexeme.enum fl ws1 nm ws2 ty vals).text ++ s⟩, ';' :: R) := by
  have hm := matchEnum_lexeme spOK_A fl ws1 nm ws2 ty vals hwf s R hb
  cases fl with
  | false =>
    have e : ∃ t, (Lexeme.enum false ws1 nm ws2 ty vals).text ++ s ++ ';' :: R = 'e' :: t := ⟨_, rfl⟩
    obtain ⟨t, e⟩ := e
    rw [e] at hm ⊢
    simp only [matchTok, matchConfig_ne 'e' _ (by decide), matchDefine_ne _ 'e' _ (by decide), matchTypedef_ne _ 'e' _ (by decide),
      matchStruct_ne _ 'e' _ (by decide) (by decide), hm]
  | true =>
    have e : ∃ t, (Lexeme.enum true ws1 nm ws2 ty vals).text ++ s ++ ';' :: R = 'f' :: t := ⟨_, rfl⟩
    obtain ⟨t, e⟩ := e
    rw [e] at hm ⊢
    simp only [matchTok, matchConfig_ne 'f' _ (by decide), matchDefine_ne _ 'f' _ (by decide), matchTypedef_ne _ 'f' _ (by decide),
      matchStruct_ne _ 'f' _ (by decide) (by decide), hm]

theorem matchTok_define (ac : Bool) (ws1 nm ws2 val : List Char) (hwf : (Lexeme.define ws1 nm ws2 val).wf = true)
    (s rest : List Char) (hb : blank s = true) (hend : lineEnd s rest = true) (hrest : noHead isWsA rest = true) :
    matchTok ac ((Lexeme.define ws1 nm ws2 val).text ++ s ++ rest)
      = some (⟨.define, (Lexeme.define ws1 nm ws2 val).text ++ s⟩, rest) := by
  have hm := matchDefine_lexeme spOK_A ws1 nm ws2 val hwf s rest hb hend hrest
  have e : ∃ t, (Lexeme.define ws1 nm ws2 val).text ++ s ++ rest = '#' :: 'd' :: t := ⟨_, rfl⟩
  obtain ⟨t, e⟩ := e
  have hc : matchConfig ('#' :: 'd' :: t) = none := by
    unfold matchConfig
    split
    · rename_i heq; simp at heq
    · rfl
  rw [e] at hm ⊢
  simp only [matchTok, hc, hm]

theorem matchTok_defs (lead first : List Char) (more : List (List Char × List Char × List Char))
    (hwf : (Lexeme.defs lead first more).wf = true) (s R : List Char) (hb : blank s = true) :
    matchTok true ((Lexeme.defs lead first more).text ++ s ++ ';' :: R)
      = some (⟨.defs, (Lexeme.defs lead first more).text ++ s⟩, ';' :: R) := by
  have hm := matchDefs_lexeme spOK_A lead first more hwf s R hb
  simp only [Lexeme.wf, Bool.and_eq_true, isWordStr, Bool.not_eq_true', List.isEmpty_eq_false_iff, Bool.or_eq_true] at hwf
  obtain ⟨⟨⟨⟨hl, hfne, hf⟩, hkw⟩, -⟩, hmo⟩ := hwf
  cases lead with
  | cons d lead =>
    have hd : isWsA d = true := by simp only [blank, List.all_cons, Bool.and_eq_true] at hl; exact hl.1
    have hne : d ≠ '#' ∧ d ≠ 't' ∧ d ≠ 's' ∧ d ≠ 'u' ∧ d ≠ 'e' ∧ d ≠ 'f' := by
      rcases wsA_cases d hd with rfl | rfl | rfl | rfl | rfl | rfl <;> decide
    obtain ⟨h1, h2, h3, h4, h5, h6⟩ := hne
    have e : ∃ t, (Lexeme.defs (d :: lead) first more).text ++ s ++ ';' :: R = d :: t := ⟨_, rfl⟩
    obtain ⟨t, e⟩ := e
    rw [e] at hm ⊢
    simp only [matchTok, matchConfig_ne d _ h1, matchDefine_ne _ d _ h1, matchTypedef_ne _ d _ h2, matchStruct_ne _ d _ h3 h4,
      matchEnum_ne _ d _ h5 h6, hm]
  | nil =>
    have hk : isKeyword first = false := by rcases hkw with h | h; exact absurd rfl h; exact h
    obtain ⟨k1, k2, k3, k4, k5⟩ := notKeyword first hk
    have hY := noHead_word_more more s R hmo hb
    obtain ⟨c, f', rfl⟩ := List.exists_cons_of_ne_nil hfne
    have hcw : isWord c = true := by simp only [List.all_cons, Bool.and_eq_true] at hf; exact hf.1
    have hh : c ≠ '#' := word_ne hcw _ (by decide)
    have e : (Lexeme.defs [] (c :: f') more).text ++ s ++ ';' :: R = (c :: f') ++ (moreText more ++ s ++ ';' :: R) := by
      simp [Lexeme.text]
    rw [e] at hm ⊢
    have c1 : matchConfig ((c :: f') ++ (moreText more ++ s ++ ';' :: R)) = none := matchConfig_ne c _ hh
    have c2 : matchDefine isWsA ((c :: f') ++ (moreText more ++ s ++ ';' :: R)) = none := matchDefine_ne _ c _ hh
    simp only [matchTok, c1, c2, matchTypedef_word spOK_A _ _ hf hY k1,
      matchStruct_word spOK_A _ _ hf hY k2 k3, matchEnum_word spOK_A _ _ hf hY k4 k5, hm]

end Cstruct.DefParser.C13
