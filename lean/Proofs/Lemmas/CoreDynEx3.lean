/-
  Non-vacuity material for the aligned theorem with bit-fields of `Proofs/CoreDyn.lean`: an ALIGNED structure with a
  null-terminated string followed by a run of bit-fields (the second one enum-typed) and a static member, and the
  step-by-step evaluation of `write` on a concrete value.
-/
import Proofs.Lemmas.CoreDynABW
import Proofs.Lemmas.CoreDynEx2
namespace Cstruct.Core.ExD
open Cstruct Cstruct.Core Cstruct.Core.Lemmas
set_option linter.unusedSimpArgs false

def e16 : Ty := .enum (.pint 2 false) 2 false
def hsD : Fields := .cons "d" false u8 none .nil
def hsB : Fields := .cons "b" false e16 (some 5) hsD
def hsA : Fields := .cons "a" false u16 (some 3) hsB
/-- `struct { char s[]; uint16 a:3; E b:5; uint8 d; }`, aligned, `E` an enum over `uint16` -/
def hsS : Fields := .cons "s" false strS none hsA
def tyR : Ty := .struct true hsS
def xsD : Vals := .cons (.int 77) .nil
def xsB : Vals := .cons (.enum 9) xsD
def xsA : Vals := .cons (.int 5) xsB
/-- `s = b"AB", a = 5, b = E(9), d = 77` -/
def xsS : Vals := .cons (.bytes [65, 66]) xsA
def bytesR : Bytes := [65, 66, 0, 0, 77, 0, 77, 0]

theorem erD0 : writeFields cfgL true hsD [none] xsD 0 BitBuf.empty 6 = .ok ([77], BitBuf.empty) := by
  rw [hsD, xsD, writeFields_nb_idle_true]
  have hp : padW cfgL u8 none 0 6 = 0 := by decide +kernel
  rw [hp, u8, write_sc]
  have : writeScalar cfgL (.pint 1 false) (.int 77) = .ok [77] := by decide +kernel
  rw [this]
  simp only [Except.bind, writeFields_nil]
  rfl

theorem erD : writeFields cfgL true hsD [none] xsD 0 { ty := some (.pint 2 false), buffer := 77, remaining := 8 } 4 =
    .ok ([77, 0, 77], BitBuf.empty) := by
  rw [hsD, xsD, writeFields_flush cfgL true _ _ _ _ _ _ _ _ _ _ _ (.pint 2 false) rfl (Or.inl rfl)]
  have f : flushBits cfgL { ty := some (.pint 2 false), buffer := 77, remaining := 8 } = .ok [77, 0] := by decide +kernel
  rw [f]
  have := erD0
  rw [hsD, xsD] at this
  simp only [Except.bind, List.length_cons, List.length_nil, Nat.reduceAdd, this]
  rfl

theorem erB : writeFields cfgL true hsB [none, none] xsB 0 { ty := some (.pint 2 false), buffer := 5, remaining := 13 } 4 =
    .ok ([77, 0, 77], BitBuf.empty) := by
  rw [hsB, xsB, writeFields_bit_cont_al cfgL true _ _ _ _ _ _ _ _ 0 4 (.pint 2 false) 2 9 _ rfl rfl (Or.inr rfl) rfl
    (by decide) (fun _ => by decide +kernel), putStepA]
  have p : BitBuf.put cfgL.endian { ty := some (.pint 2 false), buffer := 5, remaining := 13 } 2 9 (4 + 1) =
      some { ty := some (.pint 2 false), buffer := 77, remaining := 8 } := by decide +kernel
  rw [p]
  simp only [Nat.succ_ne_zero, if_false, Except.bind, zeros, List.replicate, List.length_nil, Nat.add_zero,
    List.nil_append, List.append_nil, erD]

theorem erA : writeFields cfgL true hsA [none, none, none] xsA 0 BitBuf.empty 3 = .ok ([0, 77, 0, 77], BitBuf.empty) := by
  rw [hsA, xsA, writeFields_bit_idle_true cfgL _ _ _ _ _ _ _ _ _ 0 3 (.pint 2 false) 2 5 rfl rfl (Or.inl rfl), putStepA]
  have hp : padW cfgL u16 none 0 3 = 1 := by decide +kernel
  have p : BitBuf.put cfgL.endian { ty := some (.pint 2 false), buffer := 0, remaining := 2 * 8 } 2 5 (2 + 1) =
      some { ty := some (.pint 2 false), buffer := 5, remaining := 13 } := by decide +kernel
  rw [hp, p]
  simp only [Nat.succ_ne_zero, if_false, Except.bind, zeros, List.replicate, List.length_cons, List.length_nil,
    Nat.reduceAdd, List.append_nil, List.cons_append, List.nil_append, erB]

theorem erS : writeFields cfgL true hsS [some 0, none, none, none] xsS 0 BitBuf.empty 0 =
    .ok ([65, 66, 0, 0, 77, 0, 77], BitBuf.empty) := by
  rw [hsS, xsS, writeFields_nb_idle_true]
  have hp : padW cfgL strS (some 0) 0 0 = 0 := by decide +kernel
  rw [hp, strS, chr, write_arr_bytes]
  simp only [Except.bind, zeros, List.replicate, List.cons_append, List.nil_append, List.length_cons, List.length_nil,
    Nat.reduceAdd, erA]

theorem ex_write_bits : write cfgL tyR (.record xsS) 0 = .ok bytesR := by
  have hl : structLayout cfgL true hsS = .ok (none, 2, [some 0, none, none, none]) := by decide +kernel
  rw [tyR, write_struct, hl]
  have hp : padNat 7 2 = 1 := by decide +kernel
  simp only [Except.bind, erS, flushBits_empty, List.append_nil, if_true, List.length_cons, List.length_nil, Nat.reduceAdd,
    hp]
  rfl

theorem ex_typed_bits : HasTyD cfgL [] (.record xsS) tyR :=
  .struct (.cons (.chars0 (by decide))
    (.bitsInt (by decide) (by decide) (.bitsEnum (by decide) (by decide) (.cons (.int rfl (by decide)) .nil))))

theorem ex_p2_bits : tyR.pow2Aligned cfgL :=
  ⟨Or.inr ⟨0, rfl⟩, Or.inr ⟨1, rfl⟩, Or.inr ⟨1, rfl⟩, Or.inr ⟨0, rfl⟩, trivial⟩

end Cstruct.Core.ExD
