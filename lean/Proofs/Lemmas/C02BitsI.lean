/-
  Helper lemmas for `Proofs/C02Bits.lean`, part 9: on fragment S (no bit-fields) the bit-level mask `C02B.maskB` is the
  byte-level mask `C02.tyMask` of `Proofs/Spec/C02.lean` with `true ↦ 0xFF`, `false ↦ 0x00` — a consistency check of the
  two specifications (definitions only; neither reader nor writer is involved).
-/
import Proofs.Spec.C02
import Proofs.Spec.C02Bits
namespace Cstruct.C02B.Lemmas
open Cstruct Cstruct.C02 Cstruct.C02B

/-- a byte of the byte-level mask as a byte of the bit-level mask -/
def maskByte (b : Bool) : UInt8 := if b then 0xFF else 0x00

theorem map_replicate_true (n : Nat) : (List.replicate n true).map maskByte = List.replicate n 0xFF := by
  simp [maskByte]

theorem map_replicate_false (n : Nat) : (List.replicate n false).map maskByte = zeros n := by
  simp [maskByte, zeros]

theorem fieldsMaskB_nb' (cfg : Cfg) (name an ty rest offs cur) :
    fieldsMaskB cfg (.cons name an ty none rest) offs cur none =
      zeros ((offs.headD none).getD cur - cur) ++ maskB cfg ty ++
        fieldsMaskB cfg rest (offs.drop 1) ((offs.headD none).getD cur + (maskB cfg ty).length) none := by
  rw [fieldsMaskB.eq_def]
  simp only [flushMask, List.nil_append]

mutual
theorem maskB_fragS (cfg : Cfg) : ∀ ty : Ty, ty.fragS cfg = true → maskB cfg ty = (tyMask cfg ty).map maskByte
  | .sc s _, _ => by simp only [maskB, tyMask, map_replicate_true]
  | .enum b _ _, _ => by simp only [maskB, tyMask, map_replicate_true]
  | .ptr _, _ => by simp only [maskB, tyMask, map_replicate_true]
  | .arr e len, h => by
    simp only [Ty.fragS, Bool.and_eq_true] at h
    cases len with
    | fixed n =>
      simp only [maskB, tyMask, maskB_fragS cfg e h.2, List.map_flatten, List.map_replicate]
    | expr _ => simp at h
    | nullTerm => simp at h
    | eof => simp at h
  | .struct al fs, h => by
    simp only [Ty.fragS] at h
    simp only [maskB, tyMask]
    cases hl : structLayout cfg al fs with
    | error e => rfl
    | ok r =>
      obtain ⟨sz, sa, offs⟩ := r
      cases sz with
      | none => rfl
      | some sz =>
        simp only [fieldsMaskB_fragS cfg fs h offs 0, List.map_append, List.length_map, map_replicate_false]
  | .union _ _, h => by simp [Ty.fragS] at h
theorem fieldsMaskB_fragS (cfg : Cfg) : ∀ fs : Fields, Fields.fragS cfg fs = true → ∀ (offs : List (Option Nat)) (cur : Nat),
    fieldsMaskB cfg fs offs cur none = (fieldsMask cfg fs offs cur).map maskByte
  | .nil, _, offs, cur => by rw [fieldsMaskB.eq_def]; simp [fieldsMask, flushMask]
  | .cons name an ty bits rest, h, offs, cur => by
    simp only [Fields.fragS, Bool.and_eq_true, Option.isNone_iff_eq_none] at h
    obtain ⟨⟨rfl, h1⟩, h2⟩ := h
    rw [fieldsMaskB_nb', fieldsMask]
    simp only [maskB_fragS cfg ty h1, fieldsMaskB_fragS cfg rest h2, List.map_append, List.length_map,
      map_replicate_false]
end

end Cstruct.C02B.Lemmas
