/-
  Helper lemmas for `Proofs/CoreDyn.lean`, part 6: the ALIGNED round trip for the types of fragment D without bit-fields.
  Invariant of the member loop: writer position = reader position; as long as the layout has offsets it is
  `struct_start + offset` (so that the writer's padding up to the recorded, re-aligned offset is the reader's seek); after
  the first dynamic member both sides pad by the absolute position (`padNat pos alignment`). Every structure starts at a
  multiple of its alignment (`sAlign`) and ends at one (its trailing padding is computed from the absolute position), which
  is what makes the number of bytes written for a nested structure of static size equal to that size.
-/
import Proofs.Lemmas.CoreDynAl0
namespace Cstruct.Core.Lemmas
open Cstruct Cstruct.Core
set_option linter.unusedSimpArgs false

/-- hypotheses on a member list that are passed down unchanged -/
structure DHyps (cfg : Cfg) (fs : Fields) : Prop where
  frag : Fields.fragD cfg fs = true
  nob : Fields.noBits fs = true
  unif : Fields.uniformAlign true fs = true
  p2 : fs.pow2Aligned cfg

/-- aligned round trip of one value of a type, given that writing succeeded at a position that is a multiple of the
    alignment of the structures at the head of the type; the end position is such a multiple again -/
def ATyD (cfg : Cfg) (ty : Ty) : Prop :=
  ty.fragD cfg = true → ty.noBits = true → ty.uniformAlign true = true → ty.pow2Aligned cfg →
  ∀ ctx v, HasTyD cfg ctx v ty → ∀ pos, sAlign cfg ty ∣ pos → ∀ bs, write cfg ty v pos = .ok bs →
    (∀ k, ty.size cfg = some k → bs.length = k) ∧ sAlign cfg ty ∣ pos + bs.length ∧
    ∀ (pre post : Bytes), pre.length = pos → read cfg ty ctx (pre ++ bs ++ post) pos = .ok (v, pos + bs.length)

/-- the aligned member loop (no bit-fields) -/
def AIdleD (cfg : Cfg) (fs : Fields) : Prop :=
  DHyps cfg fs → ∀ ctx vs, HasTysD cfg ctx vs fs →
  ∀ st sz sa offs, Fields.layout cfg true fs st = .ok (sz, sa, offs) →
  ∀ start pos, allAlignDvd cfg start fs → (∀ o, st.offset = some o → pos = start + o) →
  ∀ out bbF, writeFields cfg true fs offs vs start BitBuf.empty pos = .ok (out, bbF) →
    bbF = BitBuf.empty ∧ (∀ s, sz = some s → ∃ e, pos + out.length = start + e ∧ s = e + padNat e sa) ∧
    ∀ (pre post : Bytes) (bbR : BitBuf), pre.length = pos →
      ∃ szs, readFields cfg true fs offs start bbR ctx (pre ++ out ++ post) pos = .ok (vs, szs, pos + out.length)

theorem a_idle_nil_D (cfg : Cfg) : AIdleD cfg .nil := by
  intro _ ctx vs hvs st sz sa offs hlay start pos _ hpos out bbF hw
  cases hvs
  rw [layout_nil_true] at hlay
  rw [writeFields_nil] at hw
  simp only [Except.ok.injEq, Prod.mk.injEq] at hlay hw
  obtain ⟨rfl, rfl, rfl⟩ := hlay
  obtain ⟨rfl, rfl⟩ := hw
  refine ⟨rfl, ?_, ?_⟩
  · intro s hs
    cases ho : st.offset with
    | none => rw [ho] at hs; cases hs
    | some o =>
      rw [ho] at hs
      simp only [Option.map, Option.some.injEq] at hs
      exact ⟨o, by simpa using hpos o ho, hs.symm⟩
  · intro pre post bbR _
    exact ⟨[], by rw [readFields_nil]; simp⟩

theorem zeros_length (n : Nat) : (zeros n).length = n := by simp [zeros]

theorem a_idle_cons_D (cfg : Cfg) (name an ty rest) (IHt : ATyD cfg ty) (IHi : AIdleD cfg rest) :
    AIdleD cfg (.cons name an ty none rest) := by
  intro hH ctx vs hvs st sz sa offs hlay start pos hdv hpos out bbF hw
  obtain ⟨hS, hB, hU, hP⟩ := hH
  simp only [Fields.fragD, Bool.and_eq_true] at hS
  simp only [Fields.noBits, Bool.and_eq_true] at hB
  simp only [Fields.uniformAlign, Bool.and_eq_true] at hU
  simp only [Fields.pow2Aligned] at hP
  have hfa := alignment_p2 cfg ty hP.1
  cases hvs with
  | @cons _ v vs' _ _ _ _ hv hvs' =>
  rw [layout_nb_true] at hlay
  obtain ⟨⟨sz', sa', offs'⟩, hlay', heq⟩ := bind_ok hlay
  simp only [Except.ok.injEq, Prod.mk.injEq] at heq
  obtain ⟨rfl, rfl, rfl⟩ := heq
  generalize hfo : st.offset.map (fun o => o + padNat o (ty.alignment cfg)) = foff at hw
  -- the member's position
  have hle : ∀ fo, foff = some fo → pos ≤ start + fo := by
    intro fo h
    rw [← hfo] at h
    cases ho : st.offset with
    | none => rw [ho] at h; cases h
    | some o =>
      rw [ho] at h
      simp only [Option.map, Option.some.injEq] at h
      rw [hpos o ho]; omega
  have hfp := padW_fieldPos cfg ty foff start pos hle
  rw [writeFields_nb_idle_true] at hw
  generalize hpad : padW cfg ty foff start pos = pad at hw hfp
  obtain ⟨body, hwb, hw2⟩ := bind_ok hw
  obtain ⟨⟨o, bbF'⟩, hwr, heq⟩ := bind_ok hw2
  simp only [Except.ok.injEq, Prod.mk.injEq] at heq
  obtain ⟨rfl, rfl⟩ := heq
  have hal : ty.alignment cfg ∣ pos + pad := by
    rw [← hpad]
    cases ho : st.offset with
    | none =>
      rw [ho] at hfo; simp only [Option.map] at hfo; subst hfo
      simp only [padW]; exact padNat_p2_dvd hfa pos
    | some o0 =>
      rw [ho] at hfo; simp only [Option.map] at hfo; subst hfo
      have h1 := hpos o0 ho
      have h2 : pos + padW cfg ty (some (o0 + padNat o0 (ty.alignment cfg))) start pos =
          start + (o0 + padNat o0 (ty.alignment cfg)) := by
        simp only [padW]; split <;> omega
      rw [h2]
      exact Nat.dvd_add hdv.1 (padNat_p2_dvd hfa o0)
  obtain ⟨hsize, _, hread⟩ := IHt hS.1 hB.1.2 hU.1 hP.1 ctx v hv (pos + pad)
    (Nat.dvd_trans (sAlign_dvd_alignment cfg ty) hal) body hwb
  have hpos' : ∀ o', (stNbT cfg ty st).offset = some o' → pos + (zeros pad ++ body).length = start + o' := by
    intro o' ho'
    simp only [stNbT] at ho'
    cases hso : st.offset with
    | none => rw [hso] at ho'; cases ho'
    | some o0 =>
      rw [hso] at ho'
      cases hk : ty.size cfg with
      | none => rw [hk] at ho'; cases ho'
      | some k =>
        rw [hk] at ho'
        simp only [Option.some.injEq] at ho'
        rw [hso] at hfo; simp only [Option.map] at hfo; subst hfo
        have h1 := hpos o0 hso
        have h2 : pos + pad = start + (o0 + padNat o0 (ty.alignment cfg)) := by
          rw [← hpad]; simp only [padW]; split <;> omega
        rw [List.length_append, zeros_length, hsize k hk]; omega
  obtain ⟨hbb, hsz, hrd⟩ := IHi ⟨hS.2, hB.2, hU.2, hP.2⟩ (ctx.set name v) vs' hvs' (stNbT cfg ty st) sz' sa' offs' hlay'
    start _ hdv.2 hpos' o bbF' hwr
  refine ⟨hbb, ?_, ?_⟩
  · intro s hs
    obtain ⟨e, h1, h2⟩ := hsz s hs
    refine ⟨e, ?_, h2⟩
    simp only [List.length_append] at h1 ⊢; omega
  · intro pre post bbR hp
    rw [readFields_cons_nobits _ _ _ _ _ _ _ _ _ _ _ _ _ rfl]
    simp only [List.head?, Option.join, Option.bind, id, List.drop_one, List.tail_cons]
    rw [← hfp]
    have e1 : pre ++ (zeros pad ++ body ++ o) ++ post = (pre ++ zeros pad) ++ body ++ (o ++ post) := by
      simp only [List.append_assoc]
    have e2 : pre ++ (zeros pad ++ body ++ o) ++ post = (pre ++ zeros pad ++ body) ++ o ++ post := by
      simp only [List.append_assoc]
    have hl1 : (pre ++ zeros pad).length = pos + pad := by rw [List.length_append, zeros_length, hp]
    have hr1 := hread (pre ++ zeros pad) (o ++ post) hl1
    rw [← e1] at hr1
    rw [hr1]
    simp only [Except.bind]
    obtain ⟨szs, hr2⟩ := hrd (pre ++ zeros pad ++ body) post BitBuf.empty
      (by rw [List.length_append, hl1, List.length_append, zeros_length]; omega)
    rw [← e2] at hr2
    have e3 : pos + pad + body.length = pos + (zeros pad ++ body).length := by
      rw [List.length_append, zeros_length]; omega
    rw [e3, hr2]
    simp only [List.length_append]
    exact ⟨_, by congr 3; omega⟩

/-! ### Types -/

theorem aD_of_packed (cfg : Cfg) (ty : Ty) (hs : sAlign cfg ty = 1) (hu : ty.uniformAlign false = true) : ATyD cfg ty := by
  intro hS _ _ _ ctx v hv pos _ bs hw
  obtain ⟨h1, h2⟩ := rtD_ty cfg ty hS hu ctx v hv pos bs hw
  exact ⟨h1, by rw [hs]; exact Nat.one_dvd _, h2⟩

theorem rtA_N (cfg : Cfg) (ctx : Ctx) (e : Ty) (hE : ATyD cfg e) (hS : e.fragD cfg = true) (hB : e.noBits = true)
    (hU : e.uniformAlign true = true) (hP : e.pow2Aligned cfg) :
    ∀ (n : Nat) (vs : Vals), HasTyND cfg ctx vs e n → ∀ pos, sAlign cfg e ∣ pos → ∀ bs, writeN cfg e vs pos = .ok bs →
      (∀ k, e.size cfg = some k → bs.length = n * k) ∧ sAlign cfg e ∣ pos + bs.length ∧
      ∀ (pre post : Bytes), pre.length = pos →
        readN cfg e n ctx (pre ++ bs ++ post) pos = .ok (vs, pos + bs.length) := by
  intro n
  induction n with
  | zero =>
    intro vs h pos hpos bs hw
    cases h
    rw [writeN_nil] at hw
    cases hw
    refine ⟨fun k _ => by simp, by simpa using hpos, ?_⟩
    intro pre post _
    rw [readN_zero]; simp
  | succ n ih =>
    intro vs h pos hpos bs hw
    cases h with
    | @cons _ v vs' _ _ h1 h2 =>
      rw [writeN_cons] at hw
      obtain ⟨bs1, hw1, hw'⟩ := bind_ok hw
      obtain ⟨bs2, hw2, heq⟩ := bind_ok hw'
      cases heq
      obtain ⟨s1, a1, r1⟩ := hE hS hB hU hP ctx v h1 pos hpos bs1 hw1
      obtain ⟨s2, a2, r2⟩ := ih vs' h2 _ a1 bs2 hw2
      refine ⟨?_, ?_, ?_⟩
      · intro k hk
        rw [List.length_append, s1 k hk, s2 k hk, Nat.succ_mul]; omega
      · rw [List.length_append, ← Nat.add_assoc]; exact a2
      · intro pre post hp
        rw [readN_succ]
        have e1 : pre ++ (bs1 ++ bs2) ++ post = pre ++ bs1 ++ (bs2 ++ post) := by simp
        rw [e1, r1 pre (bs2 ++ post) hp]
        simp only [Except.bind]
        have e2 : pre ++ bs1 ++ (bs2 ++ post) = (pre ++ bs1) ++ bs2 ++ post := by simp
        rw [e2, r2 (pre ++ bs1) post (by rw [List.length_append, hp])]
        simp only [List.length_append, Nat.add_assoc]

theorem sAlign_sc_arr (cfg : Cfg) (s a len) : sAlign cfg (.arr (.sc s a) len) = 1 := rfl

theorem aD_arr (cfg : Cfg) (e : Ty) (len : Len) (hE : ATyD cfg e) : ATyD cfg (.arr e len) := by
  intro hS hB hU hP ctx v hv pos hpos bs hw
  have hS' := hS
  simp only [Ty.fragD, Bool.and_eq_true] at hS
  simp only [Ty.noBits] at hB
  simp only [Ty.uniformAlign] at hU
  simp only [Ty.pow2Aligned] at hP
  simp only [sAlign] at hpos
  cases hv with
  | chars _ _ => exact aD_of_packed cfg _ rfl rfl hS' rfl rfl hP ctx _ (.chars ‹_› ‹_›) pos (Nat.one_dvd _) bs hw
  | wchars _ _ _ _ =>
    exact aD_of_packed cfg _ rfl rfl hS' rfl rfl hP ctx _ (.wchars ‹_› ‹_› ‹_› ‹_›) pos (Nat.one_dvd _) bs hw
  | chars0 _ => exact aD_of_packed cfg _ rfl rfl hS' rfl rfl hP ctx _ (.chars0 ‹_›) pos (Nat.one_dvd _) bs hw
  | wchars0 _ _ => exact aD_of_packed cfg _ rfl rfl hS' rfl rfl hP ctx _ (.wchars0 ‹_› ‹_›) pos (Nat.one_dvd _) bs hw
  | @arr0 _ _ vs hc hwc hZ =>
    have he : sAlign cfg e = 1 ∧ e.uniformAlign false = true := by
      cases e <;> simp [Ty.nullElem] at hS <;> exact ⟨rfl, rfl⟩
    exact aD_of_packed cfg _ (by simp only [sAlign]; exact he.1) (by simp only [Ty.uniformAlign]; exact he.2) hS'
      (by simp only [Ty.noBits]; exact hB) (by simp only [Ty.uniformAlign]; exact hU) hP ctx _ (.arr0 hc hwc hZ) pos
      (by simp only [sAlign, he.1]; exact Nat.one_dvd _) bs hw
  | @arr _ _ _ n vs hc hwc hcnt hN =>
    rw [write_arr_count cfg e len ctx n hcnt vs (hasTyND_length cfg ctx e n vs hN)] at hw
    obtain ⟨s, a, r⟩ := rtA_N cfg ctx e hE hS.2 hB hU hP n vs hN pos hpos bs hw
    refine ⟨?_, by simpa only [sAlign] using a, ?_⟩
    · intro k hk
      obtain ⟨n', k', rfl, h2, rfl⟩ := arr_size_count cfg _ _ k hk
      simp only [Len.count, Option.some.injEq] at hcnt
      subst hcnt
      exact s k' h2
    · intro pre post hp
      rw [read_arr_count cfg _ len ctx n hcnt]
      exact readArray_of_readN_D cfg e hS.2 hc hwc ctx _ n pos vs _ (r pre post hp)

theorem aD_struct (cfg : Cfg) (al : Bool) (fs : Fields) (hF : AIdleD cfg fs) : ATyD cfg (.struct al fs) := by
  intro hS hB hU hP ctx v hv pos hpos bs hw
  simp only [Ty.fragD] at hS
  simp only [Ty.noBits] at hB
  simp only [Ty.uniformAlign, Bool.and_eq_true, beq_iff_eq] at hU
  simp only [Ty.pow2Aligned] at hP
  obtain ⟨rfl, hU⟩ := hU
  cases hv with
  | @struct _ _ _ vs hvs =>
  rw [write_struct] at hw
  obtain ⟨⟨sz, sa, offs⟩, hlay, hw1⟩ := bind_ok hw
  obtain ⟨⟨out, bbF⟩, hwf, hw2⟩ := bind_ok hw1
  obtain ⟨fl, hfl, heq⟩ := bind_ok hw2
  simp only [if_true, Except.ok.injEq] at heq
  subst heq
  have hdv := allAlignDvd_of_sAlign cfg true fs hP pos hpos
  obtain ⟨hbb, hsize, hread⟩ := hF ⟨hS, hB, hU, hP⟩ [] vs hvs LState.init sz sa offs hlay pos pos hdv
    (by intro o ho; cases ho; rfl) out bbF hwf
  subst hbb
  rw [flushBits_empty] at hfl
  cases hfl
  have hsa : sa = Fields.maxAlign cfg fs 0 := (layout_final cfg true fs LState.init sz sa offs hlay).1
  simp only [List.append_nil]
  refine ⟨?_, ?_, ?_⟩
  · intro k hk
    have hsz : (Ty.struct true fs).size cfg = sz := by
      have h := hlay
      unfold structLayout LState.init at h
      simp only [Ty.size, h]
    rw [hsz] at hk
    obtain ⟨e, h1, h2⟩ := hsize k hk
    have he : e = out.length := by omega
    subst he
    rw [List.length_append, zeros_length, hsa, padNat_struct cfg true fs hP pos out.length hpos, h2, hsa]
  · rw [List.length_append, zeros_length, ← Nat.add_assoc]
    simp only [sAlign, Ty.alignment]
    split
    · exact Nat.one_dvd _
    · rename_i h0
      rw [hsa]
      rcases maxAlign_p2 cfg fs hP 0 (Or.inl rfl) with h1 | h1
      · exact absurd h1 h0
      · exact padNat_p2_dvd h1 _
  · intro pre post hp
    rw [read_struct, hlay]
    simp only [Except.bind]
    have e1 : pre ++ (out ++ zeros (padNat (pos + out.length) sa)) ++ post =
        pre ++ out ++ (zeros (padNat (pos + out.length) sa) ++ post) := by simp only [List.append_assoc]
    obtain ⟨szs, hr⟩ := hread pre (zeros (padNat (pos + out.length) sa) ++ post) BitBuf.empty hp
    rw [e1, hr]
    simp only [if_true, List.length_append, zeros_length, Nat.add_assoc]

theorem aD_union (cfg : Cfg) (al fs) : ATyD cfg (.union al fs) := by
  intro hS; simp [Ty.fragD] at hS

mutual
theorem aD_ty (cfg : Cfg) : ∀ ty : Ty, ATyD cfg ty
  | .sc _ _ => aD_of_packed cfg _ rfl rfl
  | .enum _ _ _ => aD_of_packed cfg _ rfl rfl
  | .ptr _ => aD_of_packed cfg _ rfl rfl
  | .arr e len => aD_arr cfg e len (aD_ty cfg e)
  | .struct al fs => aD_struct cfg al fs (aD_idle cfg fs)
  | .union al fs => aD_union cfg al fs
theorem aD_idle (cfg : Cfg) : ∀ fs : Fields, AIdleD cfg fs
  | .nil => a_idle_nil_D cfg
  | .cons name an ty none rest => a_idle_cons_D cfg name an ty rest (aD_ty cfg ty) (aD_idle cfg rest)
  | .cons _ _ _ (some 0) _ => fun hH => by have := hH.frag; simp [Fields.fragD] at this
  | .cons _ _ _ (some (_ + 1)) _ => fun hH => by have := hH.nob; simp [Fields.noBits] at this
end

end Cstruct.Core.Lemmas
