/-
  C16 — pointers: width from configuration, dereference reads the target in place.

  Property theorems over `CstructModel/Pointer.lean` (types/pointer.py) and the `Ty.ptr` cases of the read/write model.
  Helper lemmas in `Proofs/Lemmas/C16.lean`.
-/
import CstructModel.Pointer
import Proofs.Lemmas.C16

namespace Cstruct.C16
open Cstruct Cstruct.Pointer Cstruct.Core

/-- **Width and value**: a pointer field occupies exactly the configured pointer type's width, whatever the target; its
    value is the integer that type decodes at that place — for an unsigned pointer type of `n` bytes the unsigned integer
    stored there, in [0, 2^(8n)) — and parsing binds it to the stream it was read from. -/
theorem c16_width_value (cfg : Cfg) (t : Ty) (ctx : Ctx) (d : Bytes) (pos n : Nat) (hp : cfg.ptr = .pint n false ∨ cfg.ptr = .aint n false) :
    (Ty.ptr t).size cfg = some n ∧
    (∀ v p, read cfg (.ptr t) ctx d pos = .ok (v, p) →
      p = pos + n ∧ ∃ a : Int, v = .ptr a ∧ a = (decodeNat cfg.endian ((d.drop pos).take n) : Int) ∧ 0 ≤ a ∧ a < 2 ^ (8 * n)) ∧
    (∀ ptr p, readPtr cfg t d pos = .ok (ptr, p) → ptr.stream = some d ∧ ptr.target = t ∧ ptr.cache = none ∧
      read cfg (.ptr t) ctx d pos = .ok (.ptr ptr.addr, p)) := by
  exact Lemmas.width_value cfg t ctx d pos n hp

/-- **Dereference reads the target in place**: for a non-null pointer bound to a stream, dereferencing returns what parsing
    the target type at that absolute offset returns (for a char target: the NUL-terminated string there), leaves the stream
    position where it was, and fills the cache. -/
theorem c16_deref (cfg : Cfg) (ptr : Ptr) (data : Bytes) (pos : Nat) (hs : ptr.stream = some data) (ha : 0 < ptr.addr)
    (hc : ptr.cache = none) (hv : isVoid ptr.target = false) :
    (isChar ptr.target = false →
      deref cfg ptr pos = (read cfg ptr.target [] data ptr.addr.toNat).map (fun (v, _) => (v, { ptr with cache := some v }, pos))) ∧
    (isChar ptr.target = true →
      deref cfg ptr pos = (read cfg (.arr ptr.target .nullTerm) [] data ptr.addr.toNat).map (fun (v, _) => (v, { ptr with cache := some v }, pos))) := by
  exact Lemmas.deref_eq cfg ptr data pos hs ha hc hv

/-- **Stable on repeated access, stream never moves**: a second dereference returns the same value and the same pointer
    state, and every successful dereference leaves the position unchanged. -/
theorem c16_deref_stable (cfg : Cfg) (ptr : Ptr) (pos pos' : Nat) (v : Val) (ptr' : Ptr) (q : Nat)
    (h : deref cfg ptr pos = .ok (v, ptr', q)) :
    q = pos ∧ deref cfg ptr' pos' = .ok (v, ptr', pos') ∧ ptr'.addr = ptr.addr ∧ ptr'.stream = ptr.stream ∧ ptr'.target = ptr.target := by
  exact Lemmas.deref_stable cfg ptr pos pos' v ptr' q h

/-- **Null pointers and pointers without a stream raise the dedicated error**, whatever the target and the cache. -/
theorem c16_null (cfg : Cfg) (ptr : Ptr) (pos : Nat) (h : ptr.addr = 0 ∨ ptr.stream = none) :
    deref cfg ptr pos = .error .nullDeref := by
  exact Lemmas.deref_null cfg ptr pos h

/-- **Pointer arithmetic yields a pointer of the same type on the same stream** whose dereference reads at the new address. -/
theorem c16_arith (cfg : Cfg) (ptr : Ptr) (f : Int → Int) (pos : Nat) :
    (arith ptr f).target = ptr.target ∧ (arith ptr f).stream = ptr.stream ∧ (arith ptr f).addr = f ptr.addr ∧
    deref cfg (arith ptr f) pos = deref cfg { ptr with addr := f ptr.addr, cache := none } pos := by
  exact Lemmas.arith_eq cfg ptr f pos

/-- **Dumping writes the address back unchanged**: what `readPtr` read is what `writePtr` writes, and an address that does
    not fit the pointer type is rejected. -/
theorem c16_dump (cfg : Cfg) (t : Ty) (d : Bytes) (pos n : Nat) (ptr : Ptr) (p : Nat)
    (hp : cfg.ptr = .pint n false ∨ cfg.ptr = .aint n false) (h : readPtr cfg t d pos = .ok (ptr, p)) :
    writePtr cfg ptr = .ok ((d.drop pos).take n) ∧ write cfg (.ptr t) (.ptr ptr.addr) pos = .ok ((d.drop pos).take n) ∧
    (∀ a : Int, (a < 0 ∨ 2 ^ (8 * n) ≤ a) → write cfg (.ptr t) (.ptr a) pos = .error .overflow) := by
  exact Lemmas.dump cfg t d pos n ptr p hp h

end Cstruct.C16
