/-
  Round trip for DYNAMICALLY sized types (property C01 beyond fragments S and SB): "fragment D".
  Specification-side definitions: `Proofs/Spec/CoreDyn.lean` (fragment `Ty.fragD`, typing relation `Core.HasTyD`, relative
  to the reader's context); proofs: `Proofs/Lemmas/CoreDyn*.lean`. Model: `read`/`readArray`/`readN`/`read0`/`readFields`
  (`CstructModel/Read.lean`), `write`/`writeN`/`writeFields` (`CstructModel/Write.lean`), `Fields.layout`
  (`CstructModel/Ty.lean`), `lebRead`/`lebWrite` (`CstructModel/Leb.lean`), `evalLen` (`CstructModel/Read.lean`).

  Fragment D = fragment SB plus
    (a) LEB128 scalars (`uleb128`: non-negative values);
    (b) null-terminated arrays `x[]` of fixed-width integers, LEB128 integers, enums over fixed-width integers (value: a list
        without a zero element), of `char` (a byte string without NUL) and of `wchar` (a well-formed UTF-16 string without
        a zero code unit);
    (c) `wchar` scalars (one non-surrogate code unit) and `wchar x[n]` (a well-formed UTF-16 string of `n` units);
    (d) `x[expr]`: exactly `max(0, expr)` elements, the expression being evaluated by the reader over the integer-like
        fields of the enclosing structure parsed so far (`evalLen cfg toks ctx`); the writer does not look at the length;
    (e) structures containing such members anywhere, followed by static members, bit-fields, nested structures, and fixed /
        expression-length arrays of dynamic structures. After the first dynamic member the layout offsets are `none`;
        writer and reader continue at the current position, which is the invariant of the proof ("writer position = reader
        position, = layout offset as long as there is one"), inherited from `CoreBitsRT*`.
  A nested structure is parsed with a FRESH context (`StructureMetaType._read` starts from an empty `result`), so the typing
  rule for `.struct` types the fields from `[]` whatever the outer context is: a length expression cannot refer to a field
  of an enclosing structure.
  Out of the fragment: `x[EOF]` (known finding: an aligned structure ending in one), unions, null-terminated arrays of
  structures, floats as null-terminated elements.

  Theorems: packed mode `roundtrip_D_packed` / `write_total_D_packed` / `dumps_roundtrip_D_packed` (every start position,
  bit-fields anywhere, no layout hypothesis for the round trip); aligned mode `roundtrip_D_aligned` / `write_total_D_aligned`
  / `dumps_roundtrip_D_aligned` (bit-fields under `bitsNatural`, aligned start position) and the `…_nobits` variants
  (no hypothesis on storage units or on the definition); `roundtrip_D` = both modes in the shape of `roundtrip_SB`.
-/
import Proofs.Spec.CoreDyn
import Proofs.Lemmas.CoreDynC
import Proofs.Lemmas.CoreDynW
import Proofs.Lemmas.CoreDynEx
import Proofs.Lemmas.CoreDynAl
import Proofs.Lemmas.CoreDynAlW
import Proofs.Lemmas.CoreDynEx2
import Proofs.Lemmas.CoreDynAB
import Proofs.Lemmas.CoreDynABW
import Proofs.Lemmas.CoreDynEx3

namespace Cstruct.Core
open Cstruct

/-- **Round trip (fragment D, packed).** Writing a value `v` of a type of fragment D at absolute position `pos` and parsing
    the result — embedded after any `pre` of that length and before any `post` — in the context `ctx` in which `v` is a
    value of the type returns `v` and ends exactly after the written bytes. Every structure in the type is packed; every
    start position; no assumption on the layout beyond `hw` (writing succeeded). For a top-level structure the context is
    irrelevant (`HasTyD.struct` types its fields from the empty context, as the reader does). -/
theorem roundtrip_D_packed (cfg : Cfg) (ty : Ty) (hS : ty.fragD cfg = true) (hu : ty.uniformAlign false = true)
    (ctx : Ctx) (v : Val) (hv : HasTyD cfg ctx v ty) (pos : Nat) (bs : Bytes) (hw : write cfg ty v pos = .ok bs)
    (pre post : Bytes) (hpre : pre.length = pos) :
    read cfg ty ctx (pre ++ bs ++ post) pos = .ok (v, pos + bs.length) :=
  (Lemmas.rtD_ty cfg ty hS hu ctx v hv pos bs hw).2 pre post hpre

/-- the number of bytes written for a value of a type of fragment D that has a static size is that size -/
theorem write_size_D_packed (cfg : Cfg) (ty : Ty) (hS : ty.fragD cfg = true) (hu : ty.uniformAlign false = true)
    (ctx : Ctx) (v : Val) (hv : HasTyD cfg ctx v ty) (pos : Nat) (bs : Bytes) (hw : write cfg ty v pos = .ok bs)
    (k : Nat) (hk : ty.size cfg = some k) : bs.length = k :=
  (Lemmas.rtD_ty cfg ty hS hu ctx v hv pos bs hw).1 k hk

/-- **Writing is total on the values of the type (fragment D, packed)**, provided the definition is accepted
    (`ty.defErr cfg = none`: the layout of every structure in the type succeeds, i.e. no bit-field straddles its storage
    unit). In particular the writer never checks the length of an `x[expr]` array against anything, and the terminator of an
    `x[]` array can always be encoded. -/
theorem write_total_D_packed (cfg : Cfg) (ty : Ty) (hS : ty.fragD cfg = true) (hu : ty.uniformAlign false = true)
    (hd : ty.defErr cfg = none) (ctx : Ctx) (v : Val) (hv : HasTyD cfg ctx v ty) (pos : Nat) :
    ∃ bs, write cfg ty v pos = .ok bs :=
  Lemmas.wtD_ty cfg ty hS hu hd ctx v hv pos

/-- **`dumps` then parse (fragment D, packed)**: for every value of an accepted type, `dumps` succeeds and parsing its output
    (followed by anything) returns the value and consumes exactly `len(dumps(v))` bytes. -/
theorem dumps_roundtrip_D_packed (cfg : Cfg) (ty : Ty) (hS : ty.fragD cfg = true) (hu : ty.uniformAlign false = true)
    (hd : ty.defErr cfg = none) (ctx : Ctx) (v : Val) (hv : HasTyD cfg ctx v ty) :
    ∃ bs, dumps cfg ty v = .ok bs ∧ ∀ post, read cfg ty ctx (bs ++ post) 0 = .ok (v, bs.length) := by
  obtain ⟨bs, hw⟩ := write_total_D_packed cfg ty hS hu hd ctx v hv 0
  refine ⟨bs, hw, fun post => ?_⟩
  have h := roundtrip_D_packed cfg ty hS hu ctx v hv 0 bs hw [] post rfl
  simpa using h

/-! ### Aligned mode
  In aligned mode a member behind a dynamic one has no layout offset; writer and reader both pad by the ABSOLUTE position
  (`padNat pos alignment`), and the trailing padding of a structure is computed from the absolute position as well; a
  bit-field behind a dynamic member opens its unit at the padded absolute position. As in `roundtrip_S`/`roundtrip_SB`:
  one `align` flag throughout, power-of-two alignments, a start position that is a multiple of the alignments occurring
  in the type (position 0 for `dumps`), and every bit-field storage scalar has `size = alignment` (`bitsNatural`; the known
  finding for int24/int48 storage types recorded in `Proofs/CoreBits.lean` is about exactly the other case). Unlike
  `roundtrip_SB` there is no hypothesis on the definition: `hw` (writing succeeded) is enough.
  The hypothesis on the start position cannot be dropped: for the aligned
  `struct { struct { uint8 a; uint32 b; } x; uint8 y; }` written at position 1 the inner structure is padded to the absolute
  position 12 (11 bytes instead of its size 8), `y` is written there, and the reader seeks back to `start + 8 = 9`, returns
  `y = 0` and ends at position 12 (checked with `#eval`). `dumps` always starts at 0 and every nested structure starts at a
  multiple of its alignment (that is the invariant of the proof), so this is not a violation of C01. -/

/-- **Round trip (fragment D, aligned)**, bit-fields included. -/
theorem roundtrip_D_aligned (cfg : Cfg) (ty : Ty) (hS : ty.fragD cfg = true) (hu : ty.uniformAlign true = true)
    (hp : ty.pow2Aligned cfg) (hn : ty.bitsNatural cfg = true) (ctx : Ctx) (v : Val) (hv : HasTyD cfg ctx v ty)
    (pos : Nat) (hal : ty.alignsDivide cfg pos = true) (bs : Bytes) (hw : write cfg ty v pos = .ok bs)
    (pre post : Bytes) (hpre : pre.length = pos) :
    read cfg ty ctx (pre ++ bs ++ post) pos = .ok (v, pos + bs.length) :=
  (Lemmas.bD_ty cfg ty hS hu hp hn ctx v hv pos (Lemmas.sAlign_dvd_of_alignsDivide cfg pos ty hal) bs hw).2.2 pre post hpre

/-- the number of bytes written in aligned mode for a value of a type of fragment D that has a static size is that size -/
theorem write_size_D_aligned (cfg : Cfg) (ty : Ty) (hS : ty.fragD cfg = true) (hu : ty.uniformAlign true = true)
    (hp : ty.pow2Aligned cfg) (hn : ty.bitsNatural cfg = true) (ctx : Ctx) (v : Val) (hv : HasTyD cfg ctx v ty)
    (pos : Nat) (hal : ty.alignsDivide cfg pos = true) (bs : Bytes) (hw : write cfg ty v pos = .ok bs)
    (k : Nat) (hk : ty.size cfg = some k) : bs.length = k :=
  (Lemmas.bD_ty cfg ty hS hu hp hn ctx v hv pos (Lemmas.sAlign_dvd_of_alignsDivide cfg pos ty hal) bs hw).1 k hk

/-- **Writing is total on the values of the type (fragment D, aligned)**, provided the definition is accepted. -/
theorem write_total_D_aligned (cfg : Cfg) (ty : Ty) (hS : ty.fragD cfg = true) (hu : ty.uniformAlign true = true)
    (hp : ty.pow2Aligned cfg) (hn : ty.bitsNatural cfg = true) (hd : ty.defErr cfg = none) (ctx : Ctx) (v : Val)
    (hv : HasTyD cfg ctx v ty) (pos : Nat) (hal : ty.alignsDivide cfg pos = true) : ∃ bs, write cfg ty v pos = .ok bs :=
  Lemmas.wtB_ty cfg ty hS hu hp hn hd ctx v hv pos (Lemmas.sAlign_dvd_of_alignsDivide cfg pos ty hal)

/-- **`dumps` then parse (fragment D, aligned)**. -/
theorem dumps_roundtrip_D_aligned (cfg : Cfg) (ty : Ty) (hS : ty.fragD cfg = true) (hu : ty.uniformAlign true = true)
    (hp : ty.pow2Aligned cfg) (hn : ty.bitsNatural cfg = true) (hd : ty.defErr cfg = none) (ctx : Ctx) (v : Val)
    (hv : HasTyD cfg ctx v ty) :
    ∃ bs, dumps cfg ty v = .ok bs ∧ ∀ post, read cfg ty ctx (bs ++ post) 0 = .ok (v, bs.length) := by
  obtain ⟨bs, hw⟩ := Lemmas.wtB_ty cfg ty hS hu hp hn hd ctx v hv 0 (Nat.dvd_zero _)
  refine ⟨bs, hw, fun post => ?_⟩
  have h := (Lemmas.bD_ty cfg ty hS hu hp hn ctx v hv 0 (Nat.dvd_zero _) bs hw).2.2 [] post rfl
  simpa using h

/-- **Round trip (fragment D, packed or aligned)**: the two modes in the shape of `roundtrip_SB`. -/
theorem roundtrip_D (cfg : Cfg) (al : Bool) (ty : Ty) (hS : ty.fragD cfg = true) (hu : ty.uniformAlign al = true)
    (hp : ty.pow2Aligned cfg) (hn : al = true → ty.bitsNatural cfg = true) (ctx : Ctx) (v : Val)
    (hv : HasTyD cfg ctx v ty) (pos : Nat) (hal : ty.alignsDivide cfg pos = true) (bs : Bytes)
    (hw : write cfg ty v pos = .ok bs) (pre post : Bytes) (hpre : pre.length = pos) :
    read cfg ty ctx (pre ++ bs ++ post) pos = .ok (v, pos + bs.length) := by
  cases al with
  | false => exact roundtrip_D_packed cfg ty hS hu ctx v hv pos bs hw pre post hpre
  | true => exact roundtrip_D_aligned cfg ty hS hu hp (hn rfl) ctx v hv pos hal bs hw pre post hpre

/-! #### Aligned mode without bit-fields: no hypothesis on storage units or on the definition -/

/-- **Round trip (fragment D without bit-fields, aligned).** -/
theorem roundtrip_D_aligned_nobits (cfg : Cfg) (ty : Ty) (hS : ty.fragD cfg = true) (hB : ty.noBits = true)
    (hu : ty.uniformAlign true = true) (hp : ty.pow2Aligned cfg) (ctx : Ctx) (v : Val) (hv : HasTyD cfg ctx v ty)
    (pos : Nat) (hal : ty.alignsDivide cfg pos = true) (bs : Bytes) (hw : write cfg ty v pos = .ok bs)
    (pre post : Bytes) (hpre : pre.length = pos) :
    read cfg ty ctx (pre ++ bs ++ post) pos = .ok (v, pos + bs.length) :=
  (Lemmas.aD_ty cfg ty hS hB hu hp ctx v hv pos (Lemmas.sAlign_dvd_of_alignsDivide cfg pos ty hal) bs hw).2.2 pre post hpre

/-- **Writing is total on the values of the type (fragment D without bit-fields, aligned)**: without bit-fields no layout
    is ever rejected, so there is no hypothesis on the definition. -/
theorem write_total_D_aligned_nobits (cfg : Cfg) (ty : Ty) (hS : ty.fragD cfg = true) (hB : ty.noBits = true)
    (hu : ty.uniformAlign true = true) (hp : ty.pow2Aligned cfg) (ctx : Ctx) (v : Val) (hv : HasTyD cfg ctx v ty)
    (pos : Nat) (hal : ty.alignsDivide cfg pos = true) : ∃ bs, write cfg ty v pos = .ok bs :=
  Lemmas.wtA_ty cfg ty hS hB hu hp ctx v hv pos (Lemmas.sAlign_dvd_of_alignsDivide cfg pos ty hal)

/-- **`dumps` then parse (fragment D without bit-fields, aligned)**. -/
theorem dumps_roundtrip_D_aligned_nobits (cfg : Cfg) (ty : Ty) (hS : ty.fragD cfg = true) (hB : ty.noBits = true)
    (hu : ty.uniformAlign true = true) (hp : ty.pow2Aligned cfg) (ctx : Ctx) (v : Val) (hv : HasTyD cfg ctx v ty) :
    ∃ bs, dumps cfg ty v = .ok bs ∧ ∀ post, read cfg ty ctx (bs ++ post) 0 = .ok (v, bs.length) := by
  obtain ⟨bs, hw⟩ := Lemmas.wtA_ty cfg ty hS hB hu hp ctx v hv 0 (Nat.dvd_zero _)
  refine ⟨bs, hw, fun post => ?_⟩
  have h := (Lemmas.aD_ty cfg ty hS hB hu hp ctx v hv 0 (Nat.dvd_zero _) bs hw).2.2 [] post rfl
  simpa using h

/-! ### Non-vacuity
  `struct { uint8 n; uint16 a[n * 2]; ileb128 v; char s[]; uint8 tail; }`, packed, little endian, with the value
  `n = 1, a = [0x1234, 7], v = -300, s = b"hi", tail = 9`. -/
open ExD in
example : tyX.fragD cfgL = true ∧ tyX.uniformAlign false = true ∧ tyX.defErr cfgL = none ∧ tyX.size cfgL = none := by
  decide +kernel
open ExD in
example : evalLen cfgL ["n", "*", "2"] [("n", .int 1)] = .ok 2 := by decide +kernel
open ExD in
example : HasTyD cfgL [] (.record vsN) tyX := ex_typed
open ExD in
example : write cfgL tyX (.record vsN) 0 = .ok [1, 0x34, 0x12, 7, 0, 212, 125, 104, 105, 0, 9] := ex_write
open ExD in
example (post : Bytes) (ctx : Ctx) :
    read cfgL tyX ctx ([1, 0x34, 0x12, 7, 0, 212, 125, 104, 105, 0, 9] ++ post) 0 = .ok (.record vsN, 11) := by
  have h := roundtrip_D_packed cfgL tyX (by decide +kernel) (by decide +kernel) ctx (.record vsN) (.struct (by
    have := ex_typed; cases this; assumption)) 0 _ ex_write [] post rfl
  simpa [bytesX] using h
-- a wrong element count is not a value of the type: with `n = 1` the array must have 2 elements
open ExD in
example : ¬ HasTyD cfgL [("n", .int 1)] (.list (.cons (.int 5) .nil)) arrA := by
  intro h
  cases h with
  | arr _ _ hc hN =>
    have h2 : Len.count cfgL [("n", .int 1)] (.expr ["n", "*", "2"]) = some 2 := by decide +kernel
    rw [h2] at hc
    cases hc
    cases hN with
    | cons _ h' => cases h'

-- aligned: `struct { uint8 n; uint16 a[n]; char s[]; uint32 x; uint8 tail; }` with `n = 1, a = [7], s = b"hi",
-- x = 0x01020304, tail = 9`: `a` at its layout offset 2, `x` padded to the absolute position 8, three bytes of trailing padding
open ExD in
example : tyQ.fragD cfgL = true ∧ tyQ.noBits = true ∧ tyQ.uniformAlign true = true ∧ tyQ.alignsDivide cfgL 0 = true ∧
    tyQ.size cfgL = none := by decide +kernel
open ExD in
example : write cfgL tyQ (.record wsN) 0 = .ok [1, 0, 7, 0, 104, 105, 0, 0, 4, 3, 2, 1, 9, 0, 0, 0] := ex_write_al
open ExD in
example (post : Bytes) (ctx : Ctx) :
    read cfgL tyQ ctx ([1, 0, 7, 0, 104, 105, 0, 0, 4, 3, 2, 1, 9, 0, 0, 0] ++ post) 0 = .ok (.record wsN, 16) := by
  have h := roundtrip_D_aligned_nobits cfgL tyQ (by decide +kernel) (by decide +kernel) (by decide +kernel) ex_p2_al ctx
    (.record wsN) (.struct (by have := ex_typed_al; cases this; assumption)) 0 (by decide +kernel) _ ex_write_al [] post rfl
  simpa [bytesQ] using h
-- aligned with bit-fields behind a dynamic member: `struct { char s[]; uint16 a:3; E b:5; uint8 d; }` (`E` an enum over
-- `uint16`) with `s = b"AB", a = 5, b = E(9), d = 77`: the unit is opened at the padded absolute position 4
open ExD in
example : tyR.fragD cfgL = true ∧ tyR.uniformAlign true = true ∧ tyR.bitsNatural cfgL = true ∧ tyR.defErr cfgL = none ∧
    tyR.alignsDivide cfgL 0 = true ∧ tyR.size cfgL = none := by decide +kernel
open ExD in
example : write cfgL tyR (.record xsS) 0 = .ok [65, 66, 0, 0, 77, 0, 77, 0] := ex_write_bits
open ExD in
example (post : Bytes) (ctx : Ctx) :
    read cfgL tyR ctx ([65, 66, 0, 0, 77, 0, 77, 0] ++ post) 0 = .ok (.record xsS, 8) := by
  have h := roundtrip_D_aligned cfgL tyR (by decide +kernel) (by decide +kernel) ex_p2_bits (by decide +kernel) ctx
    (.record xsS) (.struct (by have := ex_typed_bits; cases this; assumption)) 0 (by decide +kernel) _ ex_write_bits [] post rfl
  simpa [bytesR] using h

end Cstruct.Core
