/-
  C08 — truncated or failing input never fabricates data.

  Property theorems, derived from `Core.read_extend` (proved for every *plain* type: every scalar, enum, pointer, fixed /
  expression-sized / null-terminated array, nested structure, bit-field, packed, aligned or mixed; not to-end-of-stream
  arrays, whose extent is the end of input by definition, and not unions, see `Proofs/Spec/Core.lean`).
  The model's `read` is a pure function of (configuration, type, context, data, position), so "a failed parse leaves no
  residue" is true of the model by construction; for the real code it is established by the fault-injection run of this
  check (re-parsing after every injected failure) and by C14/C15's footprint analysis.
-/
import Proofs.Core
import Proofs.C05

namespace Cstruct.C08
open Cstruct Cstruct.Core

/-- **Any value returned from a shortened input is the value returned from the complete input**, with the same end
    position: cutting the input at any point `k` either makes parsing fail or changes nothing. -/
theorem c08_shortened (cfg : Cfg) (ty : Ty) (hplain : ty.plain = true) (ctx : Ctx) (data : Bytes) (pos k : Nat) (v : Val) (p : Nat)
    (hr : read cfg ty ctx (data.take k) pos = .ok (v, p)) :
    read cfg ty ctx data pos = .ok (v, p) :=
  read_extend cfg ty hplain ctx (data.take k) pos v p hr data (List.take_prefix k data)

/-- **Contrapositive form:** if the complete input parses to `(v, p)` then no cut of it parses to anything else — it fails or
    returns exactly `(v, p)`. In particular a truncated input never yields a value built from bytes that were not there. -/
theorem c08_never_fabricates (cfg : Cfg) (ty : Ty) (hplain : ty.plain = true) (ctx : Ctx) (data : Bytes) (pos k : Nat) (v : Val) (p : Nat)
    (hfull : read cfg ty ctx data pos = .ok (v, p)) :
    (∃ e, read cfg ty ctx (data.take k) pos = .error e) ∨ read cfg ty ctx (data.take k) pos = .ok (v, p) := by
  cases h : read cfg ty ctx (data.take k) pos with
  | error e => exact Or.inl ⟨e, rfl⟩
  | ok r =>
    obtain ⟨v', p'⟩ := r
    have := c08_shortened cfg ty hplain ctx data pos k v' p' h
    rw [hfull] at this
    cases this
    exact Or.inr rfl

/-- The same for an arbitrary extension of the input (a stream that later delivers more bytes). -/
theorem c08_extension (cfg : Cfg) (ty : Ty) (hplain : ty.plain = true) (ctx : Ctx) (d more : Bytes) (pos : Nat) (v : Val) (p : Nat)
    (hr : read cfg ty ctx d pos = .ok (v, p)) : read cfg ty ctx (d ++ more) pos = .ok (v, p) :=
  read_extend cfg ty hplain ctx d pos v p hr (d ++ more) (List.prefix_append d more)

/-- **Every fixed-width primitive checks its length**: a read that gets fewer bytes than requested is an EOFError, never a
    value; a LEB128 whose last byte is missing likewise (`c05_leb_truncated`). -/
theorem c08_short_read (data : Bytes) (pos n : Nat) (h : data.length < pos + n) (hn : 0 < n) :
    readExact data pos n = .error .eof := by
  have hne : ((data.drop pos).take n).length ≠ n := by
    simp only [List.length_take, List.length_drop]; omega
  simp only [readExact, sread, hne, ne_eq, not_false_eq_true, if_true]

theorem c08_leb_truncated (s : Bool) (bs : Bytes) (h : ∀ b ∈ bs, b.toNat ≥ 128) : lebRead s bs = .error .eof :=
  Cstruct.C05.c05_leb_truncated s bs h

end Cstruct.C08
