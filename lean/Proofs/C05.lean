/-
  C05 — scalar codecs implement the standard encodings under the current endianness.

  Property theorems only; helper lemmas are in `Proofs/Lemmas/C05.lean`.
  Model: `CstructModel/Codec.lean` (what int.from_bytes/to_bytes and struct's integer formats compute),
  `CstructModel/Leb.lean` (the loops of types/leb128.py as written), `CstructModel/Resolve.lean`
  (cstruct.resolve) over the tables `Gen.typeTable`, `Gen.endiannessMap`, `Gen.wcharEncodingMap`, which are
  regenerated from /repo's cstruct.py, utils.py and wchar.py on every run.
-/
import Proofs.Lemmas.C05
import Proofs.Lemmas.C05Wchar

namespace Cstruct.C05
open Cstruct

/-- the two's-complement reading of a little-endian byte string: the unsigned value, minus 2^(8n) when the top bit of the
    most significant (last) byte is set -/
def twosComplementLE (bs : Bytes) : Int :=
  match bs.getLast? with
  | some msb => if msb.toNat ≥ 128 then (fromLE bs : Int) - (2 ^ (8 * bs.length) : Nat) else (fromLE bs : Int)
  | none => 0

/-- Decoding is positional base-256 (unsigned) and two's complement (signed); big endian is little endian on the
    reversed bytes. All widths, not only those in the type table. -/
theorem c05_int_decode (bs : Bytes) :
    decodeInt .little false bs = (fromLE bs : Int) ∧
    decodeInt .little true bs = twosComplementLE bs ∧
    (∀ s, decodeInt .big s bs = decodeInt .little s bs.reverse) ∧
    (∀ b r, fromLE (b :: r) = b.toNat + 256 * fromLE r) := by
  exact ⟨Lemmas.decode_unsigned bs, Lemmas.decode_signed bs, fun s => Lemmas.decode_big s bs, fun _ _ => rfl⟩

/-- Encoding then decoding returns the value, for every width, signedness and byte order, and the encoding has exactly
    the width of the type. -/
theorem c05_int_roundtrip (e : Endian) (n : Nat) (s : Bool) (v : Int) (h : fits n s v = true) :
    ∃ bs, encodeInt e n s v = some bs ∧ bs.length = n ∧ decodeInt e s bs = v := by
  exact Lemmas.int_roundtrip e n s v h

/-- Decoding then encoding returns the bytes: the codec is a bijection between `n`-byte strings and the values that fit. -/
theorem c05_int_roundtrip_bytes (e : Endian) (s : Bool) (bs : Bytes) :
    fits bs.length s (decodeInt e s bs) = true ∧ encodeInt e bs.length s (decodeInt e s bs) = some bs := by
  exact Lemmas.int_roundtrip_bytes e s bs

/-- A value that does not fit is rejected, never truncated or wrapped. -/
theorem c05_int_reject (e : Endian) (n : Nat) (s : Bool) (v : Int) (h : fits n s v = false) :
    encodeInt e n s v = none := by
  exact Lemmas.int_reject e n s v h

/-- `fits` is the usual range: [0, 2^(8n)) unsigned, [-2^(8n-1), 2^(8n-1)) signed. -/
theorem c05_fits_range (n : Nat) (v : Int) :
    (fits n false v = true ↔ 0 ≤ v ∧ v < 2 ^ (8 * n)) ∧
    (fits (n + 1) true v = true ↔ -(2 ^ (8 * n + 7) : Int) ≤ v ∧ v < 2 ^ (8 * n + 7)) := by
  exact Lemmas.fits_range n v

/-- LEB128, signed: reading what the writer emitted returns the value and consumes exactly the emitted bytes, whatever
    follows — for every integer. -/
theorem c05_leb_roundtrip_signed (v : Int) (rest : Bytes) :
    lebRead true (lebWriteLoop true v ++ rest) = .ok (v, rest) := by
  exact Lemmas.leb_roundtrip_read true v rest (fun h => nomatch h)

/-- LEB128, unsigned: the same for every non-negative integer; negative values are refused. -/
theorem c05_leb_roundtrip_unsigned (v : Int) (rest : Bytes) :
    (0 ≤ v → lebRead false (lebWriteLoop false v ++ rest) = .ok (v, rest)) ∧
    (v < 0 → lebWrite false v = .error .value) := by
  exact ⟨fun h => Lemmas.leb_roundtrip_read false v rest (fun _ => h), Lemmas.leb_write_neg v⟩

/-- LEB128 structure of the emitted bytes: every byte but the last has the continuation bit, the last does not; the reader
    stops exactly there. In particular the encoding is never empty. -/
theorem c05_leb_shape (s : Bool) (v : Int) (hv : s = false → 0 ≤ v) :
    ∃ init last, lebWriteLoop s v = init ++ [last] ∧ last.toNat < 128 ∧ ∀ b ∈ init, b.toNat ≥ 128 := by
  have _ := hv  -- not needed: the shape holds for every input of the loop
  exact Lemmas.leb_shape s v

/-- LEB128 canonicity: the writer's output is the shortest byte string that the reader decodes to the value
    (any other encoding of the same value is at least as long). -/
theorem c05_leb_minimal (s : Bool) (v : Int) (hv : s = false → 0 ≤ v) (bs : Bytes)
    (h : lebRead s bs = .ok (v, [])) : (lebWriteLoop s v).length ≤ bs.length := by
  have _ := hv  -- implied by `h`
  exact Lemmas.leb_minimal s v bs h

/-- A truncated LEB128 (every byte has the continuation bit) is an end-of-file error, never a value. -/
theorem c05_leb_truncated (s : Bool) (bs : Bytes) (h : ∀ b ∈ bs, b.toNat ≥ 128) : lebRead s bs = .error .eof := by
  exact Lemmas.leb_truncated s bs h

/-- the other byte order of a UTF-16 byte string: the two bytes of every 16-bit unit swapped -/
abbrev swapPairs : Bytes → Bytes := Lemmas.swapPairs

/-- wchar: encoding a well-formed string of UTF-16 code units and decoding the result returns the string, in either byte
    order, and the encoding has exactly two bytes per unit. -/
theorem c05_wchar_roundtrip (e : Endian) (us : List Nat) (hu : ∀ u ∈ us, u < 65536) (hw : utf16Ok us = true) :
    ∃ bs, encodeWchar e us = .ok bs ∧ bs.length = 2 * us.length ∧ decodeWchar e bs = .ok (.wstr us) := by
  exact Lemmas.wchar_roundtrip e us hu hw

/-- wchar: decoding then encoding returns the bytes ("the exact inverse"); what the decoder returns are 16-bit units,
    two bytes each. -/
theorem c05_wchar_roundtrip_bytes (e : Endian) (bs : Bytes) (us : List Nat) (h : decodeWchar e bs = .ok (.wstr us)) :
    encodeWchar e us = .ok bs ∧ bs.length = 2 * us.length ∧ ∀ u ∈ us, u < 65536 := by
  exact Lemmas.wchar_roundtrip_bytes e bs us h

/-- A lone surrogate is an encoding error, never a repaired or truncated string. -/
theorem c05_wchar_reject (e : Endian) (us : List Nat) (hw : utf16Ok us = false) : encodeWchar e us = .error .unicode := by
  exact Lemmas.wchar_reject e us hw

/-- An odd number of bytes is a decoding error, never a truncated string. -/
theorem c05_wchar_odd (e : Endian) (bs : Bytes) (h : bs.length % 2 = 1) : decodeWchar e bs = .error .unicode := by
  exact Lemmas.wchar_odd e bs h

/-- "In that byte order": the big-endian encoding is the little-endian one with the two bytes of every unit swapped. -/
theorem c05_wchar_byte_order (us : List Nat) (bsl bsb : Bytes) (hl : encodeWchar .little us = .ok bsl)
    (hb : encodeWchar .big us = .ok bsb) : bsb = swapPairs bsl := by
  exact Lemmas.wchar_byte_order us bsl bsb hl hb

def isPow2 (n : Nat) : Bool := n ≠ 0 && n &&& (n - 1) = 0

/-- The built-in type table as the code has it now: every type's `size` is the width of its class, every alignment is a
    power of two (void: 0), every alias resolves — in at most two steps, far below the limit of ten — to a type class, and
    the names every C programmer expects denote the standard widths and signedness. -/
theorem c05_type_table :
    (∀ p ∈ Gen.typeTable, match p.2 with
      | .type _ k sz al => sz = k.size ∧ (al = none ∧ sz = none ∨ al = some 0 ∧ k = .void ∨ ∃ a, al = some a ∧ isPow2 a = true)
      | .alias t => (resolveAux Gen.typeTable 2 t).isOk = true) ∧
    (∀ name k, (name, k) ∈ [("int8", Scalar.pint 1 true), ("uint8", .pint 1 false), ("int16", .pint 2 true),
        ("uint16", .pint 2 false), ("int32", .pint 4 true), ("uint32", .pint 4 false), ("int64", .pint 8 true),
        ("uint64", .pint 8 false), ("int24", .aint 3 true), ("uint24", .aint 3 false), ("int48", .aint 6 true),
        ("uint48", .aint 6 false), ("int128", .aint 16 true), ("uint128", .aint 16 false), ("float16", .pflt 2),
        ("float", .pflt 4), ("double", .pflt 8), ("char", .char), ("wchar", .wchar), ("uleb128", .leb false),
        ("ileb128", .leb true), ("void", .void), ("short", .pint 2 true), ("unsigned short", .pint 2 false),
        ("int", .pint 4 true), ("unsigned int", .pint 4 false), ("long long", .pint 8 true),
        ("unsigned long long", .pint 8 false), ("BYTE", .pint 1 false), ("WORD", .pint 2 false),
        ("DWORD", .pint 4 false), ("QWORD", .pint 8 false), ("uint32_t", .pint 4 false), ("int64_t", .pint 8 true),
        ("wchar_t", .wchar), ("signed char", .pint 1 true), ("unsigned char", .char)] →
      ∃ n sz al, resolve Gen.typeTable name = .ok (n, k, sz, al)) := by
  exact ⟨Lemmas.type_table_entries, Lemmas.type_table_names⟩

/-- The endianness tables: `<` is little endian, `>` and `!` are big endian, for integers and for UTF-16 alike. -/
theorem c05_endian_tables :
    Expr.lookup "<" Gen.endiannessMap = some (some .little) ∧ Expr.lookup ">" Gen.endiannessMap = some (some .big) ∧
    Expr.lookup "!" Gen.endiannessMap = some (some .big) ∧
    (∀ c ∈ ["<", ">", "!"], Expr.lookup c Gen.wcharEncodingMap = Expr.lookup c Gen.endiannessMap) := by
  exact Lemmas.endian_tables

/-! ### Non-vacuity -/
example : fits 3 true (-8388608) = true ∧ fits 3 true 8388608 = false := by decide
example : encodeInt .big 2 false 0x1234 = some [0x12, 0x34] := by decide
example : decodeInt .little true [0xff, 0xff, 0x7f] = 8388607 := by decide

example : encodeWchar .little [0x41, 0xD83D, 0xDE00] = .ok [0x41, 0x00, 0x3D, 0xD8, 0x00, 0xDE] ∧
    encodeWchar .big [0x41, 0xD83D, 0xDE00] = .ok [0x00, 0x41, 0xD8, 0x3D, 0xDE, 0x00] ∧
    swapPairs [0x41, 0x00, 0x3D, 0xD8, 0x00, 0xDE] = [0x00, 0x41, 0xD8, 0x3D, 0xDE, 0x00] ∧
    utf16Ok [0x41, 0xD83D, 0xDE00] = true ∧ (∀ u ∈ [0x41, 0xD83D, 0xDE00], u < 65536) := by decide +kernel
example : decodeWchar .little [0x41, 0x00, 0x3D, 0xD8, 0x00, 0xDE] = .ok (.wstr [0x41, 0xD83D, 0xDE00]) ∧
    decodeWchar .big [0x00, 0x41, 0xD8, 0x3D, 0xDE, 0x00] = .ok (.wstr [0x41, 0xD83D, 0xDE00]) := by
  exact ⟨rfl, rfl⟩  -- `Val` has no `DecidableEq`; both sides evaluate to the same term
example : utf16Ok [0x41, 0xD83D] = false ∧ utf16Ok [0xDE00, 0xD83D] = false ∧
    encodeWchar .big [0xDE00, 0xD83D] = .error .unicode := by decide +kernel
example : decodeWchar .little [0x3D, 0xD8] = .error .unicode ∧ decodeWchar .little [0x41, 0x00, 0x3D] = .error .unicode := by
  exact ⟨rfl, rfl⟩  -- `Val` has no `DecidableEq`; both sides evaluate to the same term

end Cstruct.C05
