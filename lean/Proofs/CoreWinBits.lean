/-
  The window theorems of `Proofs/Core.lean` WITHOUT the "no bit-fields" restriction.

  `Core.read_prefix` / `Core.read_window` assume `ty.noBits`. Here that hypothesis is replaced by `hbn`:
    packed mode  (`al = false`): nothing;
    aligned mode (`al = true`) : `ty.bitsAlignBy cfg g` for some function `g : Scalar → Nat` — the alignment of every
      bit-field is `g` of its storage scalar, i.e. fields that can share a storage unit are aligned alike.
  Every structure the library can define satisfies `hbn` with `g = Scalar.tableAlign` (the alignment is an attribute of the
  type object the bit buffer compares), int24/int48 storage (size ≠ alignment) included; `bitsNatural` (size = alignment,
  the hypothesis of the aligned round-trip theorems of `Proofs/CoreBits.lean`) is the special case `g s = s.size`.
  No hypothesis "the layout accepts the definition" (`defErr = none`) and no "static storage size" hypothesis is needed:
  a structure whose layout fails cannot be read (`read` computes the layout first), so `hr` excludes these cases.

  Proof idea (`Proofs/Lemmas/CoreWinBits0.lean` … `3.lean`): the member loop `readFields` is followed together with the
  layout `Fields.layout` from an ARBITRARY layout state and an ARBITRARY incoming bit buffer that agree
  (`Lemmas.WinBits.BInvW`): the reader is not ahead of a static running offset; the buffer's storage type is the layout's;
  and either the bits left agree, the running offset is the end of the unit and the unit's start is aligned (`Sync`) — then
  the layout opens a unit exactly when the reader loads one — or (`Desync`; aligned mode, alignment does not divide the
  size: int24/int48) the layout has opened a unit the reader did not load, and from then on opens one for EVERY further
  bit-field of the type, so the reader is always told where to seek. Either way the position never goes back. The unit
  is loaded by `readScalar` from the `size` bytes in front of the position the load leaves the stream at, so cutting the
  input anywhere at or after the final position loads the same unit (`loadUnit_take`); `BitBuf.take` is a function of the
  unit. Members that are not bit-fields, arrays, scalars reuse `Proofs/Lemmas/CoreWin.lean`.

  `hbn` cannot simply be dropped in aligned mode: the model-level statement is FALSE for `cex` below, where ONE storage
  scalar is declared with three different alignments (no cstruct definition yields such a type).
-/
import Proofs.Core
import Proofs.CoreBits
import Proofs.C09Shift
import Proofs.Spec.CoreWinBits
import Proofs.Lemmas.CoreWinBits3
import Proofs.Lemmas.CoreWinBitsEx

namespace Cstruct.Core
open Cstruct

/-- **Prefix (window) theorem, bit-fields included.** The statement of `read_prefix` with `ty.noBits` replaced by `hbn`:
    nothing in packed mode; in aligned mode the alignment of a bit-field is a function `g` of its storage scalar.
    If parsing succeeds on `d1` and ends at `p`, it succeeds with the very same value and end position on every input
    that starts with the first `p` bytes of `d1`. -/
theorem read_prefix_bits (cfg : Cfg) (al : Bool) (g : Scalar → Nat) (ty : Ty) (hplain : ty.plain = true)
    (hbn : al = true → ty.bitsAlignBy cfg g = true)
    (hu : ty.uniformAlign al = true) (hp : ty.pow2Aligned cfg) (ctx : Ctx) (d1 : Bytes) (pos : Nat)
    (hal : ty.alignsDivide cfg pos = true) (v : Val) (p : Nat)
    (hr : read cfg ty ctx d1 pos = .ok (v, p)) (d2 : Bytes) (hpre : d1.take p <+: d2) :
    read cfg ty ctx d2 pos = .ok (v, p) :=
  Lemmas.WinBits.read_prefix_bits_by cfg al g ty hplain hbn hu hp ctx d1 pos hal v p hr d2 hpre

/-- **Window corollary, bit-fields included**: the result depends on nothing after the end position. -/
theorem read_window_bits (cfg : Cfg) (al : Bool) (g : Scalar → Nat) (ty : Ty) (hplain : ty.plain = true)
    (hbn : al = true → ty.bitsAlignBy cfg g = true)
    (hu : ty.uniformAlign al = true) (hp : ty.pow2Aligned cfg) (ctx : Ctx) (d1 : Bytes) (pos : Nat)
    (hal : ty.alignsDivide cfg pos = true) (v : Val) (p : Nat)
    (hr : read cfg ty ctx d1 pos = .ok (v, p)) (post : Bytes) :
    read cfg ty ctx (d1.take p ++ post) pos = .ok (v, p) :=
  read_prefix_bits cfg al g ty hplain hbn hu hp ctx d1 pos hal v p hr _ (List.prefix_append _ _)

/-- packed mode: no bit-field side condition at all -/
theorem read_prefix_bits_packed (cfg : Cfg) (ty : Ty) (hplain : ty.plain = true) (hu : ty.uniformAlign false = true)
    (hp : ty.pow2Aligned cfg) (ctx : Ctx) (d1 : Bytes) (pos : Nat) (hal : ty.alignsDivide cfg pos = true) (v : Val) (p : Nat)
    (hr : read cfg ty ctx d1 pos = .ok (v, p)) (d2 : Bytes) (hpre : d1.take p <+: d2) :
    read cfg ty ctx d2 pos = .ok (v, p) :=
  read_prefix_bits cfg false (fun _ => 0) ty hplain (fun h => by cases h) hu hp ctx d1 pos hal v p hr d2 hpre

/-- the side condition as a Boolean (`Ty.winBits`, decidable by evaluation) -/
theorem read_window_bits' (cfg : Cfg) (al : Bool) (g : Scalar → Nat) (ty : Ty) (hplain : ty.plain = true)
    (hbn : ty.winBits cfg al g = true)
    (hu : ty.uniformAlign al = true) (hp : ty.pow2Aligned cfg) (ctx : Ctx) (d1 : Bytes) (pos : Nat)
    (hal : ty.alignsDivide cfg pos = true) (v : Val) (p : Nat)
    (hr : read cfg ty ctx d1 pos = .ok (v, p)) (post : Bytes) :
    read cfg ty ctx (d1.take p ++ post) pos = .ok (v, p) :=
  read_window_bits cfg al g ty hplain ((Ty.winBits_iff cfg al g ty).1 hbn) hu hp ctx d1 pos hal v p hr post

/-- the instance for definitions over the built-in type table (`g` = its alignment column) -/
theorem read_window_bits_table (cfg : Cfg) (al : Bool) (ty : Ty) (hplain : ty.plain = true)
    (hbn : al = true → ty.bitsAlignBy cfg Scalar.tableAlign = true)
    (hu : ty.uniformAlign al = true) (hp : ty.pow2Aligned cfg) (ctx : Ctx) (d1 : Bytes) (pos : Nat)
    (hal : ty.alignsDivide cfg pos = true) (v : Val) (p : Nat)
    (hr : read cfg ty ctx d1 pos = .ok (v, p)) (post : Bytes) :
    read cfg ty ctx (d1.take p ++ post) pos = .ok (v, p) :=
  read_window_bits cfg al Scalar.tableAlign ty hplain hbn hu hp ctx d1 pos hal v p hr post

/-- `bitsNatural` (storage size = alignment) is the instance `g s = s.size` -/
theorem bitsAlignBy_of_bitsNatural (cfg : Cfg) : ∀ ty : Ty, ty.bitsNatural cfg = true →
    ty.bitsAlignBy cfg (fun s => s.size.getD 0) = true := by
  intro ty
  exact (Ty.rec (motive_1 := fun ty => ty.bitsNatural cfg = true → ty.bitsAlignBy cfg (fun s => s.size.getD 0) = true)
    (motive_2 := fun fs => Fields.bitsNatural cfg fs = true → Fields.bitsAlignBy cfg (fun s => s.size.getD 0) fs = true)
    (fun _ _ _ => rfl) (fun _ _ _ _ => rfl) (fun _ _ _ => rfl)
    (fun e _ ih h => by simp only [Ty.bitsNatural] at h; simp only [Ty.bitsAlignBy]; exact ih h)
    (fun _ fs ih h => by simp only [Ty.bitsNatural] at h; simp only [Ty.bitsAlignBy]; exact ih h)
    (fun _ fs ih h => by simp only [Ty.bitsNatural] at h; simp only [Ty.bitsAlignBy]; exact ih h)
    (fun _ => rfl)
    (fun n an t bits r iht ihr h => by
      simp only [Fields.bitsNatural, Bool.and_eq_true] at h
      rcases bits with _ | _ | b
      · simp only [Fields.bitsAlignBy, Bool.and_eq_true]; exact ⟨iht h.1, ihr h.2⟩
      · simp only [Fields.bitsAlignBy, Bool.and_eq_true]; exact ⟨iht h.1, ihr h.2⟩
      · simp only [Fields.bitsAlignBy, Bool.and_eq_true]
        refine ⟨?_, ihr h.2⟩
        cases hb : t.bitBase with
        | none => rfl
        | some s =>
          have h1 := h.1
          rw [hb] at h1
          simp only [beq_iff_eq] at h1 ⊢
          rw [h1]; rfl) ty)

/-- a type without bit-fields satisfies the side condition for every `g`: `read_prefix` is the special case -/
theorem bitsAlignBy_of_noBits (cfg : Cfg) (g : Scalar → Nat) : ∀ ty : Ty, ty.noBits = true → ty.bitsAlignBy cfg g = true := by
  intro ty
  exact (Ty.rec (motive_1 := fun ty => ty.noBits = true → ty.bitsAlignBy cfg g = true)
    (motive_2 := fun fs => Fields.noBits fs = true → Fields.bitsAlignBy cfg g fs = true)
    (fun _ _ _ => rfl) (fun _ _ _ _ => rfl) (fun _ _ _ => rfl)
    (fun e _ ih h => by simp only [Ty.noBits] at h; simp only [Ty.bitsAlignBy]; exact ih h)
    (fun _ fs ih h => by simp only [Ty.noBits] at h; simp only [Ty.bitsAlignBy]; exact ih h)
    (fun _ fs ih h => by simp only [Ty.noBits] at h; simp only [Ty.bitsAlignBy]; exact ih h)
    (fun _ => rfl)
    (fun n an t bits r iht ihr h => by
      simp only [Fields.noBits, Bool.and_eq_true] at h
      rcases bits with _ | _ | b
      · simp only [Fields.bitsAlignBy, Bool.and_eq_true]; exact ⟨iht h.1.2, ihr h.2⟩
      · simp only [Fields.bitsAlignBy, Bool.and_eq_true]; exact ⟨iht h.1.2, ihr h.2⟩
      · simp at h) ty)

/-- the window theorem under the hypothesis of the aligned round-trip theorems (`bitsNatural`) -/
theorem read_window_bits_natural (cfg : Cfg) (al : Bool) (ty : Ty) (hplain : ty.plain = true)
    (hbn : al = true → ty.bitsNatural cfg = true)
    (hu : ty.uniformAlign al = true) (hp : ty.pow2Aligned cfg) (ctx : Ctx) (d1 : Bytes) (pos : Nat)
    (hal : ty.alignsDivide cfg pos = true) (v : Val) (p : Nat)
    (hr : read cfg ty ctx d1 pos = .ok (v, p)) (post : Bytes) :
    read cfg ty ctx (d1.take p ++ post) pos = .ok (v, p) :=
  read_window_bits cfg al _ ty hplain (fun ha => bitsAlignBy_of_bitsNatural cfg ty (hbn ha)) hu hp ctx d1 pos hal v p hr post

/-- **Where a successful read ends (bit-fields included).** Under the hypotheses of the window theorem the end position is
    at most start + declared size; with `bitsNatural` in aligned mode (always in packed mode) it is exactly that
    (`read_end_eq_bits`). For int24/int48 bit-fields in aligned mode the reader can stop short of the declared size
    (`short24` below: size 8, read to position 4) — the recorded layout/reader disagreement, to which the window theorem
    is insensitive. -/
theorem read_end_le_bits (cfg : Cfg) (al : Bool) (g : Scalar → Nat) (ty : Ty) (hplain : ty.plain = true)
    (hbn : al = true → ty.bitsAlignBy cfg g = true) (hu : ty.uniformAlign al = true) (hp : ty.pow2Aligned cfg) (ctx : Ctx)
    (d : Bytes) (pos : Nat) (hal : ty.alignsDivide cfg pos = true) (v : Val) (p : Nat)
    (hr : read cfg ty ctx d pos = .ok (v, p)) : pos ≤ p ∧ ∀ k, ty.size cfg = some k → p ≤ pos + k := by
  obtain ⟨h1, _, h3⟩ := (Lemmas.WinBits.ptw_ty cfg al g d ty hplain hu hp hbn).1 ctx pos v p hr
    (fun _ => Lemmas.sAlign_dvd_of_alignsDivide cfg pos ty hal)
  exact ⟨h1, h3⟩

theorem read_end_eq_bits (cfg : Cfg) (al : Bool) (ty : Ty) (hplain : ty.plain = true)
    (hbn : al = true → ty.bitsNatural cfg = true) (hu : ty.uniformAlign al = true) (hp : ty.pow2Aligned cfg) (ctx : Ctx)
    (d : Bytes) (pos : Nat) (hal : ty.alignsDivide cfg pos = true) (v : Val) (p : Nat)
    (hr : read cfg ty ctx d pos = .ok (v, p)) : pos ≤ p ∧ ∀ k, ty.size cfg = some k → p = pos + k := by
  obtain ⟨h1, _, h3⟩ := (Lemmas.WinBits.pt_ty cfg al d ty hplain hu hp hbn).1 ctx pos v p hr
    (fun _ => Lemmas.sAlign_dvd_of_alignsDivide cfg pos ty hal)
  exact ⟨h1, h3⟩

/-! ### Non-vacuity
  Packed, little endian: `struct { int8 a:3; int8 b:5; uint16 c:4; uint16 d:12; uint8 e; }` (`Ex.tyA`): two bit-field units
  of different storage types followed by a scalar. Aligned, big endian: `struct { uint8 a:3; uint16 b:4; uint16 c:12;
  uint8 e; }` (`Ex.tyG`): the second unit behind a byte of padding, one byte of tail padding. Aligned, little endian,
  int24 storage: `struct { uint24 a:8; uint24 b:8; uint8 e; }` (`Ex24.ty24`). -/
open Ex in
theorem ex_read_packed (post : Bytes) (ctx : Ctx) :
    read cfgL tyA ctx ([253, 201, 171, 7] ++ post) 0 = .ok (.record vsA, 4) := by
  have h := roundtrip_SB_packed cfgL tyA (by decide +kernel) (by decide +kernel) (.record vsA)
    (.struct (.bitsInt (by decide) (by decide) (.bitsInt (by decide) (by decide) (.bitsInt (by decide) (by decide)
      (.bitsInt (by decide) (by decide) (.cons (.int rfl (by decide)) .nil))))))
    0 _ ex_write [] post rfl ctx
  simpa using h
open Ex in
theorem ex_read_aligned (post : Bytes) (ctx : Ctx) :
    read cfgBE tyG ctx ([0xA0, 0, 0x9A, 0xBC, 7, 0] ++ post) 0 = .ok (.record wsA, 6) := by
  have h := roundtrip_SB cfgBE true tyG (by decide +kernel) (by decide +kernel)
    ⟨Or.inr ⟨0, rfl⟩, Or.inr ⟨1, rfl⟩, Or.inr ⟨1, rfl⟩, Or.inr ⟨0, rfl⟩, trivial⟩ (fun _ => by decide +kernel)
    (by decide +kernel) (.record wsA)
    (.struct (.bitsInt (by decide) (by decide) (.bitsInt (by decide) (by decide) (.bitsInt (by decide) (by decide)
      (.cons (.int rfl (by decide)) .nil)))))
    0 (by decide +kernel) _ ex_write_al [] post rfl ctx
  simpa using h
-- the decidable hypotheses of `read_window_bits` hold for the three types (by `decide +kernel`)
open Ex in
example : tyA.plain = true ∧ tyA.noBits = false ∧ tyA.uniformAlign false = true ∧ tyA.alignsDivide cfgL 0 = true ∧
    tyA.winBits cfgL false Scalar.tableAlign = true := by decide +kernel
open Ex in
example : tyG.plain = true ∧ tyG.noBits = false ∧ tyG.uniformAlign true = true ∧ tyG.alignsDivide cfgBE 0 = true ∧
    tyG.bitsNatural cfgBE = true ∧ tyG.bitsAlignBy cfgBE Scalar.tableAlign = true ∧
    tyG.winBits cfgBE true Scalar.tableAlign = true := by decide +kernel
open Ex24 in
example : ty24.plain = true ∧ ty24.noBits = false ∧ ty24.uniformAlign true = true ∧ ty24.alignsDivide cfgL 0 = true ∧
    ty24.bitsNatural cfgL = false ∧ ty24.bitsAlignBy cfgL Scalar.tableAlign = true ∧ ty24.defErr cfgL = none ∧
    ty24.size cfgL = some 8 := by decide +kernel
-- the theorem applied: whatever follows the bytes in the input the value was parsed from (`junk`), the consumed bytes
-- followed by anything else (`post`) parse to the same value
open Ex in
example (junk post : Bytes) (ctx : Ctx) :
    read cfgL tyA ctx (([253, 201, 171, 7] ++ junk).take 4 ++ post) 0 = .ok (.record vsA, 4) :=
  read_window_bits cfgL false Scalar.tableAlign tyA (by decide +kernel) (fun h => by cases h) (by decide +kernel)
    ⟨Or.inr ⟨0, rfl⟩, Or.inr ⟨0, rfl⟩, Or.inr ⟨1, rfl⟩, Or.inr ⟨1, rfl⟩, Or.inr ⟨0, rfl⟩, trivial⟩ ctx _ 0 (by decide +kernel)
    _ _ (ex_read_packed junk ctx) post
open Ex in
example (junk post : Bytes) (ctx : Ctx) :
    read cfgBE tyG ctx (([0xA0, 0, 0x9A, 0xBC, 7, 0] ++ junk).take 6 ++ post) 0 = .ok (.record wsA, 6) :=
  read_window_bits cfgBE true Scalar.tableAlign tyG (by decide +kernel) (fun _ => by decide +kernel) (by decide +kernel)
    ⟨Or.inr ⟨0, rfl⟩, Or.inr ⟨1, rfl⟩, Or.inr ⟨1, rfl⟩, Or.inr ⟨0, rfl⟩, trivial⟩ ctx _ 0 (by decide +kernel)
    _ _ (ex_read_aligned junk ctx) post
open Ex24 in
example (junk post : Bytes) (ctx : Ctx) :
    read cfgL ty24 ctx (([1, 2, 3, 4, 5, 6, 7, 8] ++ junk).take 8 ++ post) 0 = .ok (val24, 8) :=
  read_window_bits cfgL true Scalar.tableAlign ty24 (by decide +kernel) (fun _ => by decide +kernel) (by decide +kernel)
    ⟨Or.inr ⟨2, rfl⟩, Or.inr ⟨2, rfl⟩, Or.inr ⟨0, rfl⟩, trivial⟩ ctx _ 0 (by decide +kernel)
    _ _ (ex_read24 junk ctx) post

-- aligned `struct { uint24 a:8; uint24 b:8; }`: declared size 8 (two units, at 0 and 4), but the reader takes both fields
-- from the unit at 0 and stops at 4: `read_end_le_bits` cannot be an equality for int24 storage
def short24 : Ty := .struct true (.cons "a" false Ex24.u24 (some 8) (.cons "b" false Ex24.u24 (some 8) .nil))
#guard short24.size Ex24.cfgL = some 8
#guard (read Ex24.cfgL short24 [] Ex24.dat 0).map (·.2) = .ok 4

/-! ### The aligned-mode side condition cannot simply be dropped (model level)
  `cex` := aligned `struct { char c0, c1, c2; T1 a:8; T2 b:8; T4 c:32; T4 d:8; char e[0]; }` where `Tk` is the 6-byte
  unsigned integer `.aint 6 false` declared with alignment `k` — ONE storage scalar under three alignments. Little endian,
  input = the 24 bytes 1, 2, …, 24.
  Layout: offsets [0, 1, 2, 3, 10, ·, ·, 16], size 16, alignment 4 (`a` opens a unit at 3; re-aligning its end 9 to 2 gives
  10 > 9, so `b` opens a second unit at 10, end 16; `c`, `d` continue it: 16 is a multiple of 4). Reader: loads bytes 3..8
  for `a`, seeks to 10 for `b` WITHOUT loading (32 bits are left of the same storage type), pads 10 to 12 for `c` and uses
  up the unit, pads 12 to 12 for `d` and loads bytes 12..17, then seeks BACK to offset 16 for `e` and stops there.
  Result: `.ok (_, 16)` although byte 17 was consumed; on the first 16 (17) bytes alone: `EOFError`.
  `cex` satisfies every hypothesis of `read_prefix_bits` except `hbn` (it is plain, one align flag, alignments powers of
  two, start 0, and the layout accepts it); no `g` works since `g (.aint 6 false)` would have to be 1, 2 and 4. No cstruct
  definition yields such a type: the alignment is an attribute of the type object that the bit buffer compares
  (`self._type != field_type`), so fields sharing a unit share the alignment. -/
def cexT (k : Nat) : Ty := .sc (.aint 6 false) k
def cexC : Ty := .sc .char 1
def cex : Ty := .struct true (.cons "c0" false cexC none (.cons "c1" false cexC none (.cons "c2" false cexC none
  (.cons "a" false (cexT 1) (some 8) (.cons "b" false (cexT 2) (some 8) (.cons "c" false (cexT 4) (some 32)
  (.cons "d" false (cexT 4) (some 8) (.cons "e" false (.arr cexC (.fixed 0)) none .nil))))))))
def cexData : Bytes := (List.range 24).map (fun i => UInt8.ofNat (i + 1))
def endOf (r : Except Err (Val × Nat)) : Except Err Nat := r.map (·.2)

example : cex.plain = true ∧ cex.uniformAlign true = true ∧ cex.alignsDivide Ex.cfgL 0 = true ∧ cex.defErr Ex.cfgL = none ∧
    cex.bitsNatural Ex.cfgL = false ∧ cex.bitsAlignBy Ex.cfgL Scalar.tableAlign = false ∧
    structLayout Ex.cfgL true (match cex with | .struct _ fs => fs | _ => .nil) =
      .ok (some 16, 4, [some 0, some 1, some 2, some 3, some 10, none, none, some 16]) := by decide +kernel
#guard endOf (read Ex.cfgL cex [] cexData 0) = .ok 16
#guard endOf (read Ex.cfgL cex [] (cexData.take 16) 0) = .error .eof
#guard endOf (read Ex.cfgL cex [] (cexData.take 17) 0) = .error .eof
#guard endOf (read Ex.cfgL cex [] (cexData.take 18) 0) = .ok 16

end Cstruct.Core

namespace Cstruct.C09
open Cstruct Cstruct.Core

/-- **Nothing after the encoded extent matters, bit-fields included** (`c09_after_extent` without `noBits`). -/
theorem c09_after_extent_bits (cfg : Cfg) (al : Bool) (g : Scalar → Nat) (ty : Ty) (hplain : ty.plain = true)
    (hbn : al = true → ty.bitsAlignBy cfg g = true) (hu : ty.uniformAlign al = true) (hp : ty.pow2Aligned cfg) (ctx : Ctx)
    (d : Bytes) (pos : Nat) (hal : ty.alignsDivide cfg pos = true) (v : Val) (p : Nat)
    (hr : read cfg ty ctx d pos = .ok (v, p)) (post : Bytes) :
    read cfg ty ctx (d.take p ++ post) pos = .ok (v, p) :=
  read_window_bits cfg al g ty hplain hbn hu hp ctx d pos hal v p hr post

/-- **Position independence for types with bit-fields**: reading at position `|pre|` of `pre ++ w ++ post` is reading
    `w ++ post` at 0, shifted by `|pre|` — the same value or the same error. (This is `c09_shift`, whose proof already
    covers bit-fields: the unit is loaded from the shifted position, `BitBuf.take` does not see positions; no
    side condition on bit-fields needed.) -/
theorem c09_shift_bits (cfg : Cfg) (al : Bool) (ty : Ty) (hplain : ty.plain = true) (hu : ty.uniformAlign al = true)
    (hp : ty.pow2Aligned cfg) (ctx : Ctx) (pre w post : Bytes)
    (hal : al = true → ty.alignsDivide cfg pre.length = true) :
    read cfg ty ctx (pre ++ w ++ post) pre.length = shiftRes pre.length (read cfg ty ctx (w ++ post) 0) := by
  have h := c09_shift cfg al ty hplain hu hp ctx pre (w ++ post) 0 hal
  rw [Nat.add_zero, ← List.append_assoc] at h
  exact h

/-- **Embedded window, bit-fields included**: if `d` parses (from position 0) to `v` ending at `p`, then the first `p`
    bytes of `d`, embedded after any `pre` whose length is a multiple of the alignments of the type and before any `post`,
    parse at position `|pre|` to the same `v` and leave the stream at `|pre| + p`. -/
theorem c09_embedded_window_bits (cfg : Cfg) (al : Bool) (g : Scalar → Nat) (ty : Ty) (hplain : ty.plain = true)
    (hbn : al = true → ty.bitsAlignBy cfg g = true) (hu : ty.uniformAlign al = true) (hp : ty.pow2Aligned cfg) (ctx : Ctx)
    (pre d post : Bytes) (hal : ty.alignsDivide cfg pre.length = true) (v : Val) (p : Nat)
    (hr : read cfg ty ctx d 0 = .ok (v, p)) :
    read cfg ty ctx (pre ++ d.take p ++ post) pre.length = .ok (v, pre.length + p) := by
  have h1 : read cfg ty ctx (pre ++ d) pre.length = .ok (v, pre.length + p) := by
    have h := c09_shift cfg al ty hplain hu hp ctx pre d 0 (fun _ => hal)
    rw [Nat.add_zero, hr] at h
    exact h
  have h2 := read_window_bits cfg al g ty hplain hbn hu hp ctx (pre ++ d) pre.length hal v _ h1 post
  rw [List.take_append, List.take_of_length_le (by omega), Nat.add_sub_cancel_left] at h2
  exact h2

end Cstruct.C09
