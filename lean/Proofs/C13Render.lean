/-
  C13 — the round trip that makes the parser model complete on well-formed input: every well-formed declaration list `ds` is the
  declaration list of its canonical text, and of every other layout of that text.

  * `c13_parse_render_partial` — `WFDecls ds` (= `wfDecls ds`, and the rendered text has neither quotes nor slashes) →
                             `parseDecls (renderDecls ds) = (ds, none)`.
                             `wfDecls` (Proofs/Spec/C13Render.lean, decidable) covers: `#define`, `#[flags]`, enum / flag with base
                             type and members (name, optional value text), typedef of a named / `struct tag` / inline struct or union
                             type with ONE declarator (pointer depth, array dimensions), top-level struct / union with or without tag,
                             members of named, `struct tag` and inline aggregate types with declarators incl. bit-fields and several
                             dimensions, anonymous nested aggregates, a name list behind `}`.
  * `c13_parse_any_layout` — with `c13_parse_layout_independent`: every text whose comment-stripped form has the lexemes of
                             `renderDecls ds` up to `lexSim`, with ANY admissible separators between the lexemes (and with comments
                             anywhere a blank may stand, by the comment theorems of Proofs/C13Parse.lean), parses to exactly `ds`.
                             (The spacing INSIDE a declarator, a name list and a `#define` line is part of the lexeme and is the
                             canonical one here; inside an enum head it is free, `lexSim`.)
  The parts: the member loop of `_struct`, `_parse_field` and `_struct` on rendered aggregates (`structH_oA`, `fieldsH_oFs`,
  `fieldH_oF`: mutual induction over the nested declaration types), the declarator round trip (`parseDeclarator_declrLex`: stars,
  `][`-joined dimensions, decimal bit width), the enum member splitting (`enumMembers_render`), the name list (`split_moreText`),
  admissibility of the rendered lexemes (`adm_lexDecls`), the observed tokens (`obsDecls`).

  NOT covered (this is the `_partial` in the name of the general statement below): `$lookup` declarations; members and typedefs
  without a type; typedefs with a name list (`typedef struct {...} a, b;`) or without a name; declared names behind `}` that are
  declarators rather than plain names (`} *p, a[2];`); texts containing quotes or `/` (count expressions with a division): for these
  the comment scanner would have to be carried through the rendering — the hypothesis `plainText (renderDecls ds)` states it.
-/
import Proofs.C13Parse
import Proofs.Lemmas.C13RenderH

namespace Cstruct.DefParser.C13
open Cstruct Cstruct.Parser Cstruct.DefParser

theorem strip_renderDecls (ds : List Decl) (hp : plainText (renderDecls ds) = true) :
    Parser.strip (renderDecls ds) = render (lexDecls ds) := by
  have hc : ∀ c ∈ renderDecls ds, c ≠ '"' ∧ c ≠ '\'' ∧ c ≠ '/' := by
    simp only [plainText, List.all_eq_true, Bool.and_eq_true, bne_iff_ne, ne_eq] at hp
    exact fun c hc => ⟨(hp c hc).1.1, (hp c hc).1.2, (hp c hc).2⟩
  exact strip_closed none _ _ (closed_plain none none _ hc)

-- the full statement would be:  ∀ ds, WF ds → parseDecls (renderDecls ds) = (ds, none)  for EVERY declaration list the parser can
-- produce; `wfDecls` is the fragment described in the header (see "NOT covered")
theorem c13_parse_render_partial (ds : List Decl) (hwf : WFDecls ds = true) : parseDecls (renderDecls ds) = (ds, none) := by
  obtain ⟨h, hp⟩ : wfDecls ds = true ∧ plainText (renderDecls ds) = true := by simpa [WFDecls] using hwf
  have hadm := adm_lexDecls ds h
  have hscan : scan (render (lexDecls ds)) = toks (lexDecls ds) := by
    have := scan_lead [] (lexDecls ds) rfl hadm
    simpa using this
  rw [parseDecls_eq, strip_renderDecls ds hp, hscan]
  have hobs := obsDecls ds h
  simp only [obsOf] at hobs
  simp only [parseToks, hobs]
  exact declsH_oDs ds h _ (by rw [← hobs]; simp)

/-- every layout of the canonical text parses to the same declarations -/
theorem c13_parse_any_layout (ds : List Decl) (hwf : WFDecls ds = true)
    (t w : List Char) (l : List (Lexeme × List Char)) (ht : Parser.strip t = w ++ render l) (hw : blank w = true)
    (hl : adm false l = true) (hs : simLexemes l (lexDecls ds) = true) : parseDecls t = (ds, none) := by
  obtain ⟨h, hp⟩ : wfDecls ds = true ∧ plainText (renderDecls ds) = true := by simpa [WFDecls] using hwf
  rw [← c13_parse_render_partial ds hwf]
  exact c13_parse_layout_independent t (renderDecls ds) w [] l (lexDecls ds) ht (by simpa using strip_renderDecls ds hp) hw rfl hl
    (adm_lexDecls ds h) hs

-- ------------------------------------------------------------------------------------------------ non-vacuity
namespace ExampleR
def S (s : String) : List Char := s.toList
def d1 (n : String) (p : Nat) (dims : List String) (b : Option Nat) : Declarator := ⟨p, S n, dims.map S, b⟩
def inner : Aggr := .mk true (some (S "U")) [.named (.name (S "uint16")) (d1 "k" 0 ["2", "n + 1"] none),
  .anon (.inline (.mk false none [.named (.name (S "uint8")) (d1 "z" 0 [] (some 12))] []))] []
def sample : List Decl := [
  .const (S "N") (S "(1 + 2)"),
  .config [S "nocompile", S "x"],
  .enum false (S "E") (S "unsigned short") [(S "A", some (S "1")), (S "B", none), (S "C", some (S "A + 2"))],
  .enum true [] (S "uint32") [],
  .typedef (.name (S "unsigned long long")) [d1 "PU" 2 [] none],
  .typedef (.inline inner) [d1 "T" 1 ["4"] none],
  .typedef (.structRef (S "U")) [d1 "V" 0 [""] none],
  .aggr (.mk false (some (S "S")) [.named (.name (S "uint8")) (d1 "a" 0 [] (some 3)), .named (.inline inner) (d1 "in" 0 ["2"] none),
     .named (.structRef (S "U")) (d1 "r" 1 [] none), .named (.name (S "char")) (d1 "s" 0 ["2", ""] none)] [S "s1", S "s2", S "s3"]),
  .aggr (.mk true none [] [S "only"]),
  .aggr (.mk false (some (S "Z")) [] [])]

example : WFDecls sample = true := by decide +kernel
example : String.ofList (renderDecls sample) =
  "#define N (1 + 2)\n#[nocompile,x]\nenum E : unsigned short { A = 1, B, C = A + 2 };\nflag : uint32 { };\ntypedef unsigned long long **PU;\ntypedef union U { uint16 k[2][n + 1]; struct { uint8 z:12; } ; } *T[4];\ntypedef struct U V[];\nstruct S { uint8 a:3; union U { uint16 k[2][n + 1]; struct { uint8 z:12; } ; } in[2]; struct U *r; char s[2][]; } s1, s2, s3;\nunion { } only;\nstruct Z { } ;\n" := by
  decide +kernel
example : parseDecls (renderDecls sample) = (sample, none) :=
  c13_parse_render_partial sample (by decide +kernel)
-- another layout of a part of it, with comments as separators: by `c13_parse_any_layout`
def two : List Decl := [.const (S "N") (S "4"), .aggr (.mk false (some (S "S")) [.named (.name (S "unsigned int")) (d1 "a" 1 ["N"] none)] [S "s1", S "s2"])]
def twoL : List (Lexeme × List Char) := [(.define (S " ") (S "N") (S " ") (S "4"), S "\n\n"), (.struct false, S " "), (.ident (S "S"), S " "), (.lbrace, []),
  (.ident (S "unsigned"), S " "), (.ident (S "int"), S " "), (.name ['*'] (S "a") none (some (S "N")), S " "), (.semi, []), (.rbrace, []),
  (.defs (S " ") (S "s1") [([], S " ", S "s2")], S "\n"), (.semi, [])]
example : parseDecls (S "#define N 4\n\nstruct/* the */S {unsigned/**/int *a[N] ;} s1, s2\n;") = (two, none) :=
  c13_parse_any_layout two (by decide +kernel) _ [] twoL (by decide +kernel) rfl (by decide +kernel) (by decide +kernel)
end ExampleR

end Cstruct.DefParser.C13

#print axioms Cstruct.DefParser.C13.c13_parse_render_partial
#print axioms Cstruct.DefParser.C13.c13_parse_any_layout
