import CstructModel.Call

/-!
# C09 / C11 / C18 — the class call: which calls parse, which construct

`T(x)`, `T.read(x)`, `T.reads(x)` "all give the same result" (C09) rests on the metaclass dispatch sending every buffer to
`reads` and every readable to `_read`; the two shortcuts are the only exceptions, and they fire only for a `bytes` object of
exactly the size of a lone char member (structure) or of the char type itself. A union treats exactly the parsed forms as
parsed (C11: a parsed union is never rebuilt from its first member); everything is decided from the class as it is NOW
(C18: a structure that once had a single char field and was extended no longer takes the shortcut).
The model is `CstructModel/Call.lean`; it is tied to the code by the `callroute` correspondence (harness/v9_c09call.py).
-/

namespace Cstruct.Call.C09
open Cstruct.Call

/-- **A readable argument is read, a bytearray / memoryview is parsed - for every structure or union class, whatever its
    fields and whatever keywords accompany it.** -/
theorem c09_call_stream_and_buffer (c : Cls) (nkw : Nat) :
    structCall c [.readable] nkw = .read ∧ structCall c [.buffer] nkw = .reads := by
  rcases hf : c.fields with _ | ⟨f, _ | ⟨g, r⟩⟩ <;> simp [structCall, metaCall, hf]

/-- **A `bytes` argument is parsed unless the structure shortcut applies**, and the shortcut applies exactly when the class
    has ONE field, that field's type is a bytes type, it is not a bit-field, it is not placed at an explicit non-zero offset
    (fix F86) and its size is the length of the argument
    (for a structure class, which is not itself a bytes subclass). -/
theorem c09_call_bytes (c : Cls) (hc : c.isBytes = false) (n nkw : Nat) :
    (structCall c [.bytes n] nkw = .shortcutStruct ↔ ∃ f, c.fields = [f] ∧ f.isBytes = true ∧ f.bits = false ∧ f.offset = false ∧ f.size = some n) ∧
    (structCall c [.bytes n] nkw ≠ .shortcutStruct → structCall c [.bytes n] nkw = .reads) := by
  rcases hf : c.fields with _ | ⟨f, _ | ⟨g, r⟩⟩
  · simp [structCall, metaCall, hf, hc]
  · by_cases h : f.isBytes = true ∧ f.bits = false ∧ f.offset = false ∧ f.size = some n
    · simp [structCall, hf, h]
    · have h' : ¬ (f.isBytes = true ∧ f.bits = false ∧ f.offset = false ∧ f.size = some n) := h
      simp only [structCall, hf, h, if_false, metaCall, hc]
      simp only [List.cons.injEq, and_true]
      constructor
      · constructor
        · intro hm; simp at hm
        · rintro ⟨g, rfl, h1, h2, h3, h4⟩; exact absurd ⟨h1, h2, h3, h4⟩ h'
      · intro _; simp
  · simp [structCall, metaCall, hf, hc]

/-- **The shortcut needs exactly one field** (so a structure that passed through a one-char-field state and was extended
    parses `T(bytes)` like the structure declared in one piece: the decision looks at the field list as it is now). -/
theorem c18_shortcut_one_field (c : Cls) (args : List Arg) (nkw : Nat) (h : c.fields.length ≠ 1) :
    structCall c args nkw ≠ .shortcutStruct := by
  have hm : ∀ args, metaCall c args ≠ .shortcutStruct := by
    intro args
    unfold metaCall
    rcases args with _ | ⟨a, _ | ⟨b, r⟩⟩
    · simp
    · cases a <;> simp <;> (try split) <;> simp
    · simp
  rcases hf : c.fields with _ | ⟨f, _ | ⟨g, r⟩⟩
  · rcases args with _ | ⟨a, r⟩
    · simp only [structCall, hf]; split <;> simp
    · simpa [structCall, hf] using hm (a :: r)
  · simp [hf] at h
  · rcases args with _ | ⟨a, r⟩
    · simp only [structCall, hf]; split <;> simp
    · simpa [structCall, hf] using hm (a :: r)

/-- **No argument at all gives the default instance; keywords alone give the value constructor.** -/
theorem c17_call_no_args (c : Cls) (nkw : Nat) :
    structCall c [] nkw = (if nkw = 0 then .default_ else .init) := by
  rcases hf : c.fields with _ | ⟨f, _ | ⟨g, r⟩⟩ <;> simp [structCall, hf]

/-- **A union made from a parsed form is left as parsed** (never rebuilt from its first member): one buffer or readable
    argument and no keywords. -/
theorem c11_parsed_not_rebuilt (a : Arg) (h : a = .readable ∨ a.isBuffer = true) : unionPost [a] 0 = .asParsed := by
  rcases h with rfl | h
  · decide
  · cases a <;> simp_all [unionPost, Arg.isBuffer]

/-- **Every other call with arguments or keywords is a value initialisation** (the union is rebuilt), and the call without
    anything is the default initialisation. -/
theorem c11_value_rebuilt (args : List Arg) (nkw : Nat) :
    (unionPost args nkw = .rebuild ↔
      (args ≠ [] ∧ ¬ (∃ a, args = [a] ∧ (a = .readable ∨ a.isBuffer = true))) ∨ nkw ≠ 0) ∧
    (unionPost [] 0 = .proxify) := by
  refine ⟨?_, by decide⟩
  unfold unionPost
  by_cases hk : nkw = 0
  · subst hk
    match args with
    | [] => simp
    | [a] => cases a <;> simp [Arg.isBuffer]
    | a :: b :: r => simp
  · simp [hk]

/-- non-vacuity: `struct S { char a[4]; }` called with 4 bytes takes the shortcut, with 3 bytes or a bytearray it parses; after
    `add_field("b", uint8)` the same 4 bytes are parsed; a union called with a memoryview is left as parsed, with a value it
    is rebuilt -/
example :
    let one : Cls := ⟨false, some 4, [⟨true, false, some 4, false⟩]⟩
    let two : Cls := ⟨false, some 5, [⟨true, false, some 4, false⟩, ⟨false, false, some 1, false⟩]⟩
    let placed : Cls := ⟨false, some 6, [⟨true, false, some 4, true⟩]⟩
    structCall one [.bytes 4] 0 = .shortcutStruct ∧ structCall one [.bytes 3] 0 = .reads ∧ structCall one [.buffer] 0 = .reads ∧
    structCall two [.bytes 4] 0 = .reads ∧ structCall placed [.bytes 4] 0 = .reads ∧ unionPost [.buffer] 0 = .asParsed ∧ unionPost [.value] 0 = .rebuild ∧
    metaCall ⟨true, some 4, []⟩ [.bytes 4] = .shortcutScalar := by decide

end Cstruct.Call.C09
