/-
  Core theorems about the read/write model (`CstructModel/Read.lean`, `CstructModel/Write.lean`), from which the
  property theorems of C01, C04, C08 and C09 are derived. Specification-side definitions are in
  `Proofs/Spec/Core.lean` (fragments `Ty.plain`, `Ty.fragS`, the typing relation `Core.HasTy`), helper lemmas in
  `Proofs/Lemmas/Core.lean`.
-/
import Proofs.Spec.Core
import Proofs.Lemmas.Core

namespace Cstruct.Core
open Cstruct

/-- **Extension theorem** (the C08 statement "a value returned from a shortened input is the value returned from the complete
    input"). If parsing succeeds on `d1`, it succeeds with the very same value and end position on every input `d2` that
    extends `d1`. For every plain type (no to-end-of-stream array, no union), packed, aligned or mixed, with or without
    bit-fields, every context, every start position; no assumption on the value. -/
theorem read_extend (cfg : Cfg) (ty : Ty) (hplain : ty.plain = true) (ctx : Ctx) (d1 : Bytes) (pos : Nat) (v : Val) (p : Nat)
    (hr : read cfg ty ctx d1 pos = .ok (v, p)) (d2 : Bytes) (hpre : d1 <+: d2) :
    read cfg ty ctx d2 pos = .ok (v, p) :=
  Lemmas.read_extend cfg ty hplain ctx d1 pos v p hr d2 hpre

/-
  The window property does NOT hold for every plain type (the first version of `read_prefix` assumed only `ty.plain`).
  Counterexample (checked with `#eval`), with `cfg0` as below:
    inner := .struct true  [x : .sc (.pint 4 false) 4, y : .sc (.pint 4 false) 4]         -- aligned, size 8, alignment 4
    outer := .struct false [a : .sc .char 1, s : .arr inner (.fixed 2), b : .sc .char 1]   -- packed: offsets 0, 1, 17
    d1    := the 20 bytes 0, 1, …, 19
  `outer.plain = true`, `read cfg0 outer [] d1 0 = .ok (_, 18)`, but `read cfg0 outer [] (d1.take 18) 0 = .error .eof`.
  Element 0 of `s` starts at the misaligned position 1 and pads its tail on the absolute position (9 → 12), so element 1
  occupies bytes 12..19; the packed outer layout nevertheless puts `b` at offset 17 and the reader seeks BACK to 17. The
  end position 18 is smaller than the last byte consumed (19). A backward seek needs an aligned structure at a start
  that is not a multiple of its alignment inside a statically laid out structure: mixed `align` flags as here, or a
  misaligned top-level start. `read_prefix` therefore assumes one flag throughout, power-of-two alignments and an aligned
  start (as `roundtrip_S` does), and no bit-fields; `read_extend` above needs none of this.
-/

/-- **Prefix (window) theorem.** If parsing succeeds on input `d1` and ends at position `p`, then it succeeds with the very
    same value and end position on every input `d2` that starts with the first `p` bytes of `d1` (all of `d1` when `d1` is
    shorter than `p`, which happens when trailing alignment padding is skipped past the end). For every plain type without
    bit-fields whose structures were all defined with the same `align` flag, with power-of-two alignments, every context,
    every start position that is a multiple of the alignments occurring in the type (any position in packed mode would do;
    position 0 always is); static or dynamic (expression-sized and null-terminated arrays, LEB128); no assumption on the
    value. -/
theorem read_prefix (cfg : Cfg) (al : Bool) (ty : Ty) (hplain : ty.plain = true) (hnb : ty.noBits = true)
    (hu : ty.uniformAlign al = true) (hp : ty.pow2Aligned cfg) (ctx : Ctx) (d1 : Bytes) (pos : Nat)
    (hal : ty.alignsDivide cfg pos = true) (v : Val) (p : Nat)
    (hr : read cfg ty ctx d1 pos = .ok (v, p)) (d2 : Bytes) (hpre : d1.take p <+: d2) :
    read cfg ty ctx d2 pos = .ok (v, p) :=
  Lemmas.read_prefix_alt cfg al ty hplain hnb hu hp ctx d1 pos hal v p hr d2 hpre

/-- **Window corollary.** Under the same hypotheses the result depends on nothing after the end position: the first `p`
    bytes followed by anything else parse to the same value with the same end position. -/
theorem read_window (cfg : Cfg) (al : Bool) (ty : Ty) (hplain : ty.plain = true) (hnb : ty.noBits = true)
    (hu : ty.uniformAlign al = true) (hp : ty.pow2Aligned cfg) (ctx : Ctx) (d1 : Bytes) (pos : Nat)
    (hal : ty.alignsDivide cfg pos = true) (v : Val) (p : Nat)
    (hr : read cfg ty ctx d1 pos = .ok (v, p)) (post : Bytes) :
    read cfg ty ctx (d1.take p ++ post) pos = .ok (v, p) :=
  read_prefix cfg al ty hplain hnb hu hp ctx d1 pos hal v p hr _ (List.prefix_append _ _)

/-- **Round trip (fragment S).** Writing a value of the type at absolute position `pos` and parsing the result — embedded
    after any `pre` of that length and before any `post`, with any context — returns the value and ends exactly after the
    written bytes. Packed and aligned structures alike (one flag throughout, as the parser applies it); the start position
    must be a multiple of the alignments occurring in the type (position 0, as in `dumps`, always is): at a misaligned
    start a nested aligned structure pads differently from its declared size and the property does not claim anything. -/
theorem roundtrip_S (cfg : Cfg) (al : Bool) (ty : Ty) (hS : ty.fragS cfg = true) (hu : ty.uniformAlign al = true)
    (hp : ty.pow2Aligned cfg) (v : Val) (hv : HasTy cfg v ty) (pos : Nat) (hal : ty.alignsDivide cfg pos = true) (bs : Bytes)
    (hw : write cfg ty v pos = .ok bs) (pre post : Bytes) (hpre : pre.length = pos) (ctx : Ctx) :
    read cfg ty ctx (pre ++ bs ++ post) pos = .ok (v, pos + bs.length) := by
  obtain ⟨bs', k, w, _, l, r⟩ := Lemmas.wr_ty cfg al ty hS hu hp v hv pos
    (fun _ => Lemmas.sAlign_dvd_of_alignsDivide cfg pos ty hal)
  rw [hw] at w
  cases w
  rw [l]
  exact r pre post ctx hpre

/-- **Writing is total on values of the type (fragment S)** and produces exactly `size` bytes when the start is aligned
    (any start in packed mode): a value that fits is never refused. -/
theorem write_total_S (cfg : Cfg) (al : Bool) (ty : Ty) (hS : ty.fragS cfg = true) (hu : ty.uniformAlign al = true)
    (hp : ty.pow2Aligned cfg) (v : Val) (hv : HasTy cfg v ty)
    (pos : Nat) (hal : ty.alignsDivide cfg pos = true) :
    ∃ bs, write cfg ty v pos = .ok bs ∧ ty.size cfg = some bs.length := by
  obtain ⟨bs, k, w, s, l, _⟩ := Lemmas.wr_ty cfg al ty hS hu hp v hv pos
    (fun _ => Lemmas.sAlign_dvd_of_alignsDivide cfg pos ty hal)
  exact ⟨bs, w, by rw [l]; exact s⟩

/-- **An integer that does not fit is rejected (never truncated or wrapped)**, for integer, enum and pointer fields. -/
theorem write_reject (cfg : Cfg) (s : Scalar) (a : Nat) (f : Bool) (t : Ty) (v : Int) (pos : Nat) :
    (Scalar.isInt s = true → intFits s v = false →
      write cfg (.sc s a) (.int v) pos = .error .overflow ∧ write cfg (.enum s a f) (.enum v) pos = .error .overflow) ∧
    (Scalar.isInt cfg.ptr = true → intFits cfg.ptr v = false → write cfg (.ptr t) (.ptr v) pos = .error .overflow) := by
  have key : ∀ s : Scalar, Scalar.isInt s = true → intFits s v = false →
      writeScalar cfg s (.int v) = .error .overflow := by
    intro s hs hf
    cases s <;> simp [Scalar.isInt] at hs <;> simp only [intFits] at hf <;>
      simp [writeScalar, encodeInt, hf]
  refine ⟨fun hs hf => ⟨?_, ?_⟩, fun hs hf => ?_⟩
  · rw [write]; exact key s hs hf
  · rw [write]; exact key s hs hf
  · rw [write]; exact key _ hs hf

/-- **Parsing consumes exactly the declared size (fragment S)** when the input is long enough and the start is aligned
    (any start in packed mode), and the parsed value is a value of the type. -/
theorem read_size_S (cfg : Cfg) (al : Bool) (ty : Ty) (hS : ty.fragS cfg = true) (hu : ty.uniformAlign al = true)
    (hp : ty.pow2Aligned cfg) (ctx : Ctx) (data : Bytes) (pos n : Nat)
    (hsz : ty.size cfg = some n) (hlen : pos + n ≤ data.length) (hal : ty.alignsDivide cfg pos = true) :
    ∃ v, read cfg ty ctx data pos = .ok (v, pos + n) ∧ HasTy cfg v ty := by
  exact Lemmas.rs_ty cfg al ty hS hu hp ctx data pos n hsz hlen
    (fun _ => Lemmas.sAlign_dvd_of_alignsDivide cfg pos ty hal)

/-! ### Non-vacuity -/
def cfg0 : Cfg := { endian := .big, ptr := .pint 4 false, ptrAlign := 4, consts := [] }
def ty0 : Ty := .struct true (.cons "a" false (.sc (.pint 1 false) 1) none (.cons "s" false
  (.struct true (.cons "x" false (.sc (.pint 2 true) 2) none (.cons "y" false (.arr (.sc .char 1) (.fixed 3)) none .nil))) none
  (.cons "p" false (.ptr (.sc .void 0)) none .nil)))
def v0 : Val := .record (.cons (.int 7) (.cons (.record (.cons (.int (-2)) (.cons (.bytes [1, 2, 3]) .nil))) (.cons (.ptr 9) .nil)))
example : ty0.fragS cfg0 = true ∧ ty0.plain = true ∧ ty0.uniformAlign true = true ∧ ty0.alignsDivide cfg0 0 = true := by decide +kernel
example : ty0.noBits = true := by decide +kernel
example : HasTy cfg0 v0 ty0 := by
  exact .struct (.cons (.int rfl (by decide)) (.cons (.struct (.cons (.int rfl (by decide)) (.cons (.chars rfl) .nil)))
    (.cons (.ptr (by decide)) .nil)))

end Cstruct.Core
