/-
  C09, position independence with respect to what precedes: parsing from a stream positioned at `p` returns what parsing
  the bytes from `p` onward on their own returns, shifted by `p`.  Helper lemmas in `Proofs/Lemmas/C09.lean`.
-/
import Proofs.Core
import Proofs.Lemmas.C09

namespace Cstruct.C09
open Cstruct Cstruct.Core Cstruct.C09.Lemmas

/-- shift the end position of a result -/
def shiftRes (k : Nat) : Except Err (Val × Nat) → Except Err (Val × Nat)
  | .ok (v, p) => .ok (v, k + p)
  | .error e => .error e

/-- **Position independence.** For every plain type (bit-fields included) whose structures share one `align` flag and whose
    alignments are powers of two: parsing at position `|pre| + pos` of `pre ++ d` is parsing at `pos` of `d`, shifted by
    `|pre|` — the same value or the same error, whatever the bytes of `pre` are — provided `|pre|` is a multiple of every
    alignment occurring in the type (in packed mode, `al = false`, any `pre`). -/
theorem c09_shift (cfg : Cfg) (al : Bool) (ty : Ty) (hplain : ty.plain = true) (hu : ty.uniformAlign al = true)
    (hp : ty.pow2Aligned cfg) (ctx : Ctx) (pre d : Bytes) (pos : Nat)
    (hal : al = true → ty.alignsDivide cfg pre.length = true) :
    read cfg ty ctx (pre ++ d) (pre.length + pos) = shiftRes pre.length (read cfg ty ctx d pos) := by
  rw [read_shift cfg al ty hplain hu hp ctx pre d pos hal]
  cases read cfg ty ctx d pos with
  | error e => rfl
  | ok r => rfl

/-- Corollary: the bytes before the start position never matter. -/
theorem c09_before_irrelevant (cfg : Cfg) (al : Bool) (ty : Ty) (hplain : ty.plain = true) (hu : ty.uniformAlign al = true)
    (hp : ty.pow2Aligned cfg) (ctx : Ctx) (pre pre' d : Bytes) (hlen : pre.length = pre'.length)
    (hal : al = true → ty.alignsDivide cfg pre.length = true) :
    read cfg ty ctx (pre ++ d) pre.length = read cfg ty ctx (pre' ++ d) pre'.length := by
  have h1 := c09_shift cfg al ty hplain hu hp ctx pre d 0 hal
  have h2 := c09_shift cfg al ty hplain hu hp ctx pre' d 0 (by rw [← hlen]; exact hal)
  rw [Nat.add_zero] at h1 h2
  rw [h1, h2, hlen]

end Cstruct.C09
