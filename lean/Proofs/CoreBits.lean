/-
  Round trip for structures WITH bit-fields (property C01 beyond fragment S), packed mode.
  Specification-side definitions: `Proofs/Spec/CoreBits.lean` (fragment `Ty.fragSB`, typing relation `Core.HasTyB`);
  proofs: `Proofs/Lemmas/CoreBits*.lean`. Model: the bit-field branches of `readFields` (`CstructModel/Read.lean`),
  `writeFields` (`CstructModel/Write.lean`), `Fields.layout` (`CstructModel/Ty.lean`), `BitBuf.take/put`
  (`CstructModel/Val.lean`).

  Invariant of the proof (generalising the one of fragment S, "writer position = reader position = recorded offset"):
  between units the three coincide; inside a run of bit-fields sharing a unit of storage type `ft` the writer holds the
  accumulated bits and has emitted nothing for the unit, the layout offset and the reader position are one unit size
  ahead, and the reader holds the unit it loaded from the final bytes — the value `F` the writer flushes later (on
  exhaustion, before a member of another kind or storage type, or at the end of the structure), possibly seen as the
  negative number `F - 2^(8·size)` for a signed storage type. The bits `k` handed out so far are the low (little endian)
  or high (big endian) `k` bits of `F` (`Lemmas.URel`); `C06`'s `put_step`/`take_step` give the step.
-/
import Proofs.Spec.CoreBits
import Proofs.Lemmas.CoreBitsRT
import Proofs.Lemmas.CoreBitsWT
import Proofs.Lemmas.CoreBitsEx
import Proofs.Lemmas.CoreBitsA
import Proofs.Lemmas.CoreBitsEx2

namespace Cstruct.Core
open Cstruct

/-- **Round trip (fragment SB, packed).** Writing a value of a type of fragment SB — fragment S plus bit-fields over
    integer storage types, signed or unsigned, any width, either byte order, enum-typed ones included — at absolute
    position `pos` and parsing the result, embedded after any `pre` of that length and before any `post`, with any
    context, returns the value and ends exactly after the written bytes. Every structure in the type is packed
    (`align = false`); every start position. No assumption on the layout: `hw` (writing succeeded) is enough. -/
theorem roundtrip_SB_packed (cfg : Cfg) (ty : Ty) (hS : ty.fragSB cfg = true) (hu : ty.uniformAlign false = true)
    (v : Val) (hv : HasTyB cfg v ty) (pos : Nat) (bs : Bytes) (hw : write cfg ty v pos = .ok bs) (pre post : Bytes)
    (hpre : pre.length = pos) (ctx : Ctx) :
    read cfg ty ctx (pre ++ bs ++ post) pos = .ok (v, pos + bs.length) :=
  (Lemmas.rt_ty cfg ty hS hu v hv pos bs hw).2 pre post ctx hpre

/-- **Writing is total on the values of the type (fragment SB, packed)** and produces exactly `size` bytes, provided the
    definition is accepted: `ty.defErr cfg = none`, i.e. the layout of every structure in the type succeeds, which for
    this fragment means that no bit-field straddles its storage unit (`Fields.layout` answers `.error .value` for a
    field wider than what is left of the unit, `C06.c06_layout_straddle`). There is no other way for `write` to fail on
    a value of the type: every bit-field value is in range of its width (`HasTyB`), so `BitBuf.put` accepts it, and a
    unit value always fits its storage type when flushed as unsigned. -/
theorem write_total_SB_packed (cfg : Cfg) (ty : Ty) (hS : ty.fragSB cfg = true) (hu : ty.uniformAlign false = true)
    (hd : ty.defErr cfg = none) (v : Val) (hv : HasTyB cfg v ty) (pos : Nat) :
    ∃ bs, write cfg ty v pos = .ok bs ∧ ty.size cfg = some bs.length :=
  Lemmas.wt_ty cfg ty hS hu hd v hv pos

/-- the hypothesis `defErr = none` of `write_total_SB_packed` cannot be dropped: a structure whose layout is rejected is
    never written (the real library already fails when the structure is defined) -/
theorem write_layout_error (cfg : Cfg) (al : Bool) (fs : Fields) (vs : Vals) (pos : Nat) (e : Err)
    (h : structLayout cfg al fs = .error e) : write cfg (.struct al fs) (.record vs) pos = .error e := by
  rw [Lemmas.write_struct, h]; rfl

/-- **A type of fragment SB whose definition is accepted has a static size** (packed or aligned). -/
theorem size_some_SB (cfg : Cfg) (ty : Ty) (hS : ty.fragSB cfg = true) (hd : ty.defErr cfg = none) :
    ∃ k, ty.size cfg = some k :=
  Lemmas.size_some_ty cfg ty hS hd

/-
  Aligned mode. Known finding (recorded): for a storage scalar whose size is not its alignment — the table types
  int24/uint24 (size 3, alignment 4), int48/uint48 (6, 8) — layout, writer and reader disagree. With `cfg` little endian and
    `struct { uint8 z; uint24 a:3; uint24 b:5; uint16 c; }`  (aligned; `uint24 = .sc (.aint 3 false) 4`)
  the layout opens a second unit for `b` at offset 8 (the re-aligned offset 8 lies behind the end 7 of the first unit:
  offsets [0, 4, 8, 12], size 16), whereas writer and reader go on using the first unit; the writer moreover emits the
  padding up to offset 8 in front of the still pending unit. The value (z, a, b, c) = (1, 5, 9, 7) is written as
    01 00 00 00 | 00 00 00 00 | 4D 00 00 | 00 | 07 00 | 00 00
  and parses back as (1, 0, 0, 7) (checked with `#eval`). The aligned theorems therefore assume `Ty.bitsNatural`: every
  bit-field's storage scalar has `size = alignment` (true of the power-of-two-sized table integers). They also assume that
  the definition is accepted (`defErr = none`), which makes every layout offset static; the aligned reader and writer
  are only followed for static offsets here (in packed mode `roundtrip_SB_packed` does without this hypothesis).
-/

/-- **Round trip (fragment SB, packed or aligned).** As `roundtrip_S`, for structures with bit-fields: one `align` flag
    throughout, power-of-two alignments, a start position that is a multiple of the alignments occurring in the type; in
    aligned mode every bit-field storage scalar has `size = alignment`; the definition is accepted. -/
theorem roundtrip_SB (cfg : Cfg) (al : Bool) (ty : Ty) (hS : ty.fragSB cfg = true) (hu : ty.uniformAlign al = true)
    (hp : ty.pow2Aligned cfg) (hn : al = true → ty.bitsNatural cfg = true) (hd : ty.defErr cfg = none)
    (v : Val) (hv : HasTyB cfg v ty) (pos : Nat) (hal : ty.alignsDivide cfg pos = true) (bs : Bytes)
    (hw : write cfg ty v pos = .ok bs) (pre post : Bytes) (hpre : pre.length = pos) (ctx : Ctx) :
    read cfg ty ctx (pre ++ bs ++ post) pos = .ok (v, pos + bs.length) := by
  obtain ⟨bs', k, w, _, l, r⟩ := Lemmas.a_ty cfg al ty hS hu hp hn hd v hv pos
    (fun _ => Lemmas.sAlign_dvd_of_alignsDivide cfg pos ty hal)
  rw [hw] at w
  cases w
  rw [l]
  exact r pre post ctx hpre

/-- **Writing is total on the values of the type (fragment SB, packed or aligned)** and produces exactly `size` bytes,
    under the hypotheses of `roundtrip_SB`. -/
theorem write_total_SB (cfg : Cfg) (al : Bool) (ty : Ty) (hS : ty.fragSB cfg = true) (hu : ty.uniformAlign al = true)
    (hp : ty.pow2Aligned cfg) (hn : al = true → ty.bitsNatural cfg = true) (hd : ty.defErr cfg = none)
    (v : Val) (hv : HasTyB cfg v ty) (pos : Nat) (hal : ty.alignsDivide cfg pos = true) :
    ∃ bs, write cfg ty v pos = .ok bs ∧ ty.size cfg = some bs.length := by
  obtain ⟨bs, k, w, s, l, _⟩ := Lemmas.a_ty cfg al ty hS hu hp hn hd v hv pos
    (fun _ => Lemmas.sAlign_dvd_of_alignsDivide cfg pos ty hal)
  exact ⟨bs, w, by rw [l]; exact s⟩

/-! ### Non-vacuity
  `struct { int8 a:3; int8 b:5; uint16 c:4; uint16 d:12; uint8 e; }`, packed, little endian: two bit-field runs of
  different storage types, the first one signed (its unit 0xFD is loaded as the negative number -3). -/
open Ex in
example : tyA.fragSB cfgL = true ∧ tyA.uniformAlign false = true ∧ tyA.defErr cfgL = none ∧ tyA.size cfgL = some 4 := by
  decide +kernel
open Ex in
example : HasTyB cfgL (.record vsA) tyA :=
  .struct (.bitsInt (by decide) (by decide) (.bitsInt (by decide) (by decide) (.bitsInt (by decide) (by decide)
    (.bitsInt (by decide) (by decide) (.cons (.int rfl (by decide)) .nil)))))
open Ex in
example : write cfgL tyA (.record vsA) 0 = .ok [253, 201, 171, 7] := ex_write
open Ex in
example (post : Bytes) (ctx : Ctx) : read cfgL tyA ctx ([253, 201, 171, 7] ++ post) 0 = .ok (.record vsA, 4) := by
  have h := roundtrip_SB_packed cfgL tyA (by decide +kernel) (by decide +kernel) (.record vsA)
    (.struct (.bitsInt (by decide) (by decide) (.bitsInt (by decide) (by decide) (.bitsInt (by decide) (by decide)
      (.bitsInt (by decide) (by decide) (.cons (.int rfl (by decide)) .nil))))))
    0 _ ex_write [] post rfl ctx
  simpa using h
-- aligned, big endian: `struct { uint8 a:3; uint16 b:4; uint16 c:12; uint8 e; }`
open Ex in
example : tyG.fragSB cfgBE = true ∧ tyG.uniformAlign true = true ∧ tyG.bitsNatural cfgBE = true ∧ tyG.defErr cfgBE = none ∧
    tyG.alignsDivide cfgBE 0 = true ∧ tyG.size cfgBE = some 6 := by
  decide +kernel
open Ex in
example : tyG.pow2Aligned cfgBE := by
  refine ⟨Or.inr ⟨0, rfl⟩, Or.inr ⟨1, rfl⟩, Or.inr ⟨1, rfl⟩, Or.inr ⟨0, rfl⟩, trivial⟩
open Ex in
example : write cfgBE tyG (.record wsA) 0 = .ok [0xA0, 0, 0x9A, 0xBC, 7, 0] := ex_write_al
open Ex in
example (post : Bytes) (ctx : Ctx) : read cfgBE tyG ctx ([0xA0, 0, 0x9A, 0xBC, 7, 0] ++ post) 0 = .ok (.record wsA, 6) := by
  have h := roundtrip_SB cfgBE true tyG (by decide +kernel) (by decide +kernel)
    ⟨Or.inr ⟨0, rfl⟩, Or.inr ⟨1, rfl⟩, Or.inr ⟨1, rfl⟩, Or.inr ⟨0, rfl⟩, trivial⟩ (fun _ => by decide +kernel)
    (by decide +kernel) (.record wsA)
    (.struct (.bitsInt (by decide) (by decide) (.bitsInt (by decide) (by decide) (.bitsInt (by decide) (by decide)
      (.cons (.int rfl (by decide)) .nil)))))
    0 (by decide +kernel) _ ex_write_al [] post rfl ctx
  simpa using h
-- a straddling definition (`uint8 x:5; uint8 y:5;`) is rejected by the layout and cannot be written
example : (Ty.struct false (.cons "x" false Ex.u8 (some 5) (.cons "y" false Ex.u8 (some 5) .nil))).defErr Ex.cfgL
    = some .value := by decide +kernel

end Cstruct.Core
