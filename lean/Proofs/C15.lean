/-
  C15 — concurrent parsing with shared types is equivalent to sequential parsing (and C14's memo/footprint lemmas).

  Property theorems over `CstructModel/Sched.lean` and the generated write footprint `Gen.sharedWrites`
  (`CstructModel/Gen/Footprint.lean`, extracted from the source on every run). Helper lemmas in `Proofs/Lemmas/C15.lean`.
  Partial by nature: the theorem is about the step model; that CPython executes the modelled actions atomically (GIL) and
  that the syntactic footprint extraction with its hand-kept lifetime table is complete are trusted, and the real code is
  exercised under a controlled line-level scheduler by this check.
-/
import CstructModel.Sched
import Proofs.Lemmas.C15

namespace Cstruct.C15
open Cstruct Cstruct.Sched

/-- **Footprint.** On the parse/dump path the code writes to exactly one kind of shared location: the token list of an
    `Expression` object, in the unary-minus rewriting loop. No operand stack, queue, cache or counter on a shared object. -/
theorem c15_footprint : ∀ w ∈ Gen.sharedWrites, w = ("Expression.evaluate", "store self.tokens.[]") := by
  decide

/-- **The shared rewriting is benign under every interleaving.** Any number of threads, any schedule of their atomic
    actions: the shared token list keeps its length, every cell is at all times either its original or its final
    (sequentially rewritten) content, and every thread that has finished has read exactly the sequentially rewritten tokens
    in its main loop — the result it would obtain running alone. -/
theorem c15_rewrite_benign (toks0 : List String) (k : Nat) (sched : List Nat) :
    let final := Expr.rewriteMinus toks0
    let r := run (List.replicate k Th.init) toks0 sched
    r.2.length = toks0.length ∧
    (∀ i, i < toks0.length → r.2.getD i "" = toks0.getD i "" ∨ r.2.getD i "" = final.getD i "") ∧
    (∀ t ∈ r.1, t.finished toks0.length = true → t.seen = final) :=
  Lemmas.rewrite_benign toks0 k sched

/-- **Running alone gives the sequential result** (the reference the previous theorem compares with), and a thread does
    finish when it is given enough steps. -/
theorem c15_alone (toks0 : List String) :
    ∃ n, ∀ m, n ≤ m → ∀ t ∈ (run [Th.init] toks0 (List.replicate m 0)).1, t.finished toks0.length = true ∧ t.seen = Expr.rewriteMinus toks0 :=
  Lemmas.alone toks0

/-- **Memo tables are transparent** (`_struct`'s and the code templates' `lru_cache`): a table that only ever received
    entries `(k, f k)` answers every lookup with `f k` and stays such a table — cached results never depend on who asked
    first or in which order. -/
theorem c14_memo_transparent {K V} [DecidableEq K] (f : K → V) (m : List (K × V)) (hm : ∀ p ∈ m, p.2 = f p.1) (k : K) :
    (memoGet f m k).1 = f k ∧ ∀ p ∈ (memoGet f m k).2, p.2 = f p.1 :=
  Lemmas.memo_transparent f m hm k

/-! ### Non-vacuity: two threads, an adversarial schedule -/
example : let r := run [Th.init, Th.init] ["-", "a", "-", "-", "b"] [0, 1, 1, 0, 0, 1, 0, 0, 0, 1, 1, 1, 1, 0, 0, 0, 0, 0, 0, 0, 0, 0, 0, 1, 1, 1, 1, 1, 1, 1, 1, 1, 1, 1, 1, 1]
    r.2 = Expr.rewriteMinus ["-", "a", "-", "-", "b"] := by decide +kernel

end Cstruct.C15
