/-
  C19 — dumping a parsed structure: the hex part is a dump of exactly the bytes handed in, whatever the palette the field
  walk produces; every non-anonymous field is listed once, in order, with its rendered value; colour changes nothing but
  the inserted colour codes; the palette pairs the i-th listed field's recorded size with the i-th colour of the cycle.

  Model: `CstructModel/Dumpstruct.lean` over `CstructModel/Hexdump.lean`.
-/
import CstructModel.Dumpstruct
import Proofs.C19

namespace Cstruct.Dumpstruct.C19
open Cstruct Cstruct.Hexdump Cstruct.Dumpstruct

/-- the fields `_dumpstruct` lists -/
def listed (fields : List DField) : List DField := fields.filter (fun f => !f.anonymous)

/-- the plain listing line -/
def plainLine (f : DField) : String := "- " ++ f.name ++ ": " ++ render f

theorem stripCodes_fieldLine (color : Bool) (ci : Nat) (f : DField) :
    stripCodes (fieldLine color ci f) = plainLine f := by
  cases color <;> simp [fieldLine, stripCodes, plainLine, String.append_assoc]

theorem walk_listing (color : Bool) (ci : Nat) (fields : List DField) :
    (walk color ci fields).2.map stripCodes = (listed fields).map plainLine := by
  induction fields generalizing ci with
  | nil => simp [walk, listed]
  | cons f rest ih =>
    unfold walk
    by_cases h : f.anonymous
    · simp only [h, if_true]
      rw [ih]; simp [listed, h]
    · simp only [h]
      have := ih (ci + 1)
      simp only [listed, List.filter_cons, h, Bool.not_false, if_true, List.map_cons] at this ⊢
      simp [stripCodes_fieldLine, this]

theorem walk_palette_plain (ci : Nat) (fields : List DField) : (walk false ci fields).1 = [] := by
  induction fields generalizing ci with
  | nil => simp [walk]
  | cons f rest ih =>
    unfold walk
    by_cases h : f.anonymous <;> simp [h, ih]

/-- entry `i` of the palette: the recorded size of the i-th listed field (0 when none is recorded) and the background
    colour number `(ci + i) mod 7` of the cycle -/
def paletteOf : Nat → List DField → List (Int × String)
  | _, [] => []
  | ci, f :: rest => (((f.size.getD 0 : Nat) : Int), (colorAt ci).2) :: paletteOf (ci + 1) rest

theorem walk_palette_colour (ci : Nat) (fields : List DField) :
    (walk true ci fields).1 = paletteOf ci (listed fields) := by
  induction fields generalizing ci with
  | nil => simp [walk, listed, paletteOf]
  | cons f rest ih =>
    unfold walk
    by_cases h : f.anonymous
    · simp only [h, if_true]
      rw [ih]; simp [listed, h]
    · have := ih (ci + 1)
      simp only [h]
      simp [listed, h, paletteOf] at this ⊢
      exact this

/-- **The hex part is a dump of exactly the bytes handed in.** For every class name, field list (any sizes, any values,
    any anonymous members), byte string, offset, and with or without colour: the hex part of the structure dump, with the
    colour codes removed, is the plain dump of the data at the running offset. -/
theorem c19_dumpstruct_hex (cls : String) (fields : List DField) (data : Bytes) (offset : Nat) (color : Bool) :
    (dumpstruct cls fields data offset color).hex.map (fun l => (l.offset, stripCodes l.values, stripCodes l.chars))
      = Hexdump.C19.plainDump data offset := by
  unfold dumpstruct
  exact Hexdump.C19.c19_colour_cosmetic data _ offset

/-- **Without colour the hex part IS the plain hex dump** (no colour code at all, not even a reset at the end of a row;
    after fix F72): `dumpstruct(obj, color=False)` shows `hexdump(data, offset=offset)`. -/
theorem c19_dumpstruct_plain (cls : String) (fields : List DField) (data : Bytes) (offset : Nat) :
    (dumpstruct cls fields data offset false).hex = Hexdump.hexdump data none offset := by
  unfold dumpstruct
  simp

/-- **Every field is listed with its value.** The listing, with colour codes removed, is one line `- name: value` per
    non-anonymous field, in declaration order; the title names the class. Colour therefore changes nothing but the codes. -/
theorem c19_dumpstruct_listing (cls : String) (fields : List DField) (data : Bytes) (offset : Nat) (color : Bool) :
    (dumpstruct cls fields data offset color).listing.map stripCodes = (listed fields).map plainLine ∧
    (dumpstruct cls fields data offset color).title = "struct " ++ cls ++ ":" := by
  unfold dumpstruct
  exact ⟨walk_listing color 0 fields, rfl⟩

/-- **The palette follows the fields.** Without colour the palette is empty; with colour its i-th entry carries the
    recorded size of the i-th listed field and the i-th background colour of the seven-colour cycle. -/
theorem c19_dumpstruct_palette (fields : List DField) :
    (walk false 0 fields).1 = [] ∧ (walk true 0 fields).1 = paletteOf 0 (listed fields) :=
  ⟨walk_palette_plain 0 fields, walk_palette_colour 0 fields⟩

/-- non-vacuity: a structure with an anonymous member, a list and a negative integer -/
example :
    let fs : List DField := [⟨"a", false, some 2, .int (-255)⟩, ⟨"u", true, some 4, .text "x"⟩, ⟨"b", false, none, .list "[1,\n 2]"⟩]
    ((dumpstruct "S" fs [1, 2, 3] 16 true).listing.map stripCodes = ["- a: -0xff", "- b: [1,\n      2]"]) ∧
    (walk true 0 fs).1 = [(2, "\x1b[1;41m\x1b[1;37m"), (0, "\x1b[1;42m\x1b[1;37m")] := by
  decide

end Cstruct.Dumpstruct.C19
