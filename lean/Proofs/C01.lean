/-
  C01 — value round-trip; writes never silently alter a number.

  Property theorems, derived from the core theorems in `Proofs/Core.lean` (model: `CstructModel/Read.lean`,
  `CstructModel/Write.lean`, `CstructModel/Ty.lean`).  Fragment S (`Ty.fragS`, `Proofs/Spec/Core.lean`): fixed-width
  integers of every width, floats (as bit patterns), char, void, enums/flags and pointers over integer types,
  fixed-length arrays (any dimension) and nested structures of such, packed or aligned.  Outside the fragment and therefore
  named `_partial`: bit-fields (their bit-level inverse is C06's `c06_put_take`), LEB128 and wchar scalars (C05's round
  trips), expression-sized / null-terminated / EOF arrays, unions (known findings F9F10).  Those constructs are tied to the
  code by the differential run of this check only.
-/
import Proofs.Core

namespace Cstruct.C01
open Cstruct Cstruct.Core

mutual
theorem alignsDivide_zero (cfg : Cfg) : ∀ (ty : Ty), ty.alignsDivide cfg 0 = true
  | .sc _ _ => by simp [Ty.alignsDivide]
  | .enum _ _ _ => by simp [Ty.alignsDivide]
  | .ptr _ => by simp [Ty.alignsDivide]
  | .arr e _ => by simp only [Ty.alignsDivide]; exact alignsDivide_zero cfg e
  | .struct _ fs => by simp only [Ty.alignsDivide]; exact alignsDivides_zero cfg fs
  | .union _ fs => by simp only [Ty.alignsDivide]; exact alignsDivides_zero cfg fs
theorem alignsDivides_zero (cfg : Cfg) : ∀ (fs : Fields), Fields.alignsDivide cfg 0 fs = true
  | .nil => by simp [Fields.alignsDivide]
  | .cons _ _ t _ r => by simp only [Fields.alignsDivide, alignsDivide_zero cfg t, alignsDivides_zero cfg r, Bool.and_self]
end

/-- **C01 (fragment S).** For every type of the fragment and every value `v` of it, parsing `dumps(v)` — followed by any
    other bytes, under any context — returns `v` and consumes exactly `len(dumps(v))` bytes. -/
theorem c01_roundtrip_partial (cfg : Cfg) (al : Bool) (ty : Ty) (hS : ty.fragS cfg = true) (hu : ty.uniformAlign al = true)
    (hp : ty.pow2Aligned cfg) (v : Val) (hv : HasTy cfg v ty) (bs : Bytes) (hw : dumps cfg ty v = .ok bs) (post : Bytes) (ctx : Ctx) :
    read cfg ty ctx (bs ++ post) 0 = .ok (v, bs.length) := by
  have h := roundtrip_S cfg al ty hS hu hp v hv 0 (alignsDivide_zero cfg ty) bs hw [] post rfl ctx
  simpa using h

/-- **A value that fits is never refused**: `dumps` is total on the values of the type and yields `len(T)` bytes. -/
theorem c01_write_total_partial (cfg : Cfg) (al : Bool) (ty : Ty) (hS : ty.fragS cfg = true) (hu : ty.uniformAlign al = true)
    (hp : ty.pow2Aligned cfg) (v : Val) (hv : HasTy cfg v ty) :
    ∃ bs, dumps cfg ty v = .ok bs ∧ ty.size cfg = some bs.length :=
  write_total_S cfg al ty hS hu hp v hv 0 (alignsDivide_zero cfg ty)

/-- **Values obtained by parsing round-trip too**: whatever a long-enough input parses to is a value of the type, can be
    dumped, and the dump parses back to it. -/
theorem c01_parse_then_roundtrip_partial (cfg : Cfg) (al : Bool) (ty : Ty) (hS : ty.fragS cfg = true) (hu : ty.uniformAlign al = true)
    (hp : ty.pow2Aligned cfg) (ctx : Ctx) (data : Bytes) (n : Nat) (hsz : ty.size cfg = some n) (hlen : n ≤ data.length) :
    ∃ v bs, read cfg ty ctx data 0 = .ok (v, n) ∧ dumps cfg ty v = .ok bs ∧ bs.length = n ∧
      ∀ post ctx', read cfg ty ctx' (bs ++ post) 0 = .ok (v, n) := by
  obtain ⟨v, hr, hv⟩ := read_size_S cfg al ty hS hu hp ctx data 0 n hsz (by omega) (alignsDivide_zero cfg ty)
  obtain ⟨bs, hw, hlen'⟩ := c01_write_total_partial cfg al ty hS hu hp v hv
  have hn : bs.length = n := by rw [hsz] at hlen'; exact (Option.some.inj hlen').symm
  refine ⟨v, bs, by simpa using hr, hw, hn, ?_⟩
  intro post ctx'
  have := c01_roundtrip_partial cfg al ty hS hu hp v hv bs hw post ctx'
  rw [hn] at this
  exact this

/-- **Writing never silently alters a number**: an integer that does not fit a fixed-width integer, enum or pointer field
    is rejected (struct.error / OverflowError), never truncated or wrapped. Every width, signedness and byte order. -/
theorem c01_reject (cfg : Cfg) (s : Scalar) (a : Nat) (f : Bool) (t : Ty) (v : Int) (pos : Nat) :
    (Scalar.isInt s = true → intFits s v = false →
      write cfg (.sc s a) (.int v) pos = .error .overflow ∧ write cfg (.enum s a f) (.enum v) pos = .error .overflow) ∧
    (Scalar.isInt cfg.ptr = true → intFits cfg.ptr v = false → write cfg (.ptr t) (.ptr v) pos = .error .overflow) :=
  write_reject cfg s a f t v pos

/-! ### Non-vacuity: a concrete aligned nested structure with a char array and a pointer meets every hypothesis -/
example : ty0.fragS cfg0 = true ∧ ty0.uniformAlign true = true := by decide +kernel
example : HasTy cfg0 v0 ty0 ∧ ty0.size cfg0 = some 12 := ⟨by
  refine .struct (.cons (.int rfl (by decide)) (.cons (.struct (.cons (.int rfl (by decide)) (.cons (.chars rfl) .nil))) (.cons (.ptr (by decide)) .nil))),
  by decide +kernel⟩

end Cstruct.C01
