/-
  C08 — truncated or failing input never fabricates data: UNIONS, and structures / arrays containing unions.

  `Proofs/C08.lean` is stated for plain types (`Ty.plain`: no union). A fixed-size union (`UnionMetaType._read`; the model
  is `read` / `readMembers` in `CstructModel/Read.lean`, `Union.parse` in `CstructModel/Union.lean`) fetches its extent
  with ONE UNCHECKED `stream.read(size)`, parses every member from that private buffer and leaves the stream at
  `start + size` (also when the read came back short). Dynamically sized unions are
  not modelled (`read` returns `NotImplementedError` for them), so nothing is claimed about them.

  What is true, and proved here:
  * `c08_union_window`    — the result of reading ANY fixed-size union (value or error) is a function of the `size` bytes
                            at `pos` alone: two inputs that agree there give the same result, for every member list.
  * `c08_union_end` / `c08_union_cut` — EVERY fixed-size union that returns a value ends at `pos + size`, and returns the same
                            value from every cut of the input at or after that position (no covering member needed).
  * `c08_union_complete`  — if the input holds the `size` bytes, the result does not change when the input is cut after
                            them or extended (every member list).
  * `c08_union_short`     — for a COVERED union (`Fields.tightUnion`: some member is rigid and as large as the union) fewer
                            than `size` remaining bytes always give an error, never a value; `c08_union_short_eof`: the
                            error is `EOFError` when all members are rigid.
  * `c08_union_prefix` / `c08_union_window_tight` — the window theorem in the shape of `Core.read_prefix_bits` /
                            `Core.read_window_bits` for a covered union.
  * `c08_shortened_u` / `c08_never_fabricates_u` / `c08_extension_u` — the theorems of `Proofs/C08.lean` for `Ty.plainU`:
                            plain types (bit-fields included) plus covered unions anywhere (members of a covered union are
                            unrestricted). `plainU_of_plain`: the old fragment is the union-free part.
  * `c08_read_prefix_u` / `c08_read_window_u` / `c08_read_end_le_u` — the window theorems `Core.read_prefix_bits` /
                            `Core.read_window_bits` / `Core.read_end_le_bits` for `Ty.plainU` (same side conditions): a value
                            depends on nothing after its end position, also when unions occur anywhere inside.
  * `c08_union_members`   — for a union that is NOT covered, with members in `plainU`: a value returned from a shortened
                            input has exactly the member values and the end position of the complete input, and its raw
                            buffer is a prefix of the complete one. Nothing is invented, but the VALUE IS RETURNED.

  What is FALSE (model and library alike; see "Counter-examples" at the end): "fewer than `size` bytes ⇒ EOFError" for an
  arbitrary member list. An aligned union with tail padding (`union { uint8 a[5]; uint32 b; }`, size 8) parses 5, 6 or 7
  bytes into a value; so does a union whose only largest member is an aligned structure with tail padding. The members
  and the end position are those of the complete input (missing tail padding at the end of the input is accepted as for
  aligned structures), but the raw buffer kept by the object is shorter, so `c08_shortened` (equality of the model values,
  which include the buffer) does not extend to such unions; `c08_union_members` is what holds.
-/
import Proofs.C08
import Proofs.Spec.C08Union
import Proofs.Lemmas.C08UnionB
import Proofs.Lemmas.C08UnionC

namespace Cstruct.C08
open Cstruct Cstruct.Core

/-! ### A union alone: any member list -/

/-- **The result of reading a fixed-size union depends only on the `size` bytes at `pos`** (every member list, every
    context; value or error alike). -/
theorem c08_union_window (cfg : Cfg) (al : Bool) (fs : Fields) (sz : Nat) (hsz : (Ty.union al fs).size cfg = some sz)
    (c1 c2 : Ctx) (d1 d2 : Bytes) (pos : Nat) (hwin : sread d1 pos sz = sread d2 pos sz) :
    read cfg (.union al fs) c1 d1 pos = read cfg (.union al fs) c2 d2 pos := by
  rw [Lemmas.read_union, Lemmas.read_union, hsz]
  simp only [hwin]

/-- **A fixed-size union ends exactly `size` bytes after its start** (every member list, covered or not, also when the
    `read(size)` came back short: the library seeks to `start + size`). -/
theorem c08_union_end (cfg : Cfg) (al : Bool) (fs : Fields) (sz : Nat) (ctx : Ctx) (d : Bytes) (pos : Nat) (v : Val) (p : Nat)
    (hr : read cfg (.union al fs) ctx d pos = .ok (v, p)) (hsz : (Ty.union al fs).size cfg = some sz) : p = pos + sz := by
  rw [Lemmas.read_union, hsz] at hr
  simp only [] at hr
  obtain ⟨vs, _, h4⟩ := Core.Lemmas.bind_ok hr
  cases h4
  rfl

/-- **Cutting the input at or after the end position of a union changes nothing** (every member list): the truncation half
    of the window theorem needs no covering member. -/
theorem c08_union_cut (cfg : Cfg) (al : Bool) (fs : Fields) (ctx : Ctx) (d : Bytes) (pos : Nat) (v : Val) (p : Nat)
    (hr : read cfg (.union al fs) ctx d pos = .ok (v, p)) (q : Nat) (hq : p ≤ q) :
    read cfg (.union al fs) ctx (d.take q) pos = .ok (v, p) := by
  cases hsz : (Ty.union al fs).size cfg with
  | none => rw [Lemmas.read_union, hsz] at hr; cases hr
  | some sz =>
    have hp := c08_union_end cfg al fs sz ctx d pos v p hr hsz
    rw [← hr]
    exact c08_union_window cfg al fs sz hsz ctx ctx _ _ pos (Core.Lemmas.sread_take d pos sz q (by omega))

/-- **When the `size` bytes are there, nothing else matters**: the result on `d1` is the result on every input that starts
    with the first `pos + size` bytes of `d1` — cutting the input right after the union or extending it changes nothing
    (every member list), and a value ends at `pos + size`. -/
theorem c08_union_complete (cfg : Cfg) (al : Bool) (fs : Fields) (sz : Nat) (hsz : (Ty.union al fs).size cfg = some sz)
    (ctx : Ctx) (d1 d2 : Bytes) (pos : Nat) (hlen : pos + sz ≤ d1.length) (hpre : d1.take (pos + sz) <+: d2) :
    read cfg (.union al fs) ctx d2 pos = read cfg (.union al fs) ctx d1 pos ∧
    ∀ v p, read cfg (.union al fs) ctx d1 pos = .ok (v, p) → p = pos + sz := by
  obtain ⟨t, rfl⟩ := hpre
  have h1 : sread (d1.take (pos + sz)) pos sz = sread d1 pos sz := Core.Lemmas.sread_take d1 pos sz _ (Nat.le_refl _)
  have hl : (sread d1 pos sz).length = sz := Core.Lemmas.sread_length_of_le d1 pos sz hlen
  have h2 : sread (d1.take (pos + sz) ++ t) pos sz = sread d1 pos sz := by
    rw [Core.Lemmas.sread_append _ t pos sz (by rw [h1]; exact hl), h1]
  refine ⟨c08_union_window cfg al fs sz hsz ctx ctx _ _ pos h2, ?_⟩
  intro v p hr
  rw [Lemmas.read_union, hsz] at hr
  simp only [] at hr
  obtain ⟨vs, _, h4⟩ := Core.Lemmas.bind_ok hr
  cases h4
  rfl

/-! ### Covered unions -/

/-- **A covered union never yields a value from fewer than `size` bytes.** -/
theorem c08_union_short (cfg : Cfg) (al : Bool) (fs : Fields) (ht : Fields.tightUnion cfg al fs = true) (sz : Nat)
    (hsz : (Ty.union al fs).size cfg = some sz) (ctx : Ctx) (d : Bytes) (pos : Nat) (hshort : d.length - pos < sz) :
    ∃ e, read cfg (.union al fs) ctx d pos = .error e := by
  cases hr : read cfg (.union al fs) ctx d pos with
  | error e => exact ⟨e, rfl⟩
  | ok r =>
    exfalso
    rw [Lemmas.read_union, hsz] at hr
    simp only [] at hr
    obtain ⟨vs, h1, _⟩ := Core.Lemmas.bind_ok hr
    have := Lemmas.tight_full cfg al fs ht sz hsz [] _ vs h1
    have := Lemmas.sread_length d pos sz
    omega

/-- **… and the error is `EOFError`** when every member is rigid (fixed-width scalars, enums, pointers, fixed arrays,
    packed structures, covered unions of such). -/
theorem c08_union_short_eof (cfg : Cfg) (al : Bool) (fs : Fields) (hr : (Ty.union al fs).rigid cfg = true) (sz : Nat)
    (hsz : (Ty.union al fs).size cfg = some sz) (ctx : Ctx) (d : Bytes) (pos : Nat) (hshort : d.length - pos < sz) :
    read cfg (.union al fs) ctx d pos = .error .eof := by
  obtain ⟨k, hk, hE⟩ := Lemmas.rig_ty cfg _ hr
  rw [hsz] at hk; cases hk
  have h := hE ctx d pos
  cases hx : read cfg (.union al fs) ctx d pos with
  | error e => rw [hx] at h; cases h; rfl
  | ok r =>
    obtain ⟨v, p⟩ := r
    rw [hx] at h
    obtain ⟨a1, a2⟩ := h
    omega

/-- a rigid union is covered -/
theorem tight_of_rigid (cfg : Cfg) (al : Bool) (fs : Fields) (hr : (Ty.union al fs).rigid cfg = true) :
    Fields.tightUnion cfg al fs = true := by
  simp only [Ty.rigid, Bool.and_eq_true] at hr
  exact hr.2

/-- **Window theorem for a covered union**, in the shape of `Core.read_prefix_bits`: if reading succeeds on `d1` and ends at
    `p`, it succeeds with the same value and end position on every input that starts with the first `p` bytes of `d1`;
    and `p = pos + size`. -/
theorem c08_union_prefix (cfg : Cfg) (al : Bool) (fs : Fields) (ht : Fields.tightUnion cfg al fs = true) (ctx : Ctx)
    (d1 : Bytes) (pos : Nat) (v : Val) (p : Nat) (hr : read cfg (.union al fs) ctx d1 pos = .ok (v, p))
    (d2 : Bytes) (hpre : d1.take p <+: d2) :
    read cfg (.union al fs) ctx d2 pos = .ok (v, p) ∧ (Ty.union al fs).size cfg = some (p - pos) ∧ pos ≤ p := by
  have hr0 := hr
  rw [Lemmas.read_union] at hr
  cases hsz : (Ty.union al fs).size cfg with
  | none => rw [hsz] at hr; cases hr
  | some sz =>
    rw [hsz] at hr
    simp only [] at hr
    obtain ⟨vs, h1, h4⟩ := Core.Lemmas.bind_ok hr
    have hl := Lemmas.tight_full cfg al fs ht sz hsz [] _ vs h1
    have hl2 := Lemmas.sread_length d1 pos sz
    have hp : p = pos + sz := by cases h4; rfl
    subst hp
    refine ⟨?_, by rw [Nat.add_sub_cancel_left], Nat.le_add_right _ _⟩
    by_cases h0 : sz = 0
    · subst h0
      rw [← hr0]
      exact c08_union_window cfg al fs 0 hsz ctx ctx d2 d1 pos (by simp [sread])
    · rw [(c08_union_complete cfg al fs sz hsz ctx d1 d2 pos (by omega) hpre).1]
      exact hr0

/-- **Window corollary for a covered union**: nothing after the union's extent matters. -/
theorem c08_union_window_tight (cfg : Cfg) (al : Bool) (fs : Fields) (ht : Fields.tightUnion cfg al fs = true) (ctx : Ctx)
    (d1 : Bytes) (pos : Nat) (v : Val) (p : Nat) (hr : read cfg (.union al fs) ctx d1 pos = .ok (v, p)) (post : Bytes) :
    read cfg (.union al fs) ctx (d1.take p ++ post) pos = .ok (v, p) :=
  (c08_union_prefix cfg al fs ht ctx d1 pos v p hr _ (List.prefix_append _ _)).1

/-! ### Plain types, bit-fields and covered unions together -/

/-- the old fragment is the union-free part of the new one -/
theorem plainU_of_plain (cfg : Cfg) (ty : Ty) (h : ty.plain = true) : ty.plainU cfg = true :=
  Lemmas.plainU_of_plain cfg ty h

/-- **Extension theorem with unions** (`Core.read_extend` for `Ty.plainU`): a successful parse is unchanged on every input
    that extends the one it was obtained from. Plain types, bit-fields, packed / aligned / mixed structures, covered unions
    anywhere; every context, every start position. -/
theorem read_extend_u (cfg : Cfg) (ty : Ty) (hplain : ty.plainU cfg = true) (ctx : Ctx) (d1 : Bytes) (pos : Nat) (v : Val) (p : Nat)
    (hr : read cfg ty ctx d1 pos = .ok (v, p)) (d2 : Bytes) (hpre : d1 <+: d2) :
    read cfg ty ctx d2 pos = .ok (v, p) := by
  obtain ⟨t, rfl⟩ := hpre
  exact Lemmas.extU_read cfg d1 t ty hplain ctx pos _ hr

/-- **Any value returned from a shortened input is the value returned from the complete input** (`c08_shortened` with
    covered unions anywhere in the type). -/
theorem c08_shortened_u (cfg : Cfg) (ty : Ty) (hplain : ty.plainU cfg = true) (ctx : Ctx) (data : Bytes) (pos k : Nat) (v : Val) (p : Nat)
    (hr : read cfg ty ctx (data.take k) pos = .ok (v, p)) :
    read cfg ty ctx data pos = .ok (v, p) :=
  read_extend_u cfg ty hplain ctx (data.take k) pos v p hr data (List.take_prefix k data)

/-- **Contrapositive form** (`c08_never_fabricates` with covered unions): if the complete input parses to `(v, p)`, every
    cut of it fails or returns exactly `(v, p)`. -/
theorem c08_never_fabricates_u (cfg : Cfg) (ty : Ty) (hplain : ty.plainU cfg = true) (ctx : Ctx) (data : Bytes) (pos k : Nat) (v : Val) (p : Nat)
    (hfull : read cfg ty ctx data pos = .ok (v, p)) :
    (∃ e, read cfg ty ctx (data.take k) pos = .error e) ∨ read cfg ty ctx (data.take k) pos = .ok (v, p) := by
  cases h : read cfg ty ctx (data.take k) pos with
  | error e => exact Or.inl ⟨e, rfl⟩
  | ok r =>
    obtain ⟨v', p'⟩ := r
    have := c08_shortened_u cfg ty hplain ctx data pos k v' p' h
    rw [hfull] at this
    cases this
    exact Or.inr rfl

/-- The same for an arbitrary extension of the input. -/
theorem c08_extension_u (cfg : Cfg) (ty : Ty) (hplain : ty.plainU cfg = true) (ctx : Ctx) (d more : Bytes) (pos : Nat) (v : Val) (p : Nat)
    (hr : read cfg ty ctx d pos = .ok (v, p)) : read cfg ty ctx (d ++ more) pos = .ok (v, p) :=
  read_extend_u cfg ty hplain ctx d pos v p hr (d ++ more) (List.prefix_append d more)

/-- **Prefix (window) theorem with unions** (`Core.read_prefix_bits` for `Ty.plainU`, same side conditions: one `align`
    flag, power-of-two alignments, an aligned start, in aligned mode bit-fields that can share a unit aligned alike):
    if parsing succeeds on `d1` and ends at `p`, it succeeds with the same value and end position on every input that starts
    with the first `p` bytes of `d1`. -/
theorem c08_read_prefix_u (cfg : Cfg) (al : Bool) (g : Scalar → Nat) (ty : Ty) (hplain : ty.plainU cfg = true)
    (hbn : al = true → ty.bitsAlignBy cfg g = true)
    (hu : ty.uniformAlign al = true) (hp : ty.pow2Aligned cfg) (ctx : Ctx) (d1 : Bytes) (pos : Nat)
    (hal : ty.alignsDivide cfg pos = true) (v : Val) (p : Nat)
    (hr : read cfg ty ctx d1 pos = .ok (v, p)) (d2 : Bytes) (hpre : d1.take p <+: d2) :
    read cfg ty ctx d2 pos = .ok (v, p) :=
  Core.Lemmas.WinBits.read_prefix_bits_u cfg al g ty hplain hbn hu hp ctx d1 pos hal v p hr d2 hpre

/-- **Window corollary with unions**: the result depends on nothing after the end position. -/
theorem c08_read_window_u (cfg : Cfg) (al : Bool) (g : Scalar → Nat) (ty : Ty) (hplain : ty.plainU cfg = true)
    (hbn : al = true → ty.bitsAlignBy cfg g = true)
    (hu : ty.uniformAlign al = true) (hp : ty.pow2Aligned cfg) (ctx : Ctx) (d1 : Bytes) (pos : Nat)
    (hal : ty.alignsDivide cfg pos = true) (v : Val) (p : Nat)
    (hr : read cfg ty ctx d1 pos = .ok (v, p)) (post : Bytes) :
    read cfg ty ctx (d1.take p ++ post) pos = .ok (v, p) :=
  c08_read_prefix_u cfg al g ty hplain hbn hu hp ctx d1 pos hal v p hr _ (List.prefix_append _ _)

/-- **Where a successful read ends, with unions**: not before its start and at most at start + declared size. -/
theorem c08_read_end_le_u (cfg : Cfg) (al : Bool) (g : Scalar → Nat) (ty : Ty) (hplain : ty.plainU cfg = true)
    (hbn : al = true → ty.bitsAlignBy cfg g = true) (hu : ty.uniformAlign al = true) (hp : ty.pow2Aligned cfg) (ctx : Ctx)
    (d : Bytes) (pos : Nat) (hal : ty.alignsDivide cfg pos = true) (v : Val) (p : Nat)
    (hr : read cfg ty ctx d pos = .ok (v, p)) : pos ≤ p ∧ ∀ k, ty.size cfg = some k → p ≤ pos + k :=
  Core.Lemmas.WinBits.read_end_le_u cfg al g ty hplain hbn hu hp ctx d pos hal v p hr

/-! ### Unions that are not covered -/

/-- **A union that is not covered still invents nothing**: if it returns a value on an input `d1`, then on every extension
    `d2` of `d1` it returns a value with exactly the same members, whose raw buffer extends the one seen on `d1`
    (members in `plainU`, e.g. plain types), and the same end position (`pos + size`, `c08_union_end`). This is the
    statement that remains true for the counter-examples below. -/
theorem c08_union_members (cfg : Cfg) (al : Bool) (fs : Fields) (hm : Fields.plainU cfg fs = true) (ctx : Ctx)
    (d1 d2 : Bytes) (hpre : d1 <+: d2) (pos : Nat) (v : Val) (p : Nat)
    (hr : read cfg (.union al fs) ctx d1 pos = .ok (v, p)) :
    ∃ b1 b2 vs, v = .union b1 vs ∧ b1 <+: b2 ∧
      read cfg (.union al fs) ctx d2 pos = .ok (.union b2 vs, p) := by
  obtain ⟨t, rfl⟩ := hpre
  rw [Lemmas.read_union] at hr ⊢
  cases hsz : (Ty.union al fs).size cfg with
  | none => rw [hsz] at hr; cases hr
  | some sz =>
    rw [hsz] at hr
    simp only [] at hr ⊢
    obtain ⟨vs, h1, h4⟩ := Core.Lemmas.bind_ok hr
    cases h4
    obtain ⟨u, hu⟩ := Lemmas.sread_prefix d1 t pos sz
    refine ⟨_, sread (d1 ++ t) pos sz, vs, rfl, ⟨u, hu⟩, ?_⟩
    rw [← hu, Lemmas.extU_members cfg _ u fs hm [] vs h1]
    rfl

/-! ### Non-vacuity
  `union U { uint8 raw[4]; uint32 x; struct { uint16 a; uint16 b; } s; }` (packed): covered (by each member), rigid.
  `struct T { uint8 tag; U u; uint8 n; uint8 tail[n]; uint16 f:3; uint16 g:13; }`: a union between plain members, an
  expression-sized array and two bit-fields. `union W { uint8 raw[8]; wchar w[4]; A a; }`: covered by `raw`; the other
  members are a `wchar` array (not rigid: it can fail with a UnicodeDecodeError) and the union `A` of the
  counter-examples below, which is not covered itself. -/
namespace UEx
def cfgL : Cfg := { endian := .little, ptr := .pint 8 false, ptrAlign := 8, consts := [] }
def u8 : Ty := .sc (.pint 1 false) 1
def u16 : Ty := .sc (.pint 2 false) 2
def u32 : Ty := .sc (.pint 4 false) 4
def sFs : Fields := .cons "a" false u16 none (.cons "b" false u16 none .nil)
def uFs : Fields := .cons "raw" false (.arr u8 (.fixed 4)) none (.cons "x" false u32 none
  (.cons "s" false (.struct false sFs) none .nil))
def tyU : Ty := .union false uFs
def tyT : Ty := .struct false (.cons "tag" false u8 none (.cons "u" false tyU none (.cons "n" false u8 none
  (.cons "tail" false (.arr u8 (.expr ["n"])) none (.cons "f" false u16 (some 3) (.cons "g" false u16 (some 13) .nil))))))
def aFs : Fields := .cons "a" false (.arr u8 (.fixed 5)) none (.cons "b" false u32 none .nil)
def tyA : Ty := .union true aFs
def wFs : Fields := .cons "raw" false (.arr u8 (.fixed 8)) none (.cons "w" false (.arr (.sc .wchar 2) (.fixed 4)) none
  (.cons "a" false tyA none .nil))
def tyW : Ty := .union false wFs

example : tyU.size cfgL = some 4 ∧ Fields.tightUnion cfgL false uFs = true ∧ tyU.rigid cfgL = true ∧
    tyU.plainU cfgL = true ∧ tyU.plain = false := by decide +kernel
example : tyT.plainU cfgL = true ∧ tyT.plain = false ∧ tyT.noBits = false ∧ tyT.size cfgL = none := by decide +kernel
example : tyW.size cfgL = some 8 ∧ Fields.tightUnion cfgL false wFs = true ∧ tyW.rigid cfgL = false ∧
    tyW.plainU cfgL = true ∧ Fields.plainU cfgL wFs = false := by decide +kernel
-- an array of unions, a union in a union, a union in an aligned structure
example : (Ty.arr tyU (.fixed 3)).plainU cfgL = true ∧
    (Ty.union false (.cons "u" false tyU none (.cons "y" false u16 none .nil))).plainU cfgL = true ∧
    (Ty.struct true (.cons "a" false u8 none (.cons "u" false (.union true uFs) none .nil))).plainU cfgL = true := by
  decide +kernel

/-- the theorems applied: three remaining bytes never give a `U`, and the error is `EOFError` -/
example (ctx : Ctx) (pre : Bytes) (a b c : UInt8) : read cfgL tyU ctx (pre ++ [a, b, c]) pre.length = .error .eof :=
  c08_union_short_eof cfgL false uFs (by decide +kernel) 4 (by decide +kernel) ctx _ _ (by simp)
/-- `W` is not rigid but covered: seven bytes never give a `W` -/
example (ctx : Ctx) (d : Bytes) (h : d.length = 7) : ∃ e, read cfgL tyW ctx d 0 = .error e :=
  c08_union_short cfgL false wFs (by decide +kernel) 8 (by decide +kernel) ctx d 0 (by omega)
/-- whatever `T` value a cut input returns is the value of the complete input -/
example (ctx : Ctx) (data : Bytes) (k : Nat) (v : Val) (p : Nat) (h : read cfgL tyT ctx (data.take k) 0 = .ok (v, p)) :
    read cfgL tyT ctx data 0 = .ok (v, p) :=
  c08_shortened_u cfgL tyT (by decide +kernel) ctx data 0 k v p h
/-- nothing after the end position of a parsed `T` matters (union, expression-sized array and bit-fields inside) -/
example (ctx : Ctx) (d post : Bytes) (v : Val) (p : Nat) (h : read cfgL tyT ctx d 0 = .ok (v, p)) :
    read cfgL tyT ctx (d.take p ++ post) 0 = .ok (v, p) :=
  c08_read_window_u cfgL false (fun _ => 0) tyT (by decide +kernel) (fun h => by cases h) (by decide +kernel)
    ⟨Or.inr ⟨0, rfl⟩, ⟨Or.inr ⟨0, rfl⟩, Or.inr ⟨2, rfl⟩, ⟨Or.inr ⟨1, rfl⟩, Or.inr ⟨1, rfl⟩, trivial⟩, trivial⟩,
      Or.inr ⟨0, rfl⟩, Or.inr ⟨0, rfl⟩, Or.inr ⟨1, rfl⟩, Or.inr ⟨1, rfl⟩, trivial⟩
    ctx d 0 (by decide +kernel) v p h post
#guard (read cfgL tyU [] [1, 2, 3, 4, 9] 0).toOption.isSome
#guard (read cfgL tyU [] [1, 2, 3] 0).map (·.2) = .error .eof
#guard (read cfgL tyT [] [7, 1, 2, 3, 4, 2, 8, 9, 0xff, 0xff] 0).map (·.2) = .ok 10
#guard (read cfgL tyT [] [7, 1, 2, 3, 4, 2, 8, 9, 0xff] 0).map (·.2) = .error .eof
#guard (read cfgL tyT [] [7, 1, 2, 3] 0).map (·.2) = .error .eof

/-! ### Counter-examples: unions that are not covered (model = library, checked by the differential run of this check)
  `A`: aligned `union { uint8 a[5]; uint32 b; }`: size 8 = 5 rounded up to the alignment 4. Five, six or seven bytes parse
  to a value (members and end position as on the complete input, raw buffer = the bytes there were).
  `V`: aligned `union { struct { uint32 a; uint8 b; } s; uint16 c; }`: the structure has size 8 but consumes 5 bytes and
  skips its tail padding with a seek. Real library, `cs.load(..., align=True)`: `cs.A(bytes(range(1, 6)))` returns
  `<A a=[1, 2, 3, 4, 5] b=0x4030201>`, `cs.A(bytes(4))` raises EOFError. -/
def vFs : Fields := .cons "s" false (.struct true (.cons "a" false u32 none (.cons "b" false u8 none .nil))) none
  (.cons "c" false u16 none .nil)
def tyV : Ty := .union true vFs
example : tyA.size cfgL = some 8 ∧ Fields.tightUnion cfgL true aFs = false ∧ Fields.plainU cfgL aFs = true := by decide +kernel
example : tyV.size cfgL = some 8 ∧ Fields.tightUnion cfgL true vFs = false ∧ Fields.plainU cfgL vFs = true := by decide +kernel
def endOf (r : Except Err (Val × Nat)) : Except Err Nat := r.map (·.2)
def bufOf (r : Except Err (Val × Nat)) : Option Bytes := match r with | .ok (.union b _, _) => some b | _ => none
#guard endOf (read cfgL tyA [] [1, 2, 3, 4] 0) = .error .eof
#guard endOf (read cfgL tyA [] [1, 2, 3, 4, 5] 0) = .ok 8            -- a value from 5 < 8 bytes
#guard bufOf (read cfgL tyA [] [1, 2, 3, 4, 5] 0) = some [1, 2, 3, 4, 5]
#guard endOf (read cfgL tyA [] [1, 2, 3, 4, 5, 6, 7] 0) = .ok 8
#guard endOf (read cfgL tyA [] [1, 2, 3, 4, 5, 6, 7, 8, 9] 0) = .ok 8
#guard bufOf (read cfgL tyA [] [1, 2, 3, 4, 5, 6, 7, 8, 9] 0) = some [1, 2, 3, 4, 5, 6, 7, 8]
#guard endOf (read cfgL tyV [] [1, 2, 3, 4, 5] 0) = .ok 8
#guard endOf (read cfgL tyV [] [1, 2, 3, 4, 5, 6, 7, 8] 0) = .ok 8

end UEx

end Cstruct.C08
