/-
  C02 — byte fidelity: parse-then-dump reproduces every data-carrying input byte.

  Property theorems (fragment S of `Proofs/Spec/Core.lean`: fixed-width ints, floats as bit patterns, char, void, enums and
  pointers over ints, fixed arrays, nested packed or aligned structures, no bit-fields), over the read/write model.
  The data mask `tyMask` is defined in `Proofs/Spec/C02.lean` from the layout, independently of the writer.
  Bit-fields (mask per bit: C06's `c06_put_take` says unassigned bits are written as zero), LEB128 minimality
  (`c05_leb_minimal`), terminators (`c07_nullterm_write`) are the other ingredients of the property; unions are findings F9F10.
-/
import Proofs.Spec.C02
import Proofs.Lemmas.C02

namespace Cstruct.C02
open Cstruct Cstruct.Core

/-- **Packed mode: parse-then-dump is the identity on the consumed bytes.** -/
theorem c02_fidelity_packed (cfg : Cfg) (ty : Ty) (hS : ty.fragS cfg = true) (hu : ty.uniformAlign false = true)
    (ctx : Ctx) (d : Bytes) (pos : Nat) (hpos : pos ≤ d.length) (v : Val) (p : Nat) (hr : read cfg ty ctx d pos = .ok (v, p)) :
    write cfg ty v pos = .ok ((d.drop pos).take (p - pos)) ∧ pos ≤ p ∧ p ≤ d.length :=
  Lemmas.c02_fidelity_packed_alt cfg ty hS hu ctx d pos hpos v p hr
-- (Without `pos ≤ d.length` the bound `p ≤ d.length` fails for zero-size types read beyond the end of the input, e.g.
--  `void` at position 1 of the empty input: `Lemmas.c02_fidelity_packed_counterexample`.)

/-- **Aligned mode: parse-then-dump yields exactly as many bytes as were consumed, identical to the input at every
    data-carrying byte and zero at every padding byte.** (Aligned start, power-of-two alignments, input long enough for the
    whole extent including the tail padding.) -/
theorem c02_fidelity_aligned (cfg : Cfg) (al : Bool) (ty : Ty) (hS : ty.fragS cfg = true) (hu : ty.uniformAlign al = true)
    (hp : ty.pow2Aligned cfg) (ctx : Ctx) (d : Bytes) (pos : Nat) (hal : ty.alignsDivide cfg pos = true) (v : Val) (p : Nat)
    (hr : read cfg ty ctx d pos = .ok (v, p)) (hlen : p ≤ d.length) :
    ∃ bs, write cfg ty v pos = .ok bs ∧ bs.length = p - pos ∧ pos ≤ p ∧
      bs = applyMask (tyMask cfg ty) ((d.drop pos).take (p - pos)) ∧ (tyMask cfg ty).length = p - pos := by
  exact Lemmas.fidelity_aligned cfg al ty hS hu hp ctx d pos hal v p hr hlen

/-- In packed mode there is no padding: every byte of a fragment-S type carries data. -/
theorem c02_mask_packed (cfg : Cfg) (ty : Ty) (hS : ty.fragS cfg = true) (hu : ty.uniformAlign false = true) (n : Nat)
    (hsz : ty.size cfg = some n) : tyMask cfg ty = List.replicate n true := by
  exact Lemmas.mask_packed_ty cfg ty hS hu n hsz

/-! ### Non-vacuity -/
example : tyMask Cstruct.Core.cfg0 Cstruct.Core.ty0 =
    [true, false, true, true, true, true, true, false, true, true, true, true] := by decide +kernel

end Cstruct.C02
