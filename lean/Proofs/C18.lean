/-
  C18 — incrementally built structures equal the one-shot definition.

  Property theorems over `CstructModel/Commit.lean` (add_field / commit with the offsets that persist on the Field objects)
  and `Fields.layout` (`CstructModel/Ty.lean`). Helper lemmas in `Proofs/Lemmas/C18.lean`.
  By correspondence only: that `commit` reinstalls every generated method and recompiles the reader (`_update_fields` with
  `__compiled__`), checked on the real classes for every way of splitting generated field lists into batches.
-/
import CstructModel.Commit
import Proofs.Lemmas.C18
import Proofs.Lemmas.C18Aligned

namespace Cstruct.C18
open Cstruct Cstruct.Commit

def len : Fields → Nat
  | .nil => 0
  | .cons _ _ _ _ r => len r + 1

/-- With no persisted offsets the incremental layout is the one-shot layout. -/
theorem c18_fresh (cfg : Cfg) (al : Bool) (fs : Fields) (st : LState) (n : Nat) :
    layoutP cfg al fs (List.replicate n none) st = Fields.layout cfg al fs st := by
  exact Lemmas.fresh cfg al fs st n

/-- **Committing again changes nothing** (no stale offset survives): laying out the same fields with the offsets the
    previous commit recorded gives the same size, alignment and offsets. Stated for structures without bit-fields in aligned
    mode with power-of-two alignments, and for every structure in packed mode. -/
theorem c18_idem_packed (cfg : Cfg) (fs : Fields) (sz : Option Nat) (a : Nat) (offs : List (Option Nat))
    (h : Fields.layout cfg false fs LState.init = .ok (sz, a, offs)) :
    commit cfg false fs offs = .ok (sz, a, offs) := by
  exact Lemmas.idem_packed cfg fs LState.init sz a offs h

theorem c18_idem_aligned (cfg : Cfg) (fs : Fields) (ms : List (Nat × Nat)) (hm : Cstruct.C04.members cfg fs = some ms)
    (hp : ∀ m ∈ ms, Cstruct.C04.isPow2 m.2) (sz : Option Nat) (a : Nat) (offs : List (Option Nat))
    (h : Fields.layout cfg true fs LState.init = .ok (sz, a, offs)) :
    commit cfg true fs offs = .ok (sz, a, offs) := by
  exact Lemmas.idem_aligned cfg fs ms LState.init sz a offs hm hp h

/-- **Extending a committed structure = defining it in one piece** (packed mode, any fields): committing `fs`, then adding
    `gs` and committing again yields exactly the one-shot layout of `fs ++ gs`. -/
theorem c18_extend_packed (cfg : Cfg) (fs gs : Fields) (sz : Option Nat) (a : Nat) (offs : List (Option Nat))
    (h : Fields.layout cfg false fs LState.init = .ok (sz, a, offs)) :
    commit cfg false (Fields.append fs gs) offs = Fields.layout cfg false (Fields.append fs gs) LState.init := by
  exact Lemmas.ext_packed cfg fs gs LState.init sz a offs h

/-- The same in aligned mode for members of fixed size without bit-fields and power-of-two alignments. -/
theorem c18_extend_aligned (cfg : Cfg) (fs gs : Fields) (ms : List (Nat × Nat)) (hm : Cstruct.C04.members cfg (Fields.append fs gs) = some ms)
    (hp : ∀ m ∈ ms, Cstruct.C04.isPow2 m.2) (sz : Option Nat) (a : Nat) (offs : List (Option Nat))
    (h : Fields.layout cfg true fs LState.init = .ok (sz, a, offs)) :
    commit cfg true (Fields.append fs gs) offs = Fields.layout cfg true (Fields.append fs gs) LState.init := by
  exact Lemmas.ext_aligned cfg fs gs ms LState.init sz a offs hm hp h

/-- **Confluence (packed mode):** whatever the split into batches, committing after each batch ends with the one-shot
    layout of all fields. -/
theorem c18_confluence_packed (cfg : Cfg) (batches : List Fields) (r : Fields × Option Nat × Nat × List (Option Nat))
    (h : commitAll cfg false .nil [] batches = .ok r) :
    Fields.layout cfg false r.1 LState.init = .ok r.2 ∧ r.1 = batches.foldl Fields.append .nil := by
  exact Lemmas.confluence_packed cfg batches .nil [] (some 0) 0 r rfl h

/-- **Confluence (aligned mode):** the same for members of fixed size without bit-fields and power-of-two alignments. -/
theorem c18_confluence_aligned (cfg : Cfg) (batches : List Fields) (ms : List (Nat × Nat))
    (hm : Cstruct.C04.members cfg (batches.foldl Fields.append .nil) = some ms) (hp : ∀ m ∈ ms, Cstruct.C04.isPow2 m.2)
    (r : Fields × Option Nat × Nat × List (Option Nat)) (h : commitAll cfg true .nil [] batches = .ok r) :
    Fields.layout cfg true r.1 LState.init = .ok r.2 ∧ r.1 = batches.foldl Fields.append .nil := by
  exact Lemmas.confluence_aligned cfg batches .nil [] _ _ r ms hm hp rfl h

/-! ### Non-vacuity -/
def cfg0 : Cfg := { endian := .little, ptr := .pint 8 false, ptrAlign := 8, consts := [] }
def f1 : Fields := .cons "a" false (.sc (.pint 1 false) 1) none .nil
def f2 : Fields := .cons "b" false (.sc (.pint 4 false) 4) none (.cons "c" false (.sc (.pint 2 false) 2) none .nil)
example : (commitAll cfg0 true .nil [] [f1, f2]).map (·.2) = .ok (some 12, 4, [some 0, some 4, some 8]) := by decide +kernel
example : commit cfg0 true (Fields.append f1 f2) [some 0] = Fields.layout cfg0 true (Fields.append f1 f2) LState.init := by decide +kernel
def f3 : Fields := .cons "d" false (.sc (.pint 8 false) 8) none (.cons "e" false (.sc (.pint 1 false) 1) none .nil)
example : Cstruct.C04.members cfg0 ([f1, f2, f3].foldl Fields.append .nil) = some [(1, 1), (4, 4), (2, 2), (8, 8), (1, 1)] := by
  decide +kernel
example : (commitAll cfg0 true .nil [] [f1, f2, f3]).map (·.2) =
    .ok (some 32, 8, [some 0, some 4, some 8, some 16, some 24]) := by decide +kernel
example : (commitAll cfg0 true .nil [] [f1, f2, f3]).map (·.2) =
    Fields.layout cfg0 true ([f1, f2, f3].foldl Fields.append .nil) LState.init := by decide +kernel

end Cstruct.C18
