/-
  C03 — the compiler itself.  `CstructModel/Compile.lean` is a model of `_ReadSourceGenerator` (compiler.py): from a field
  list and its layout to the plan of the source it generates (`compile`; `.error ()` = the generator raises and the
  structure keeps the interpreted reader).  The check compares, for every generated structure, the model's plan with the
  plan `harness/srcplan.py` extracts from the source the real compiler produced (exact equality), and the model's
  `.error ()` with the `__compiled__` flag.  What is proved here, for every configuration and every field list:

  * `c03_compile_validates` — whatever the compiler emits for a well-formed structure is accepted by the plan validator
        (`Compiler.planOK`, the verified validator of `Proofs/C03.lean`);
  * `c03_compile_refines`   — hence, for every well-formed structure for which the compiler does not fall back, the
        compiled reader refines the interpreted reader (`c03_compiled_refines`): if the compiled reader returns, the
        interpreted reader returns the same value, the same end position and the same sizes of byte-occupying fields.

  The well-formedness hypothesis `compileWF` (Proofs/Spec/C03Compile.lean) is a decidable predicate over the top-level
  members; it excludes, besides shapes that no definition built from the type table has, arrays of `void` and the known
  finding F23 (aligned bit-fields whose storage type has alignment ≠ size: int24, int48).
-/
import Proofs.Lemmas.C03CompileMain
import Proofs.C03

namespace Cstruct.Compiler.C03
open Cstruct Cstruct.Compiler Cstruct.Core.Lemmas

theorem c03_compile_validates (cfg : Cfg) (al : Bool) (fs : Fields) (sz : Option Nat) (sa : Nat)
    (offs : List (Option Nat)) (plan : Plan)
    (hl : structLayout cfg al fs = .ok (sz, sa, offs)) (hwf : compileWF cfg al fs = true)
    (hc : compile cfg al fs offs = .ok plan) :
    planOK cfg al fs plan = true := by
  rw [planOK, hl]
  have had : AlignDvd cfg al sa fs := by
    cases al with
    | false => exact alignDvd_false cfg sa fs
    | true => exact (layout_alignDvd cfg true fs LState.init sz sa offs hl (Or.inl rfl) (compileWF_allP2 cfg fs hwf)).2
  exact genFields_ok cfg al sa fs offs LState.init sz sa hl hwf had GState.init _ fs offs plan (inv_init cfg al fs offs) hc

theorem c03_compile_refines (cfg : Cfg) (al : Bool) (fs : Fields) (sz : Option Nat) (sa : Nat)
    (offs : List (Option Nat)) (plan : Plan) (data : Bytes) (pos : Nat)
    (hl : structLayout cfg al fs = .ok (sz, sa, offs)) (hwf : compileWF cfg al fs = true)
    (hc : compile cfg al fs offs = .ok plan)
    (v : Val) (szs : List (String × Nat)) (p : Nat)
    (hr : readCompiled cfg al fs plan data pos = .ok (v, szs, p)) :
    ∃ szs', readStructWithSizes cfg al fs data pos = .ok (v, szs', p) ∧
      szs.filter (fun e => e.2 ≠ 0) = szs'.filter (fun e => e.2 ≠ 0) :=
  c03_compiled_refines cfg al fs plan data pos (c03_compile_validates cfg al fs sz sa offs plan hl hwf hc)
    v szs p hr

-- non-vacuity: the sample structure of `Proofs/Spec/C03.lean` (aligned; a bit-field run, a gap, a nested structure, an
-- array, a void member, an int24) is well-formed, and the model of the compiler emits exactly the plan that the real
-- compiler's source contains today
example : compileWF samplecfg true sampleFields = true ∧
    structLayout samplecfg true sampleFields = .ok (some 24, 4, [some 0, none, some 4, some 8, some 16, some 20, some 20]) ∧
    compile samplecfg true sampleFields [some 0, none, some 4, some 8, some 16, some 20, some 20] = .ok samplePlan := by
  refine ⟨by decide +kernel, sample_layout, by decide +kernel⟩

-- a bit-field that continues its unit in an aligned structure (alignment statement, then a seek in front of a void member
-- while the validator does not know the static position): the model emits the plan with the seek, the validator accepts it
example : compileWF samplecfg true contFields = true ∧
    structLayout samplecfg true contFields = .ok (some 8, 4, [some 0, none, some 2, some 4]) ∧
    compile samplecfg true contFields [some 0, none, some 2, some 4] = .ok contPlan ∧
    planOK samplecfg true contFields contPlan = true := by
  have h1 : compileWF samplecfg true contFields = true := by decide +kernel
  have h2 : structLayout samplecfg true contFields = .ok (some 8, 4, [some 0, none, some 2, some 4]) := by decide +kernel
  have h3 : compile samplecfg true contFields [some 0, none, some 2, some 4] = .ok contPlan := by decide +kernel
  exact ⟨h1, h2, h3, c03_compile_validates _ _ _ _ _ _ _ h2 h1 h3⟩

end Cstruct.Compiler.C03
