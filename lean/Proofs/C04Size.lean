/-
  C04, second half — declared size = bytes read = bytes written (fragment S), derived from the core theorems.
-/
import Proofs.Core

namespace Cstruct.C04
open Cstruct Cstruct.Core

/-- For every fixed-size type of fragment S: parsing a long-enough input from an aligned start consumes exactly `len(T)`
    bytes and yields a value of the type; dumping any value of the type produces exactly `len(T)` bytes. -/
theorem c04_size_read_write (cfg : Cfg) (al : Bool) (ty : Ty) (hS : ty.fragS cfg = true) (hu : ty.uniformAlign al = true)
    (hp : ty.pow2Aligned cfg) (n : Nat) (hsz : ty.size cfg = some n) :
    (∀ ctx data pos, pos + n ≤ data.length → ty.alignsDivide cfg pos = true →
        ∃ v, read cfg ty ctx data pos = .ok (v, pos + n) ∧ HasTy cfg v ty) ∧
    (∀ v pos, HasTy cfg v ty → ty.alignsDivide cfg pos = true → ∃ bs, write cfg ty v pos = .ok bs ∧ bs.length = n) := by
  refine ⟨fun ctx data pos hlen hal => read_size_S cfg al ty hS hu hp ctx data pos n hsz hlen hal, ?_⟩
  intro v pos hv hal
  obtain ⟨bs, hw, h⟩ := write_total_S cfg al ty hS hu hp v hv pos hal
  rw [hsz] at h
  exact ⟨bs, hw, (Option.some.inj h).symm⟩

end Cstruct.C04
