/-
  C18 — the update protocol (`add_field` / `start_update()` / `commit()`) as a state machine: every history ends consistent.

  Model: `CstructModel/Update.lean` (state = `__fields__` with the offsets on the Field objects, the committed view, the
  `__updating__` flag; operations = add_field, add_field raising before the append, entering a block, leaving it normally or
  through an exception, explicit commit; nested blocks as the real code treats them: the inner exit clears the flag).
  Specification-side definitions in `Proofs/Spec/C18Update.lean`, helper lemmas in `Proofs/Lemmas/C18Update.lean`.

  The theorems are about histories in which no `commit()` itself raised (`broken = false`): a commit that raises (straddled
  bit-field, duplicate field name) leaves the appended field in `__fields__`, and when it happens in the `finally:` of
  `start_update` the flag stays set - `c18_update_failed_commit` states exactly what such a call leaves behind.
  By correspondence only (harness/v4_c18upd.py): that the real classes follow the model operation by operation, and that what
  commit regenerates (`__init__`, `__eq__`, `__hash__`, the compiled reader) belongs to the committed list.
-/
import Proofs.Spec.C18Update
import Proofs.Lemmas.C18Update

namespace Cstruct.C18Update
open Cstruct Cstruct.Commit Cstruct.Update

/-- The invariant is inductive: it survives every operation after which no commit has raised. -/
theorem c18_update_inv (cfg : Cfg) (al : Bool) (s : UState) (ops : List Op) (h : Inv cfg al s)
    (hb : (run cfg al s ops).broken = false) : Inv cfg al (run cfg al s ops) :=
  Lemmas.run_inv ops h hb

/-- **Every history ends consistent.** From a state satisfying the invariant (in particular from the empty structure), after any
    list of operations - any nesting of blocks, blocks left through exceptions, add_field calls that raise - in which no commit
    raised: if the flag is down, the committed view is the view of the current `__fields__`. The flag is down after every
    `exitOk` / `exitExc`, and then stays down across `commit` and `addField` (which commits at once) until the next `enter`. -/
theorem c18_update_consistent (cfg : Cfg) (al : Bool) (s : UState) (ops : List Op) (h : Inv cfg al s)
    (hb : (run cfg al s ops).broken = false) : Consistent cfg al (run cfg al s ops) :=
  Lemmas.inv_consistent (Lemmas.run_inv ops h hb)

theorem c18_update_consistent_init (cfg : Cfg) (al : Bool) (ops : List Op)
    (hb : (run cfg al UState.init ops).broken = false) : Consistent cfg al (run cfg al UState.init ops) :=
  c18_update_consistent cfg al UState.init ops (Lemmas.inv_init cfg al) hb

/-- **The operations that commit establish the view, whatever the state before** (so also inside an open block, for an explicit
    `commit()`): after `exitOk` / `exitExc` / `commit` / an `addField` executed with the flag down, if the commit returned,
    the committed list is `__fields__`, the layout is `commit()` over that list from the offsets the fields carried, and the
    fields now carry the offsets of that layout; an exit has cleared the flag. -/
theorem c18_update_commit_point (cfg : Cfg) (al : Bool) (s : UState) (op : Op) (hc : commits s op = true)
    (he : (step cfg al s op).commitErr = none) :
    view cfg al (atCommit s op).1 (atCommit s op).2 = .ok (step cfg al s op).layout ∧
      (step cfg al s op).cfields = (atCommit s op).1 ∧ (step cfg al s op).fields = (atCommit s op).1 ∧
      (step cfg al s op).persisted = (step cfg al s op).layout.2.2 ∧
      ((op = .exitOk ∨ op = .exitExc) → (step cfg al s op).updating = false) := by
  cases op with
  | addField n ty bits =>
    have hu : s.updating = false := by simpa [commits] using hc
    rw [Lemmas.step_addField, hu] at he ⊢
    simp only [Bool.false_eq_true, ↓reduceIte] at he ⊢
    obtain ⟨sz, a, offs, hv⟩ := Lemmas.commitStep_commitErr_none he
    rw [Lemmas.commitStep_ok hv]
    exact ⟨hv, rfl, rfl, rfl, fun h => by rcases h with h | h <;> cases h⟩
  | addFieldFails => cases hc
  | enter => cases hc
  | exitOk =>
    cases hv : view cfg al s.fields s.persisted with
    | error e =>
      have : (step cfg al s .exitOk).commitErr = some e := by
        show (exitStep cfg al s).commitErr = some e
        rw [Lemmas.exitStep_err hv]; exact (Lemmas.commitStep_err hv).2.2.1
      rw [this] at he; cases he
    | ok L =>
      obtain ⟨sz, a, offs⟩ := L
      show view cfg al s.fields s.persisted = .ok (exitStep cfg al s).layout ∧ (exitStep cfg al s).cfields = s.fields ∧
        (exitStep cfg al s).fields = s.fields ∧ (exitStep cfg al s).persisted = (exitStep cfg al s).layout.2.2 ∧ (_ → (exitStep cfg al s).updating = false)
      rw [Lemmas.exitStep_ok hv]
      exact ⟨hv, rfl, rfl, rfl, fun _ => rfl⟩
  | exitExc =>
    cases hv : view cfg al s.fields s.persisted with
    | error e =>
      have : (step cfg al s .exitExc).commitErr = some e := by
        show (exitStep cfg al s).commitErr = some e
        rw [Lemmas.exitStep_err hv]; exact (Lemmas.commitStep_err hv).2.2.1
      rw [this] at he; cases he
    | ok L =>
      obtain ⟨sz, a, offs⟩ := L
      show view cfg al s.fields s.persisted = .ok (exitStep cfg al s).layout ∧ (exitStep cfg al s).cfields = s.fields ∧
        (exitStep cfg al s).fields = s.fields ∧ (exitStep cfg al s).persisted = (exitStep cfg al s).layout.2.2 ∧ (_ → (exitStep cfg al s).updating = false)
      rw [Lemmas.exitStep_ok hv]
      exact ⟨hv, rfl, rfl, rfl, fun _ => rfl⟩
  | commit =>
    obtain ⟨sz, a, offs, hv⟩ := Lemmas.commitStep_commitErr_none (s := s) he
    show view cfg al s.fields s.persisted = .ok (commitStep cfg al s).layout ∧ (commitStep cfg al s).cfields = s.fields ∧
      (commitStep cfg al s).fields = s.fields ∧ (commitStep cfg al s).persisted = (commitStep cfg al s).layout.2.2 ∧ _
    rw [Lemmas.commitStep_ok hv]
    exact ⟨hv, rfl, rfl, rfl, fun h => by rcases h with h | h <;> cases h⟩

/-- **What a raising commit leaves behind:** the committed view is untouched, the field stays appended, and the flag keeps the
    value it had - also when the commit was the one in the `finally:` of `start_update` (the block is over, `__updating__`
    stays `True`, and later `add_field` calls no longer commit). -/
theorem c18_update_failed_commit (cfg : Cfg) (al : Bool) (s : UState) (op : Op) (e : Err)
    (he : (step cfg al s op).commitErr = some e) :
    commits s op = true ∧ view cfg al (atCommit s op).1 (atCommit s op).2 = .error e ∧
      (step cfg al s op).cfields = s.cfields ∧ (step cfg al s op).layout = s.layout ∧
      (step cfg al s op).fields = (atCommit s op).1 ∧ (step cfg al s op).updating = s.updating ∧
      (step cfg al s op).broken = true := by
  cases op with
  | addField n ty bits =>
    rw [Lemmas.step_addField] at he ⊢
    cases hu : s.updating with
    | true => rw [hu] at he; simp only [↓reduceIte] at he; cases he
    | false =>
      rw [hu] at he
      simp only [Bool.false_eq_true, ↓reduceIte] at he ⊢
      have hv := Lemmas.commitStep_commitErr_some he
      obtain ⟨h1, h2, _, h4⟩ := Lemmas.commitStep_err hv
      exact ⟨by simp [commits, hu], hv, h1, h2, Lemmas.commitStep_fields _ _ _,
        by rw [Lemmas.commitStep_updating]; exact hu, h4⟩
  | addFieldFails => cases he
  | enter => cases he
  | exitOk =>
    cases hv : view cfg al s.fields s.persisted with
    | ok L =>
      obtain ⟨sz, a, offs⟩ := L
      have : (step cfg al s .exitOk).commitErr = none := by
        show (exitStep cfg al s).commitErr = none
        rw [Lemmas.exitStep_ok hv]
      rw [this] at he; cases he
    | error e' =>
      have hs : step cfg al s .exitOk = commitStep cfg al s := Lemmas.exitStep_err hv
      rw [hs] at he ⊢
      obtain ⟨h1, h2, h3, h4⟩ := Lemmas.commitStep_err hv
      rw [h3] at he; cases he
      exact ⟨rfl, hv, h1, h2, Lemmas.commitStep_fields _ _ _, Lemmas.commitStep_updating _ _ _, h4⟩
  | exitExc =>
    cases hv : view cfg al s.fields s.persisted with
    | ok L =>
      obtain ⟨sz, a, offs⟩ := L
      have : (step cfg al s .exitExc).commitErr = none := by
        show (exitStep cfg al s).commitErr = none
        rw [Lemmas.exitStep_ok hv]
      rw [this] at he; cases he
    | error e' =>
      have hs : step cfg al s .exitExc = commitStep cfg al s := Lemmas.exitStep_err hv
      rw [hs] at he ⊢
      obtain ⟨h1, h2, h3, h4⟩ := Lemmas.commitStep_err hv
      rw [h3] at he; cases he
      exact ⟨rfl, hv, h1, h2, Lemmas.commitStep_fields _ _ _, Lemmas.commitStep_updating _ _ _, h4⟩
  | commit =>
    have hv := Lemmas.commitStep_commitErr_some (s := s) he
    obtain ⟨h1, h2, _, h4⟩ := Lemmas.commitStep_err hv
    exact ⟨rfl, hv, h1, h2, Lemmas.commitStep_fields _ _ _, Lemmas.commitStep_updating _ _ _, h4⟩

/-- **Nothing is ever un-added, nothing is committed that is not in the list:** in every reachable state - inside blocks, after
    faults, after commits that raised - the committed field list is a prefix of `__fields__`, and `__fields__` extends what it
    was before. -/
theorem c18_update_prefix (cfg : Cfg) (al : Bool) (s : UState) (ops : List Op) (h : IsPrefix s.cfields s.fields) :
    IsPrefix (run cfg al s ops).cfields (run cfg al s ops).fields ∧ IsPrefix s.fields (run cfg al s ops).fields :=
  ⟨Lemmas.run_prefix ops h, Lemmas.run_fields cfg al ops s⟩

theorem c18_update_prefix_init (cfg : Cfg) (al : Bool) (ops : List Op) :
    IsPrefix (run cfg al UState.init ops).cfields (run cfg al UState.init ops).fields :=
  (c18_update_prefix cfg al UState.init ops ⟨.nil, rfl⟩).1

/-- **Faults and batch boundaries are unobservable (packed mode, any fields):** after any history in which no commit raised, the
    committed view is the one-shot layout of the committed list; when the history ends with the flag down, that list is the
    final `__fields__`, whose Field objects carry the one-shot offsets. -/
theorem c18_update_oneshot_packed (cfg : Cfg) (ops : List Op) (hb : (run cfg false UState.init ops).broken = false) :
    Fields.layout cfg false (run cfg false UState.init ops).cfields LState.init = .ok (run cfg false UState.init ops).layout ∧
    ((run cfg false UState.init ops).updating = false →
      (run cfg false UState.init ops).cfields = (run cfg false UState.init ops).fields ∧
      Fields.layout cfg false (run cfg false UState.init ops).fields LState.init = .ok (run cfg false UState.init ops).layout ∧
      (run cfg false UState.init ops).persisted = (run cfg false UState.init ops).layout.2.2) := by
  have h := Lemmas.run_one ops (Lemmas.one_init cfg false) (fun fs _ _ => Lemmas.goodAt_packed cfg fs) hb
  exact ⟨h.choose_spec.2.1, Lemmas.one_outside h⟩

/-- The same in aligned mode for members of fixed size without bit-fields and power-of-two alignments (the side conditions of
    `c18_confluence_aligned`, on the final `__fields__`). -/
theorem c18_update_oneshot_aligned (cfg : Cfg) (ops : List Op) (ms : List (Nat × Nat))
    (hm : Cstruct.C04.members cfg (run cfg true UState.init ops).fields = some ms) (hp : ∀ m ∈ ms, Cstruct.C04.isPow2 m.2)
    (hb : (run cfg true UState.init ops).broken = false) :
    Fields.layout cfg true (run cfg true UState.init ops).cfields LState.init = .ok (run cfg true UState.init ops).layout ∧
    ((run cfg true UState.init ops).updating = false →
      (run cfg true UState.init ops).cfields = (run cfg true UState.init ops).fields ∧
      Fields.layout cfg true (run cfg true UState.init ops).fields LState.init = .ok (run cfg true UState.init ops).layout ∧
      (run cfg true UState.init ops).persisted = (run cfg true UState.init ops).layout.2.2) := by
  have hg : ∀ fs hs, (run cfg true UState.init ops).fields = Fields.append fs hs → Lemmas.GoodAt cfg true fs := by
    intro fs hs e
    rw [e] at hm
    obtain ⟨ms', h1, h2⟩ := Cstruct.C18.Lemmas.members_append_left cfg fs hs ms hm hp
    exact Lemmas.goodAt_aligned cfg fs ms' h1 h2
  have h := Lemmas.run_one ops (Lemmas.one_init cfg true) hg hb
  exact ⟨h.choose_spec.2.1, Lemmas.one_outside h⟩

/-- The offsets the model writes for a raising commit (`writesP`) are, where the layout returns, the offsets of the layout: the
    two walks over the field list are the same walk. -/
theorem c18_update_writes_agree (cfg : Cfg) (al : Bool) (fs : Fields) (pre : List (Option Nat)) (sz : Option Nat) (a : Nat)
    (offs : List (Option Nat)) (h : commit cfg al fs pre = .ok (sz, a, offs)) :
    writesP cfg al fs pre LState.init = offs :=
  Lemmas.writesP_ok cfg al fs pre LState.init sz a offs h

/-! ### The hypothesis matters: with `commit()` outside the `finally:` a block left through an exception breaks consistency -/

def cfg0 : Cfg := { endian := .little, ptr := .pint 8 false, ptrAlign := 8, consts := [] }
def u8 : Ty := .sc (.pint 1 false) 1
def u16 : Ty := .sc (.pint 2 false) 2
def u32 : Ty := .sc (.pint 4 false) 4

/-- `with T.start_update(): T.add_field("a", uint8); raise ...` -/
def faulted : List Op := [.enter, .addField "a" u8 none, .exitExc]

theorem consistent_names {cfg : Cfg} {al : Bool} {s : UState} (h : Consistent cfg al s) : ConsistentNames s :=
  fun hu => by rw [(h hu).1]

/-- the regressed protocol ends this history with the flag down and a class that does not know field `a` … -/
theorem c18_update_regression_violates : ¬ Consistent cfg0 true (runNoCommitOnExc cfg0 true UState.init faulted) :=
  fun h => absurd (consistent_names h) (by decide)

/-- … no commit raised in it, so `c18_update_consistent_init` would apply … -/
example : (runNoCommitOnExc cfg0 true UState.init faulted).broken = false := by decide
/-- … and the real protocol ends the same history consistent, with `a` committed. -/
example : Consistent cfg0 true (run cfg0 true UState.init faulted) :=
  c18_update_consistent_init cfg0 true faulted (by decide +kernel)
example : names (run cfg0 true UState.init faulted).cfields = ["a"] ∧ (run cfg0 true UState.init faulted).layout = (some 1, 1, [some 0]) := by
  decide +kernel
example : names (runNoCommitOnExc cfg0 true UState.init faulted).cfields = [] ∧
    names (runNoCommitOnExc cfg0 true UState.init faulted).fields = ["a"] ∧
    (runNoCommitOnExc cfg0 true UState.init faulted).updating = false := by decide +kernel

/-! ### Non-vacuity: concrete histories with faults and nesting -/

/-- a batch left through an exception after one field and one failed add_field; a field outside; nested blocks, the inner one
    closing first, a field added in the still open outer block, which is then left through an exception -/
def hist1 : List Op :=
  [.enter, .addField "a" u8 none, .addFieldFails, .exitExc, .addField "b" u32 none,
   .enter, .enter, .addField "c" u16 none, .exitOk, .addField "d" u8 none, .exitExc, .commit]

example : (run cfg0 true UState.init hist1).broken = false ∧ (run cfg0 true UState.init hist1).updating = false := by decide +kernel
example : names (run cfg0 true UState.init hist1).cfields = ["a", "b", "c", "d"] ∧
    (run cfg0 true UState.init hist1).layout = (some 12, 4, [some 0, some 4, some 8, some 10]) := by decide +kernel
example : Fields.layout cfg0 true (run cfg0 true UState.init hist1).fields LState.init = .ok (run cfg0 true UState.init hist1).layout := by
  decide +kernel
example : C04.members cfg0 (run cfg0 true UState.init hist1).fields = some [(1, 1), (4, 4), (2, 2), (1, 1)] := by decide +kernel

/-- the states after each operation: committed names, size, flag -/
example : (trace cfg0 true UState.init hist1).map (fun s => (names s.cfields, s.layout.1, s.updating)) =
    [([], some 0, true), ([], some 0, true), ([], some 0, true), (["a"], some 1, false), (["a", "b"], some 8, false),
     (["a", "b"], some 8, true), (["a", "b"], some 8, true), (["a", "b"], some 8, true),
     (["a", "b", "c"], some 12, false),            -- the inner exit commits and clears the flag
     (["a", "b", "c", "d"], some 12, false),       -- so this add_field, inside the outer block, commits at once
     (["a", "b", "c", "d"], some 12, false), (["a", "b", "c", "d"], some 12, false)] := by decide +kernel

/-- a commit that raises in the `finally:` (straddled bit-fields): the flag stays up, the class is the one from before the
    block, the first bit-field got its offset written, and the next add_field does not commit -/
def hist2 : List Op :=
  [.addField "a" u8 none, .enter, .addField "x" u8 (some 5), .addField "y" u8 (some 5), .exitOk, .addField "z" u8 none]

example : (trace cfg0 false UState.init hist2).map (fun s => (names s.cfields, s.layout.1, s.updating)) =
    [(["a"], some 1, false), (["a"], some 1, true), (["a"], some 1, true), (["a"], some 1, true), (["a"], some 1, true),
     (["a"], some 1, true)] := by decide +kernel
example : (trace cfg0 false UState.init hist2).map (fun s => (s.commitErr, s.persisted)) =
    [(none, [some 0]), (none, [some 0]), (none, [some 0, none]), (none, [some 0, none, none]),
     (some .value, [some 0, some 1, none]), (none, [some 0, some 1, none, none])] := by decide +kernel
example : (run cfg0 false UState.init hist2).broken = true ∧ names (run cfg0 false UState.init hist2).fields = ["a", "x", "y", "z"] := by
  decide +kernel

/-- a duplicate field name: `add_field` raises out of commit after the append -/
example : (trace cfg0 false UState.init [.addField "a" u8 none, .addField "a" u16 none]).map
      (fun s => (names s.cfields, names s.fields, s.layout)) =
    [(["a"], ["a"], (some 1, 1, [some 0])), (["a"], ["a", "a"], (some 1, 1, [some 0]))] := by decide +kernel
example : (trace cfg0 false UState.init [.addField "a" u8 none, .addField "a" u16 none]).map
      (fun s => (s.updating, s.commitErr, s.persisted)) =
    [(false, none, [some 0]), (false, some .value, [some 0, none])] := by decide +kernel

end Cstruct.C18Update
