/-
  C17 — local assignment, the exact form, for ALIGNED (and packed) structures of fixed-size members.

  `c17_assign_local` (`Proofs/C17.lean`, fragment S, either `align` flag) says: the dumps before and after assigning member
  `k` have the same length and agree outside `[off, off + n)`. Here the rest of the picture (same hypotheses):
    * the length of the dump is the DECLARED size (`structLayout`'s size);
    * after the assignment the bytes `[off, off + n)` are exactly the encoding of the new value, written at `off`;
    * every byte that belongs to no member — alignment padding in front of a member, tail padding — is ZERO, before and
      after;
    * members are laid out in order and do not overlap, so every OTHER member's bytes are unchanged.
  `c17_dump_shape` is the underlying description of one dump. The hypotheses are those of `c17_assign_local`:
  `fragS` (fixed-width scalars, enums / pointers over integers, fixed arrays, nested structures, no bit-fields), one `align`
  flag throughout (`uniformAlign`), power-of-two alignments (`pow2Aligned`; true of every built-in type, `c04_table_pow2`).
  They imply `C04.members cfg fs = some ms` with power-of-two alignments, so by `C04.c04_abi` the offsets `offs` are the C
  rule `(cOffsets ms 0).1` (`c17_offsets_abi`).
  Bit-fields: not covered here (`c17_assign_local_bits` is not delivered; see the report in theorems.json).
  Helper lemmas: `Proofs/Lemmas/C17Aligned.lean`.
-/
import Proofs.C17
import Proofs.C04
import Proofs.Lemmas.C17Aligned

namespace Cstruct.C17
open Cstruct Cstruct.Instance Cstruct.Core

/-- value number `k` of a value list -/
def nthV : Vals → Nat → Option Val
  | .nil, _ => none
  | .cons v _, 0 => some v
  | .cons _ r, k + 1 => nthV r k

/-- position `i` (relative to the start of the structure) lies in no member's extent: alignment or tail padding -/
def IsPad (cfg : Cfg) (fs : Fields) (offs : List (Option Nat)) (i : Nat) : Prop :=
  ∀ k t off n, nthTy fs k = some t → offs[k]? = some (some off) → t.size cfg = some n → ¬ (off ≤ i ∧ i < off + n)

private theorem nthTy_eq (fs : Fields) (k : Nat) : nthTy fs k = Lemmas.nTy fs k :=
  Lemmas.nTy_unique nthTy (fun _ => rfl) (fun _ _ _ _ _ => rfl) (fun _ _ _ _ _ _ => rfl) fs k

private theorem setNthV_eq (vs : Vals) (k : Nat) (v : Val) : setNthV vs k v = Lemmas.setV vs k v :=
  Lemmas.setV_unique setNthV (fun _ _ => rfl) (fun _ _ _ => rfl) (fun _ _ _ _ => rfl) vs k v

private theorem nthV_eq : ∀ (vs : Vals) (k : Nat), nthV vs k = Lemmas.nV vs k
  | .nil, _ => rfl
  | .cons _ _, 0 => rfl
  | .cons _ r, k + 1 => nthV_eq r k

private theorem isPad_iff (cfg : Cfg) (fs : Fields) (offs : List (Option Nat)) (i : Nat) :
    IsPad cfg fs offs i ↔ Lemmas.IsPadAt cfg fs offs i := by
  unfold IsPad Lemmas.IsPadAt
  simp only [nthTy_eq]

/-- **What a dump looks like** (fixed-size structure without bit-fields, packed or aligned): its length is the declared
    size; for every member `k` the encoding of its value — as written at the absolute position `off` — occupies
    `[off, off + n)`; later members start at or after `off + n`; every byte in no member's extent is zero. -/
theorem c17_dump_shape (cfg : Cfg) (al : Bool) (fs : Fields) (hS : (Ty.struct al fs).fragS cfg = true)
    (hu : (Ty.struct al fs).uniformAlign al = true) (hp : (Ty.struct al fs).pow2Aligned cfg)
    (vs : Vals) (hv : HasTy cfg (.record vs) (.struct al fs)) (offs : List (Option Nat)) (sz : Option Nat) (a : Nat)
    (hl : structLayout cfg al fs = .ok (sz, a, offs)) :
    ∃ b, dumps cfg (.struct al fs) (.record vs) = .ok b ∧ sz = some b.length ∧
      (∀ k t, nthTy fs k = some t → ∃ off n w enc, offs[k]? = some (some off) ∧ t.size cfg = some n ∧
          nthV vs k = some w ∧ write cfg t w off = .ok enc ∧ enc.length = n ∧ off + n ≤ b.length ∧
          (∀ j, j < n → b[off + j]? = enc[j]?) ∧
          (∀ k' off', k < k' → offs[k']? = some (some off') → off + n ≤ off')) ∧
      (∀ i, i < b.length → IsPad cfg fs offs i → b[i]? = some 0) := by
  obtain ⟨b, h1, h2, h3, h4⟩ := Lemmas.dump_shape cfg al fs hS hu hp vs hv offs sz a hl
  refine ⟨b, h1, h2, ?_, ?_⟩
  · intro k t ht
    rw [nthTy_eq] at ht
    rw [nthV_eq]
    exact h3 k t ht
  · intro i hi hpad
    exact h4 i hi ((isPad_iff cfg fs offs i).1 hpad)

/-- **Assigning member `k` changes exactly the bytes `[off, off + n)` of the dump** (fixed-size structure without
    bit-fields; `al` is the `align` flag): both dumps exist and have the declared size; after the assignment the member's
    extent holds the encoding of the new value; everything outside the extent is unchanged; padding bytes are zero before
    and after; no other member's extent meets `[off, off + n)`, so every other member's bytes are unchanged. -/
theorem c17_assign_local_exact (cfg : Cfg) (al : Bool) (fs : Fields) (hS : (Ty.struct al fs).fragS cfg = true)
    (hu : (Ty.struct al fs).uniformAlign al = true) (hp : (Ty.struct al fs).pow2Aligned cfg)
    (vs : Vals) (hv : HasTy cfg (.record vs) (.struct al fs)) (k : Nat) (t : Ty) (ht : nthTy fs k = some t) (v : Val)
    (hvk : HasTy cfg v t) (off n : Nat) (offs : List (Option Nat)) (sz : Option Nat) (a : Nat)
    (hl : structLayout cfg al fs = .ok (sz, a, offs)) (hoff : offs[k]? = some (some off)) (hn : t.size cfg = some n) :
    ∃ b1 b2 enc, dumps cfg (.struct al fs) (.record vs) = .ok b1 ∧
      dumps cfg (.struct al fs) (.record (setNthV vs k v)) = .ok b2 ∧
      write cfg t v off = .ok enc ∧ enc.length = n ∧
      sz = some b1.length ∧ b2.length = b1.length ∧ off + n ≤ b1.length ∧
      (∀ j, j < n → b2[off + j]? = enc[j]?) ∧
      (∀ i, (i < off ∨ off + n ≤ i) → b2[i]? = b1[i]?) ∧
      (∀ i, i < b1.length → IsPad cfg fs offs i → b1[i]? = some 0 ∧ b2[i]? = some 0) ∧
      (∀ j tj offj nj, j ≠ k → nthTy fs j = some tj → offs[j]? = some (some offj) → tj.size cfg = some nj →
        (offj + nj ≤ off ∨ off + n ≤ offj) ∧ ∀ i, offj ≤ i → i < offj + nj → b2[i]? = b1[i]?) := by
  have ht' := ht
  rw [nthTy_eq] at ht'
  have hv2 : HasTy cfg (.record (Lemmas.setV vs k v)) (.struct al fs) := by
    cases hv with
    | @struct _ _ _ hvs => exact .struct (Lemmas.hasTys_setV cfg fs vs hvs k t ht' v hvk)
  obtain ⟨b1, d1, s1, m1, z1⟩ := Lemmas.dump_shape cfg al fs hS hu hp vs hv offs sz a hl
  obtain ⟨b2, d2, s2, m2, z2⟩ := Lemmas.dump_shape cfg al fs hS hu hp _ hv2 offs sz a hl
  obtain ⟨c1, c2, e1, e2, hlen, hag⟩ := Lemmas.assign_local cfg al fs hS hu hp vs hv k t ht' v hvk off n offs sz a hl hoff hn
  rw [d1] at e1; cases e1
  rw [d2] at e2; cases e2
  -- member k before and after
  obtain ⟨off1, n1, w1, enc1, p1, p2, p3, _, _, p6, _, p8⟩ := m1 k t ht'
  rw [hoff] at p1; cases p1
  rw [hn] at p2; cases p2
  obtain ⟨off2, n2, w2, enc2, q1, q2, q3, q4, q5, _, q7, _⟩ := m2 k t ht'
  rw [hoff] at q1; cases q1
  rw [hn] at q2; cases q2
  rw [Lemmas.nV_setV_eq vs k v w1 p3] at q3; cases q3
  have hdisj : ∀ j tj offj nj, j ≠ k → nthTy fs j = some tj → offs[j]? = some (some offj) → tj.size cfg = some nj →
      (offj + nj ≤ off ∨ off + n ≤ offj) := by
    intro j tj offj nj hjk htj hoj hnj
    rw [nthTy_eq] at htj
    rcases Nat.lt_or_gt_of_ne hjk with hlt | hgt
    · obtain ⟨o', n', _, _, r1, r2, _, _, _, _, _, r8⟩ := m1 j tj htj
      rw [hoj] at r1; cases r1
      rw [hnj] at r2; cases r2
      exact Or.inl (r8 k off hlt hoff)
    · exact Or.inr (p8 j offj hgt hoj)
  refine ⟨b1, b2, enc2, d1, by rw [setNthV_eq]; exact d2, q4, q5, s1, hlen.symm, p6, q7, ?_, ?_, ?_⟩
  · intro i hi; exact (hag i hi).symm
  · intro i hi hpad
    have hpad' := (isPad_iff cfg fs offs i).1 hpad
    exact ⟨z1 i hi hpad', z2 i (by omega) hpad'⟩
  · intro j tj offj nj hjk htj hoj hnj
    have hd := hdisj j tj offj nj hjk htj hoj hnj
    refine ⟨hd, ?_⟩
    intro i h1 h2
    exact (hag i (by omega)).symm

/-- **Aligned structures** (`align = true`): the instance of `c17_assign_local_exact` the property names. Assigning member
    `k` a value of its type changes the dump exactly in `[off, off + n)` — which then holds the new value's encoding —,
    leaves the padding bytes zero and every other member's bytes unchanged, and the dump keeps the declared size. -/
theorem c17_assign_local_aligned (cfg : Cfg) (fs : Fields) (hS : (Ty.struct true fs).fragS cfg = true)
    (hu : (Ty.struct true fs).uniformAlign true = true) (hp : (Ty.struct true fs).pow2Aligned cfg)
    (vs : Vals) (hv : HasTy cfg (.record vs) (.struct true fs)) (k : Nat) (t : Ty) (ht : nthTy fs k = some t) (v : Val)
    (hvk : HasTy cfg v t) (off n : Nat) (offs : List (Option Nat)) (sz : Option Nat) (a : Nat)
    (hl : structLayout cfg true fs = .ok (sz, a, offs)) (hoff : offs[k]? = some (some off)) (hn : t.size cfg = some n) :
    ∃ b1 b2 enc, dumps cfg (.struct true fs) (.record vs) = .ok b1 ∧
      dumps cfg (.struct true fs) (.record (setNthV vs k v)) = .ok b2 ∧
      write cfg t v off = .ok enc ∧ enc.length = n ∧
      sz = some b1.length ∧ b2.length = b1.length ∧ off + n ≤ b1.length ∧
      (∀ j, j < n → b2[off + j]? = enc[j]?) ∧
      (∀ i, (i < off ∨ off + n ≤ i) → b2[i]? = b1[i]?) ∧
      (∀ i, i < b1.length → IsPad cfg fs offs i → b1[i]? = some 0 ∧ b2[i]? = some 0) ∧
      (∀ j tj offj nj, j ≠ k → nthTy fs j = some tj → offs[j]? = some (some offj) → tj.size cfg = some nj →
        (offj + nj ≤ off ∨ off + n ≤ offj) ∧ ∀ i, offj ≤ i → i < offj + nj → b2[i]? = b1[i]?) :=
  c17_assign_local_exact cfg true fs hS hu hp vs hv k t ht v hvk off n offs sz a hl hoff hn

/-- The offsets of an aligned structure are the C rule: with `(size, alignment)` of the members `ms` (`C04.members`) and
    power-of-two alignments the layout the theorems above refer to is `C04.cOffsets ms 0` (this is `C04.c04_abi`). -/
theorem c17_offsets_abi (cfg : Cfg) (fs : Fields) (ms : List (Nat × Nat)) (hm : C04.members cfg fs = some ms)
    (hp : ∀ m ∈ ms, C04.isPow2 m.2) (offs : List (Option Nat)) (sz : Option Nat) (a : Nat)
    (hl : structLayout cfg true fs = .ok (sz, a, offs)) :
    offs = (C04.cOffsets ms 0).1.map some ∧ sz = some (C04.roundUp (C04.cOffsets ms 0).2 (C04.maxAlignOf ms)) := by
  rw [C04.c04_abi cfg fs ms hm hp] at hl
  cases hl
  exact ⟨rfl, rfl⟩

/-! ### Non-vacuity
  Aligned `struct { uint8 a; uint32 b; int24 c[2]; }` (`C04.fs0`, little endian): offsets 0, 4, 8, size 16; bytes 1..3 are
  alignment padding, bytes 14..15 tail padding. -/
namespace AEx

def vs0 : Vals := .cons (.int 7) (.cons (.int 0x01020304) (.cons (.list (.cons (.int (-2)) (.cons (.int 5) .nil))) .nil))

theorem hv0 : HasTy C04.cfg0 (.record vs0) (.struct true C04.fs0) :=
  .struct (.cons (.int rfl (by decide)) (.cons (.int rfl (by decide))
    (.cons (.arr (by intro a h; cases h) (.cons (.int rfl (by decide)) (.cons (.int rfl (by decide)) .nil))) .nil)))

theorem hp0 : (Ty.struct true C04.fs0).pow2Aligned C04.cfg0 := ⟨Or.inr ⟨0, rfl⟩, Or.inr ⟨2, rfl⟩, Or.inr ⟨2, rfl⟩, trivial⟩

example : (Ty.struct true C04.fs0).fragS C04.cfg0 = true ∧ (Ty.struct true C04.fs0).uniformAlign true = true ∧
    structLayout C04.cfg0 true C04.fs0 = .ok (some 16, 4, [some 0, some 4, some 8]) ∧
    C04.members C04.cfg0 C04.fs0 = some [(1, 1), (4, 4), (6, 4)] := by decide +kernel
example : nthTy C04.fs0 1 = some (.sc (.pint 4 false) 4) := rfl

-- positions 1, 2, 3 (alignment padding) and 14, 15 (tail padding) are padding; position 4 is not
example : IsPad C04.cfg0 C04.fs0 [some 0, some 4, some 8] 2 ∧ IsPad C04.cfg0 C04.fs0 [some 0, some 4, some 8] 15 ∧
    ¬ IsPad C04.cfg0 C04.fs0 [some 0, some 4, some 8] 4 := by
  refine ⟨?_, ?_, ?_⟩
  · intro k t off n hk ho hn
    rcases k with _ | _ | _ | k
    all_goals simp [nthTy, C04.fs0] at hk
    all_goals subst hk
    all_goals simp at ho
    all_goals subst ho
    all_goals (simp [Ty.size, Scalar.size] at hn; omega)
  · intro k t off n hk ho hn
    rcases k with _ | _ | _ | k
    all_goals simp [nthTy, C04.fs0] at hk
    all_goals subst hk
    all_goals simp at ho
    all_goals subst ho
    all_goals (simp [Ty.size, Scalar.size] at hn; omega)
  · intro h
    exact h 1 _ 4 4 rfl rfl rfl ⟨Nat.le_refl _, by omega⟩

/-- the theorem applied: assigning `b` (member 1, offset 4, size 4) of the aligned structure -/
example (v : Int) (hv : fits 4 false v = true) :
    ∃ b1 b2 enc, dumps C04.cfg0 (.struct true C04.fs0) (.record vs0) = .ok b1 ∧
      dumps C04.cfg0 (.struct true C04.fs0) (.record (setNthV vs0 1 (.int v))) = .ok b2 ∧
      write C04.cfg0 (.sc (.pint 4 false) 4) (.int v) 4 = .ok enc ∧ enc.length = 4 ∧ b1.length = 16 ∧ b2.length = 16 ∧
      (∀ j, j < 4 → b2[4 + j]? = enc[j]?) ∧ (∀ i, (i < 4 ∨ 8 ≤ i) → b2[i]? = b1[i]?) := by
  obtain ⟨b1, b2, enc, h1, h2, h3, h4, h5, h6, _, h8, h9, _⟩ :=
    c17_assign_local_aligned C04.cfg0 C04.fs0 (by decide +kernel) (by decide +kernel) hp0 vs0 hv0 1 (.sc (.pint 4 false) 4) rfl
      (.int v) (.int rfl hv) 4 4 [some 0, some 4, some 8] (some 16) 4 (by decide +kernel) rfl rfl
  have h5' : b1.length = 16 := (Option.some.inj h5).symm
  exact ⟨b1, b2, enc, h1, h2, h3, h4, h5', by omega, h8, h9⟩

#guard dumps C04.cfg0 (.struct true C04.fs0) (.record vs0) = .ok [7, 0, 0, 0, 4, 3, 2, 1, 0xfe, 0xff, 0xff, 5, 0, 0, 0, 0]
#guard dumps C04.cfg0 (.struct true C04.fs0) (.record (setNthV vs0 1 (.int 0xAABBCCDD))) =
  .ok [7, 0, 0, 0, 0xDD, 0xCC, 0xBB, 0xAA, 0xfe, 0xff, 0xff, 5, 0, 0, 0, 0]

end AEx

end Cstruct.C17
