/-
  C04 — structure layout follows C rules.

  Property theorems only. Specification (`roundUp`, `cOffsets`, `packedOffsets`, `members`) in `Proofs/Spec/C04.lean`,
  helper lemmas in `Proofs/Lemmas/C04.lean`. Model: `Fields.layout` / `Ty.size` / `Ty.alignment` in
  `CstructModel/Ty.lean`, which mirror `StructureMetaType._calculate_size_and_offsets`,
  `UnionMetaType._calculate_size_and_offsets`, `_make_array`, `_make_pointer` including the bit trick
  `-offset & (alignment - 1)` on Python ints (`Cstruct.pyPad`, `Cstruct.padNat` in `Bits.lean`).
  That declared size = bytes read = bytes written is `c04_size_read` / `c04_size_write` in `Proofs/Core.lean`.
-/
import Proofs.Spec.C04
import Proofs.Lemmas.C04

namespace Cstruct.C04
open Cstruct

/-- The bit trick is the rounding rule: for a power-of-two alignment, `-o & (a-1)` is the distance from `o` to the
    next multiple of `a` — so `o + padNat o a = roundUp o a`, it is a multiple of `a`, and less than `a` is added. -/
theorem c04_pad (o k : Nat) :
    padNat o (2 ^ k) = pad o (2 ^ k) ∧ o + padNat o (2 ^ k) = roundUp o (2 ^ k) ∧
    (o + padNat o (2 ^ k)) % 2 ^ k = 0 ∧ padNat o (2 ^ k) < 2 ^ k := by
  have hr := Lemmas.padNat_roundUp o (2 ^ k) ⟨k, rfl⟩
  refine ⟨Lemmas.padNat_pow2 o k, hr, ?_, ?_⟩
  · rw [hr]; exact Lemmas.roundUp_mod _ _
  · rw [Lemmas.padNat_pow2]; exact Lemmas.pad_lt _ _ (Nat.two_pow_pos k)

/-- **Aligned mode = the C rule.** For members of fixed size without bit-fields whose alignments are powers of two,
    the code's layout is exactly: every member at the next multiple of its alignment, the structure padded to a
    multiple of its largest member alignment, which is also the structure's alignment. -/
theorem c04_abi (cfg : Cfg) (fs : Fields) (ms : List (Nat × Nat)) (hm : members cfg fs = some ms)
    (hp : ∀ m ∈ ms, isPow2 m.2) :
    structLayout cfg true fs =
      .ok (some (roundUp (cOffsets ms 0).2 (maxAlignOf ms)), maxAlignOf ms, (cOffsets ms 0).1.map some) := by
  have h := Lemmas.layout_abi cfg fs ms LState.init 0 hm hp rfl
  unfold structLayout
  rw [h]
  show Except.ok (some ((cOffsets ms 0).2 + padNat (cOffsets ms 0).2 (maxAlignOf ms)), maxAlignOf ms, _) = _
  rw [Lemmas.tail_pad ms hp]

/-- **Packed mode = back to back**, whatever the alignments. -/
theorem c04_packed (cfg : Cfg) (fs : Fields) (ms : List (Nat × Nat)) (hm : members cfg fs = some ms) :
    structLayout cfg false fs = .ok (some (packedOffsets ms 0).2, maxAlignOf ms, (packedOffsets ms 0).1.map some) := by
  have h := Lemmas.layout_packed cfg fs ms LState.init 0 hm rfl
  unfold structLayout
  rw [h]
  rfl

/-- Consequences a user relies on: in aligned mode every offset is a multiple of the member's alignment, members do not
    overlap (each starts at or after the end of the previous one, with less than one alignment of padding), and the size is
    a multiple of the structure alignment that leaves less than one alignment of tail padding. -/
theorem c04_abi_facts (ms : List (Nat × Nat)) (hp : ∀ m ∈ ms, isPow2 m.2) (cur : Nat) :
    let (os, e) := cOffsets ms cur
    os.length = ms.length ∧
    (∀ i (h : i < ms.length) (h' : i < os.length), os[i] % (ms[i]).2 = 0) ∧
    (∀ o ∈ os, cur ≤ o) ∧ cur ≤ e ∧
    (∀ a, isPow2 a → roundUp e a % a = 0 ∧ e ≤ roundUp e a ∧ roundUp e a < e + a) := by
  cases hc : cOffsets ms cur with
  | mk os e =>
    obtain ⟨h1, h2, h3, h4⟩ := Lemmas.cOffsets_facts ms hp cur os e hc
    exact ⟨h1, h2, h3, h4, fun a ha => ⟨Lemmas.roundUp_mod e a, Lemmas.le_roundUp e a (Lemmas.isPow2_pos ha),
      Lemmas.roundUp_lt e a (Lemmas.isPow2_pos ha)⟩⟩

/-- Arrays and nested aggregates inherit alignment: an array has its element's alignment, a pointer the configured
    pointer type's, an enum its underlying type's, a structure or union the largest alignment of its members
    (at least 1); an array of `n` fixed-size elements has `n` times the element size. -/
theorem c04_inherit (cfg : Cfg) (e : Ty) (n : Nat) (len : Len) (al : Bool) (fs : Fields) (t : Ty) (b : Scalar) (a : Nat) (f : Bool) :
    (Ty.arr e len).alignment cfg = e.alignment cfg ∧
    (Ty.arr e (.fixed n)).size cfg = (e.size cfg).map (n * ·) ∧
    (Ty.ptr t).alignment cfg = max 1 cfg.ptrAlign ∧ (Ty.ptr t).size cfg = cfg.ptr.size ∧
    (Ty.enum b a f).alignment cfg = max 1 a ∧ (Ty.enum b a f).size cfg = b.size ∧
    (Ty.struct al fs).alignment cfg = max 1 (Fields.maxAlign cfg fs 0) ∧
    (Ty.union al fs).alignment cfg = max 1 (Fields.maxAlign cfg fs 0) := by
  refine ⟨?_, ?_, ?_, ?_, ?_, ?_, ?_, ?_⟩
  · simp only [Ty.alignment]
  · simp only [Ty.size]
    cases e.size cfg <;> rfl
  · simp only [Ty.alignment]
    split <;> omega
  · simp only [Ty.size]
  · simp only [Ty.alignment]
    split <;> omega
  · simp only [Ty.size]
  · simp only [Ty.alignment]
    split <;> omega
  · simp only [Ty.alignment]
    split <;> omega

/-- **Unions.** A fixed-size union has the size of its largest member, rounded up to its alignment in aligned mode. -/
theorem c04_union (cfg : Cfg) (al : Bool) (fs : Fields) (ms : List (Nat × Nat)) (hm : members cfg fs = some ms)
    (hp : ∀ m ∈ ms, isPow2 m.2) :
    (Ty.union al fs).size cfg =
      some (if al then roundUp (ms.foldl (fun s m => max s m.1) 0) (maxAlignOf ms)
            else ms.foldl (fun s m => max s m.1) 0) := by
  simp only [Ty.size]
  rw [Lemmas.unionSize_members cfg fs ms 0 hm, Lemmas.maxAlign_members cfg fs ms 0 hm]
  cases al
  · simp
  · simp only [if_true]
    congr 1
    exact Lemmas.tail_pad' ms hp _ (by intro h; subst h; rfl)

/-- A member without fixed size makes every later offset, and the structure size, dynamic (`None`) — never a stale
    number. -/
theorem c04_dynamic_tail (cfg : Cfg) (al : Bool) (name : String) (an : Bool) (ty : Ty) (rest : Fields) (st : LState)
    (hdyn : ty.size cfg = none) (sz : Option Nat) (a : Nat) (offs : List (Option Nat))
    (h : Fields.layout cfg al (.cons name an ty none rest) st = .ok (sz, a, offs)) :
    sz = none ∧ ∀ o ∈ offs.drop 1, o = none := by
  exact Lemmas.layout_dynamic cfg al name an ty rest st hdyn sz a offs h

/-- Every alignment in the built-in type table (regenerated from cstruct.py on every run) is a power of two, except
    `void`'s 0 and the variable-length types' `None`; so `hp` above holds for every definition built from built-in types. -/
theorem c04_table_pow2 :
    ∀ p ∈ Gen.typeTable, match p.2 with
      | .type _ _ _ (some a) => a = 0 ∨ ∃ k, k ≤ 4 ∧ a = 2 ^ k
      | _ => True := by
  exact Lemmas.table_pow2

/-! ### Non-vacuity -/
def cfg0 : Cfg := { endian := .little, ptr := .pint 8 false, ptrAlign := 8, consts := [] }
def fs0 : Fields := .cons "a" false (.sc (.pint 1 false) 1) none (.cons "b" false (.sc (.pint 4 false) 4) none
  (.cons "c" false (.arr (.sc (.aint 3 true) 4) (.fixed 2)) none .nil))
example : structLayout cfg0 true fs0 = .ok (some 16, 4, [some 0, some 4, some 8]) := by decide +kernel
example : members cfg0 fs0 = some [(1, 1), (4, 4), (6, 4)] := by decide +kernel
example : structLayout cfg0 false fs0 = .ok (some 11, 4, [some 0, some 1, some 5]) := by decide +kernel

end Cstruct.C04
