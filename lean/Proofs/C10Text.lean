/-
  C10, text level — from the expression *text* to the value.

  `Proofs/C10.lean` proves that every token list of the C grammar evaluates to the value of its parse tree.
  This file closes the gap in front of it: every text made of well-formed token spellings (`WFTok`), separated by
  arbitrary blanks — required only between two tokens that would otherwise fuse (`SepOk`) — is tokenized into
  exactly those tokens, each normalised as `normTok` says (suffix dropped, C octal respelled `0o…`). Composed
  with `c10_eval_correct` this states the property about expression texts.

  Property theorems only. Specification-side definitions are in `Proofs/Spec/C10Text.lean`, helper lemmas in
  `Proofs/Lemmas/C10TextA.lean`, `…B.lean`, `…C.lean`.
-/
import Proofs.C10
import Proofs.Spec.C10Text
import Proofs.Lemmas.C10TextC

namespace Cstruct.Expr.C10
open Cstruct Cstruct.Expr

/-- **C10, tokenizer.** A text consisting of well-formed token spellings with any admissible blank separation
    (before, between and after the tokens) is tokenized into exactly these tokens, normalised. -/
theorem c10_tokenize_render (seps ts : List String) (hwf : ∀ t ∈ ts, WFTok t) (hsep : SepOk seps ts) :
    tokenize (render seps ts) = .ok (ts.map normTok) := by
  exact TextLemmas.tokenize_render seps ts hwf hsep

/-- What the emitted tokens are for the evaluator: operators and parentheses are unchanged; an identifier is
    unchanged and is a name (`IsName`: it can be bound in the context or the constants, or be a type name for
    `sizeof`); a literal becomes a number token whose `int(token, 0)` is its C value, whatever the suffix. -/
theorem c10_normTok :
    (∀ c, isOperatorChar c = true → normTok (String.singleton c) = String.singleton c) ∧
    normTok "<<" = "<<" ∧ normTok ">>" = ">>" ∧
    (∀ c cs, isIdStart c = true →
      normTok (String.ofList (c :: cs)) = String.ofList (c :: cs) ∧ IsName (String.ofList (c :: cs))) ∧
    (∀ body sfx, WFLit body → IsSuffix sfx →
      normTok (String.ofList (body ++ sfx)) = String.ofList (octRewrite body) ∧
      isNumber (normTok (String.ofList (body ++ sfx))) = true ∧
      parseInt (normTok (String.ofList (body ++ sfx))) = some (Int.ofNat (litValue body))) := by
  refine ⟨fun c hc => TextLemmas.normTok_op hc, TextLemmas.normTok_shl, TextLemmas.normTok_shr,
    fun c cs hc => ⟨TextLemmas.normTok_ident hc, TextLemmas.ident_isName hc⟩, fun body sfx hb hs => ?_⟩
  rw [TextLemmas.normTok_lit hb hs]
  exact ⟨rfl, TextLemmas.lit_value hb⟩

/-- A literal token of the text is an operand of the grammar denoting its C value, in every environment. -/
theorem c10_text_literal_atom (env : Env) {body sfx : List Char} (hb : WFLit body) (hs : IsSuffix sfx) :
    Atom env (normTok (String.ofList (body ++ sfx))) (Int.ofNat (litValue body)) := by
  obtain ⟨h1, h2⟩ := (c10_normTok.2.2.2.2 body sfx hb hs).2
  exact .lit h1 h2

/-- The evaluator's internal unary-minus marker is not a token spelling and is never emitted for one: the text
    `-u` is the two tokens `-` and `u`. A unary minus reaches the evaluator as the token `-` and is marked only
    by `evaluate`'s rewriting (`D`'s `neg` rule, `c10_eval_correct`). -/
theorem c10_marker_not_token :
    ¬ WFTok Gen.minusMarker ∧ (∀ t, WFTok t → normTok t ≠ Gen.minusMarker) ∧
    tokenize Gen.minusMarker = .ok ["-", "u"] := by
  have htok : tokenize Gen.minusMarker = .ok ["-", "u"] := by decide +kernel
  refine ⟨?_, fun t h => TextLemmas.normTok_ne_marker h, htok⟩
  intro h
  have hr : render [] [Gen.minusMarker] = Gen.minusMarker := by decide
  have hs : SepOk [] [Gen.minusMarker] := TextLemmas.sepOkB_sound _ _ (by decide)
  have := c10_tokenize_render [] [Gen.minusMarker] (fun t ht => by
    simp only [List.mem_cons, List.not_mem_nil, or_false] at ht; rw [ht]; exact h) hs
  rw [hr, htok] at this
  injection this with h'
  have := congrArg List.length h'
  simp at this

/-- **C10, from text to value.** Let `ts` be well-formed token spellings whose normalised form is a sentence of
    the C grammar with value `v` (`D env 0`: C precedence and left associativity, names bound by `env`). Then for
    every admissible blank separation the constructor accepts the text, `evaluate` returns `v`, leaves the marked
    token list in the object, and every further `evaluate` — with the same or another environment — returns what a
    fresh object would; in particular evaluating again with `env` returns `v` again. -/
theorem c10_text_correct (env : Env) (henv : EnvOk env) {seps ts marked : List String} {v : Int}
    (hwf : ∀ t ∈ ts, WFTok t) (hsep : SepOk seps ts) (h : D env 0 (ts.map normTok) marked v) :
    ∃ o, Obj.new (render seps ts) = .ok o ∧ o.tokens = ts.map normTok ∧
      (o.evaluate env).2 = .ok v ∧ (o.evaluate env).1.tokens = marked ∧
      ((o.evaluate env).1.evaluate env).2 = .ok v ∧
      ∀ env', ((o.evaluate env).1.evaluate env').2 = (o.evaluate env').2 ∧
              ((o.evaluate env).1.evaluate env').1 = (o.evaluate env).1 := by
  have hev := c10_eval_correct env henv h
  refine ⟨⟨ts.map normTok⟩, ?_, rfl, hev.1, hev.2, ?_, fun env' => c10_repeat _ env env'⟩
  · simp only [Obj.new, c10_tokenize_render seps ts hwf hsep]; rfl
  · rw [(c10_repeat ⟨ts.map normTok⟩ env env).1]; exact hev.1

/-- The blanks do not matter: two admissible layouts of the same tokens give the same object. -/
theorem c10_text_layout_irrelevant {seps1 seps2 ts : List String} (hwf : ∀ t ∈ ts, WFTok t)
    (h1 : SepOk seps1 ts) (h2 : SepOk seps2 ts) :
    Obj.new (render seps1 ts) = Obj.new (render seps2 ts) := by
  simp only [Obj.new, c10_tokenize_render _ ts hwf h1, c10_tokenize_render _ ts hwf h2]

/-- Decidable sufficient conditions for the hypotheses of the theorems above. -/
theorem c10_text_checkers (seps ts : List String) :
    (ts.all wfTokB = true → ∀ t ∈ ts, WFTok t) ∧ (sepOkB seps ts = true → SepOk seps ts) := by
  refine ⟨fun h t ht => TextLemmas.wfTokB_sound (List.all_eq_true.mp h t ht), TextLemmas.sepOkB_sound ts seps⟩

/-! ### Non-vacuity -/

-- the texts of the task, through the real constructor and `evaluate`
example : (Obj.new "2*(n+ 0x10)<<1").map (fun o => (o.evaluate env0).2) = .ok (.ok 76) := by decide +kernel
example : (Obj.new "-~07u + sizeof(uint32)").map (fun o => (o.evaluate env0).2) = .ok (.ok 12) := by
  decide +kernel
example : tokenize "-~07u + sizeof(uint32)" = .ok ["-", "~", "0o7", "+", "sizeof", "(", "uint32", ")"] := by
  decide +kernel

-- they are renderings of well-formed token lists with admissible separations
def toks1 : List String := ["2", "*", "(", "n", "+", "0x10", ")", "<<", "1"]
def seps1 : List String := ["", "", "", "", "", " ", "", "", "", ""]
def toks2 : List String := ["-", "~", "07u", "+", "sizeof", "(", "uint32", ")"]
def seps2 : List String := ["", "", "", " ", " ", "", "", "", ""]

example : render seps1 toks1 = "2*(n+ 0x10)<<1" ∧ render seps2 toks2 = "-~07u + sizeof(uint32)" := by decide
example : (∀ t ∈ toks1, WFTok t) ∧ SepOk seps1 toks1 :=
  ⟨(c10_text_checkers seps1 toks1).1 (by decide), (c10_text_checkers seps1 toks1).2 (by decide)⟩
example : (∀ t ∈ toks2, WFTok t) ∧ SepOk seps2 toks2 :=
  ⟨(c10_text_checkers seps2 toks2).1 (by decide), (c10_text_checkers seps2 toks2).2 (by decide)⟩
example : toks2.map normTok = ["-", "~", "0o7", "+", "sizeof", "(", "uint32", ")"] := by decide
-- every blank-free layout is admissible for `toks2`, but not for two adjacent words
example : SepOk [] toks2 := (c10_text_checkers [] toks2).2 (by decide)
example : sepOkB [] ["1", "u"] = false ∧ tokenize "1u" = .ok ["1"] := by decide +kernel

/-- all hypotheses of `c10_text_correct` hold for the text `"\t-n - 1uL "` in `env0` -/
example : ∃ o, Obj.new "\t-n - 1uL " = .ok o ∧ (o.evaluate env0).2 = .ok (-4) ∧
    ((o.evaluate env0).1.evaluate env0).2 = .ok (-4) := by
  have henv : EnvOk env0 := Lemmas.envOk_of_keys (by decide) (by decide)
  have hn : D env0 6 ["n"] ["n"] 3 := .up (by decide) (.atom (.ctx (by decide) (by decide)))
  have h1 : D env0 5 ["1"] ["1"] 1 := .up (by decide) (.up (by decide) (.atom (.lit (by decide) (by decide))))
  have hl : D env0 4 ["-", "n"] [Gen.minusMarker, "n"] (-3) := .up (by decide) (.up (by decide) (.neg hn))
  have hb : D env0 4 (["-", "n"] ++ "-" :: ["1"]) ([Gen.minusMarker, "n"] ++ "-" :: ["1"]) (-4) :=
    .bin (o := .sub) (by decide) hl h1 (by decide)
  have hD : D env0 0 (["-", "n", "-", "1uL"].map normTok) [Gen.minusMarker, "n", "-", "1"] (-4) := by
    have : ["-", "n", "-", "1uL"].map normTok = ["-", "n", "-", "1"] := by decide
    rw [this]
    exact .up (by decide) (.up (by decide) (.up (by decide) (.up (by decide) hb)))
  obtain ⟨o, ho, _, hv, _, hv2, _⟩ :=
    c10_text_correct env0 henv (seps := ["\t", "", " ", " ", " "])
      ((c10_text_checkers [] _).1 (by decide)) (TextLemmas.sepOkB_sound _ _ (by decide)) hD
  have hr : render ["\t", "", " ", " ", " "] ["-", "n", "-", "1uL"] = "\t-n - 1uL " := by decide
  rw [hr] at ho
  exact ⟨o, ho, hv, hv2⟩

end Cstruct.Expr.C10
