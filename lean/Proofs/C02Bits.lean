/-
  C02 / C04 for structures WITH bit-fields (fragment SB of `Proofs/Spec/CoreBits.lean`: fragment S plus bit-fields over
  integer or enum storage, signed or unsigned, any width, either byte order), packed mode.

  Property C02: dumping the parsed value yields exactly as many bytes as parsing consumed, and those bytes are identical
  to the input at every bit that belongs to a field; only alignment padding and bit-field bits not assigned to any
  field may differ, and they are written as zero.  Property C04: the number of bytes consumed by parsing and produced by
  dumping agree with the declared size.

  Specification side: `Proofs/Spec/C02Bits.lean` — the bit-level data mask `C02B.maskB`, computed from the layout offsets
  and the slot positions of `Proofs/Spec/C06.lean`, independently of reader and writer. Proofs: `Proofs/Lemmas/C02Bits*.lean`.
  Model: `read`/`readFields` (`CstructModel/Read.lean`), `write`/`writeFields` (`CstructModel/Write.lean`),
  `Fields.layout` (`CstructModel/Ty.lean`), `BitBuf.take/put` (`CstructModel/Val.lean`).

  Invariant of the proof: between storage units reader position = writer position = layout offset. Inside a run of
  bit-fields sharing a unit the layout offset and the reader are one unit size ahead of the writer, the reader holds the
  unit it loaded from the input — `U`, possibly negative for a signed storage type, with `U mod 2^(8·size) = F`, the
  unsigned value of the unit's input bytes — and the writer, which has emitted nothing for the unit yet, holds
  `F &&& M`, where `M` is the mask of the fields handed out so far: `BitBuf.put` places a value at the very slot
  `BitBuf.take` extracted it from, in either byte order. When the unit is flushed (exhausted, before a member of another
  kind or storage type, at the end of the structure) its bytes are the input bytes masked by the unit's mask.
-/
import Proofs.Spec.C02Bits
import Proofs.Lemmas.C02BitsH
import Proofs.Lemmas.C02BitsI
import Proofs.Lemmas.CoreBitsEx2

namespace Cstruct.C02B
open Cstruct Cstruct.Core

/-- **Parsing consumes exactly the declared size (fragment SB, packed)** when the input is long enough — any start
    position, any context — and the parsed value is a value of the type, so that the round-trip theorem
    `Core.roundtrip_SB_packed` and `Core.write_total_SB_packed` apply to parsed values. The definition must be accepted
    (`defErr = none`: no bit-field straddles its storage unit). -/
theorem read_size_SB_packed (cfg : Cfg) (ty : Ty) (hS : ty.fragSB cfg = true) (hu : ty.uniformAlign false = true)
    (hd : ty.defErr cfg = none) (ctx : Ctx) (data : Bytes) (pos n : Nat) (hsz : ty.size cfg = some n)
    (hlen : pos + n ≤ data.length) :
    ∃ v, read cfg ty ctx data pos = .ok (v, pos + n) ∧ HasTyB cfg v ty := by
  obtain ⟨v, hr, hv, _⟩ := (Lemmas.f_ty cfg ty hS hu hd n hsz).2 ctx data pos hlen
  exact ⟨v, hr, hv⟩

/-- the bit-level mask has one byte per byte of the declared size -/
theorem maskB_length_packed (cfg : Cfg) (ty : Ty) (hS : ty.fragSB cfg = true) (hu : ty.uniformAlign false = true)
    (hd : ty.defErr cfg = none) (n : Nat) (hsz : ty.size cfg = some n) : (maskB cfg ty).length = n :=
  (Lemmas.f_ty cfg ty hS hu hd n hsz).1

/-- **Every successful parse (fragment SB, packed)** — whatever the input, start position and context — ends exactly
    `size` bytes after its start (C04) and yields a value of the type; when the consumed bytes lie inside the input
    (always, except for a zero-size type parsed beyond the end of the input), dumping the value at the same position
    gives exactly those bytes under the bit-level mask (C02): every bit that belongs to a field is reproduced, every
    other bit is written as zero. -/
theorem c02_fidelity_SB_packed_gen (cfg : Cfg) (ty : Ty) (hS : ty.fragSB cfg = true) (hu : ty.uniformAlign false = true)
    (hd : ty.defErr cfg = none) (ctx : Ctx) (d : Bytes) (pos : Nat) (v : Val) (p : Nat)
    (hr : read cfg ty ctx d pos = .ok (v, p)) :
    ∃ n, ty.size cfg = some n ∧ p = pos + n ∧ HasTyB cfg v ty ∧ (maskB cfg ty).length = n ∧
      (p ≤ d.length → write cfg ty v pos = .ok (andBytes (sread d pos n) (maskB cfg ty))) :=
  Lemmas.fidelity_gen cfg ty hS hu hd ctx d pos v p hr

/-- **Byte-and-bit fidelity (fragment SB, packed).** If parsing the input `pre ++ w ++ post` from position `pre.length`
    succeeds and consumes the `n` bytes `w`, then `n` is the declared size, dumping the parsed value succeeds and yields
    exactly `n` bytes, and byte `i` of the output is byte `i` of the input ANDed with byte `i` of the bit-level mask:
    every data bit is reproduced, every other bit (bits of a bit-field storage unit that no field uses) is zero. -/
theorem c02_fidelity_SB_packed (cfg : Cfg) (ty : Ty) (hS : ty.fragSB cfg = true) (hu : ty.uniformAlign false = true)
    (hd : ty.defErr cfg = none) (ctx : Ctx) (pre w post : Bytes) (n : Nat) (hw : w.length = n) (v : Val)
    (hr : read cfg ty ctx (pre ++ w ++ post) pre.length = .ok (v, pre.length + n)) :
    ty.size cfg = some n ∧ (maskB cfg ty).length = n ∧
    ∃ bs, write cfg ty v pre.length = .ok bs ∧ bs.length = n ∧ bs = andBytes w (maskB cfg ty) ∧
      ∀ (i : Nat) (h1 : i < bs.length) (h2 : i < w.length) (h3 : i < (maskB cfg ty).length),
        bs[i] = w[i] &&& (maskB cfg ty)[i] := by
  obtain ⟨n', hsz, hp, _, hml, hwr⟩ := c02_fidelity_SB_packed_gen cfg ty hS hu hd ctx _ _ v _ hr
  have hn : n' = n := by omega
  subst hn
  have hwr := hwr (by simp only [List.length_append]; omega)
  subst hw
  rw [Core.Lemmas.sread_mid] at hwr
  refine ⟨hsz, hml, _, hwr, by rw [Lemmas.andBytes_length, hml]; omega, rfl, ?_⟩
  intro i h1 h2 h3
  exact Lemmas.andBytes_getElem w _ i h1 h2 h3

/-- **C04 for parsed values (fragment SB, packed)**: parsing a long-enough input consumes the declared size, and dumping
    the parsed value produces the declared size. -/
theorem c04_sizes_SB_packed (cfg : Cfg) (ty : Ty) (hS : ty.fragSB cfg = true) (hu : ty.uniformAlign false = true)
    (hd : ty.defErr cfg = none) (ctx : Ctx) (data : Bytes) (pos n : Nat) (hsz : ty.size cfg = some n)
    (hlen : pos + n ≤ data.length) :
    ∃ v bs, read cfg ty ctx data pos = .ok (v, pos + n) ∧ write cfg ty v pos = .ok bs ∧ bs.length = n := by
  obtain ⟨hml, hf⟩ := Lemmas.f_ty cfg ty hS hu hd n hsz
  obtain ⟨v, hr, _, hw⟩ := hf ctx data pos hlen
  refine ⟨v, _, hr, hw, ?_⟩
  rw [Lemmas.andBytes_length, hml, Core.Lemmas.sread_length_of_le data pos n hlen]; omega


/-! ### Packed or aligned
  Under the hypotheses of `Core.roundtrip_SB`: one `align` flag throughout, power-of-two alignments, a start position
  that is a multiple of the alignments occurring in the type, in aligned mode every bit-field storage scalar has
  `size = alignment` (the finding recorded in `Proofs/CoreBits.lean` for int24/int48 storage is outside), the definition
  is accepted. Alignment padding — in front of a member and at the end of an aligned structure — is a run of zero mask
  bytes: skipped by the reader, written as zero bytes. -/

/-- **Parsing consumes exactly the declared size (fragment SB, packed or aligned)** and yields a value of the type. -/
theorem read_size_SB (cfg : Cfg) (al : Bool) (ty : Ty) (hS : ty.fragSB cfg = true) (hu : ty.uniformAlign al = true)
    (hp : ty.pow2Aligned cfg) (hn : al = true → ty.bitsNatural cfg = true) (hd : ty.defErr cfg = none)
    (ctx : Ctx) (data : Bytes) (pos n : Nat) (hsz : ty.size cfg = some n) (hlen : pos + n ≤ data.length)
    (hal : ty.alignsDivide cfg pos = true) :
    ∃ v, read cfg ty ctx data pos = .ok (v, pos + n) ∧ HasTyB cfg v ty := by
  obtain ⟨v, hr, hv, _⟩ := (Lemmas.fA_ty cfg al ty hS hu hp hn hd n hsz).2 ctx data pos hlen
    (fun _ => Core.Lemmas.sAlign_dvd_of_alignsDivide cfg pos ty hal)
  exact ⟨v, hr, hv⟩

/-- the bit-level mask has one byte per byte of the declared size (padding included) -/
theorem maskB_length (cfg : Cfg) (al : Bool) (ty : Ty) (hS : ty.fragSB cfg = true) (hu : ty.uniformAlign al = true)
    (hp : ty.pow2Aligned cfg) (hn : al = true → ty.bitsNatural cfg = true) (hd : ty.defErr cfg = none) (n : Nat)
    (hsz : ty.size cfg = some n) : (maskB cfg ty).length = n :=
  (Lemmas.fA_ty cfg al ty hS hu hp hn hd n hsz).1

/-- **Every successful parse from an aligned start (fragment SB, packed or aligned)** ends exactly `size` bytes after its
    start, yields a value of the type, and dumping the value gives the consumed bytes under the bit-level mask. -/
theorem c02_fidelity_SB_gen (cfg : Cfg) (al : Bool) (ty : Ty) (hS : ty.fragSB cfg = true) (hu : ty.uniformAlign al = true)
    (hp : ty.pow2Aligned cfg) (hn : al = true → ty.bitsNatural cfg = true) (hd : ty.defErr cfg = none) (ctx : Ctx)
    (d : Bytes) (pos : Nat) (hal : ty.alignsDivide cfg pos = true) (v : Val) (p : Nat)
    (hr : read cfg ty ctx d pos = .ok (v, p)) :
    ∃ n, ty.size cfg = some n ∧ p = pos + n ∧ HasTyB cfg v ty ∧ (maskB cfg ty).length = n ∧
      (p ≤ d.length → write cfg ty v pos = .ok (andBytes (sread d pos n) (maskB cfg ty))) :=
  Lemmas.fidelity_genA cfg al ty hS hu hp hn hd ctx d pos
    (fun _ => Core.Lemmas.sAlign_dvd_of_alignsDivide cfg pos ty hal) v p hr

/-- **Byte-and-bit fidelity (fragment SB, packed or aligned).** As `c02_fidelity_SB_packed`; the bits that may differ
    from the input — and are written as zero — are alignment padding and the bits of a bit-field storage unit that no
    field uses. -/
theorem c02_fidelity_SB (cfg : Cfg) (al : Bool) (ty : Ty) (hS : ty.fragSB cfg = true) (hu : ty.uniformAlign al = true)
    (hp : ty.pow2Aligned cfg) (hn : al = true → ty.bitsNatural cfg = true) (hd : ty.defErr cfg = none)
    (ctx : Ctx) (pre w post : Bytes) (n : Nat) (hw : w.length = n) (hal : ty.alignsDivide cfg pre.length = true) (v : Val)
    (hr : read cfg ty ctx (pre ++ w ++ post) pre.length = .ok (v, pre.length + n)) :
    ty.size cfg = some n ∧ (maskB cfg ty).length = n ∧
    ∃ bs, write cfg ty v pre.length = .ok bs ∧ bs.length = n ∧ bs = andBytes w (maskB cfg ty) ∧
      ∀ (i : Nat) (h1 : i < bs.length) (h2 : i < w.length) (h3 : i < (maskB cfg ty).length),
        bs[i] = w[i] &&& (maskB cfg ty)[i] := by
  obtain ⟨n', hsz, hp', _, hml, hwr⟩ := c02_fidelity_SB_gen cfg al ty hS hu hp hn hd ctx _ _ hal v _ hr
  have hn' : n' = n := by omega
  subst hn'
  have hwr := hwr (by simp only [List.length_append]; omega)
  subst hw
  rw [Core.Lemmas.sread_mid] at hwr
  refine ⟨hsz, hml, _, hwr, by rw [Lemmas.andBytes_length, hml]; omega, rfl, ?_⟩
  intro i h1 h2 h3
  exact Lemmas.andBytes_getElem w _ i h1 h2 h3

/-- **Consistency of the two masks.** On fragment S (no bit-fields) the bit-level mask is the byte-level mask
    `C02.tyMask` of `Proofs/Spec/C02.lean` with `true ↦ 0xFF` (data) and `false ↦ 0x00` (padding); packed, aligned or
    mixed. (Definitions only.) -/
theorem maskB_fragS (cfg : Cfg) (ty : Ty) (hS : ty.fragS cfg = true) :
    maskB cfg ty = (C02.tyMask cfg ty).map fun b => if b then 0xFF else 0x00 :=
  Lemmas.maskB_fragS cfg ty hS

/-! ### Non-vacuity
  `struct { uint16 a:3; uint16 b:4; uint8 c; }`, packed: one 16-bit unit of which 7 bits are used, then a byte.
  Little endian: the fields occupy bits 0..6 of the unit, i.e. of its FIRST byte: mask `7f 00 ff`.
  Big endian: the fields occupy bits 15..9 of the unit, again in its first byte (the most significant one): `fe 00 ff`. -/
namespace Ex
open Cstruct.Core.Ex

def cfgB : Cfg := { endian := .big, ptr := .pint 4 false, ptrAlign := 4, consts := [] }
/-- `struct { uint16 a:3; uint16 b:4; uint8 c; }` -/
def tyP : Ty := .struct false (.cons "a" false u16 (some 3) (.cons "b" false u16 (some 4) (.cons "c" false u8 none .nil)))
/-- `struct { int8 a:3; uint16 b:4; uint16 c:5; int8 z:2; }`: three units, the first and last of a signed type -/
def tyQ : Ty := .struct false (.cons "a" false i8 (some 3) (.cons "b" false u16 (some 4) (.cons "c" false u16 (some 5)
  (.cons "z" false i8 (some 2) .nil))))

example : tyP.fragSB cfgL = true ∧ tyP.uniformAlign false = true ∧ tyP.defErr cfgL = none ∧ tyP.size cfgL = some 3 := by
  decide +kernel
example : maskB cfgL tyP = [0x7f, 0x00, 0xff] := by decide +kernel
example : maskB cfgB tyP = [0xfe, 0x00, 0xff] := by decide +kernel
example : maskB cfgL tyQ = [0x07, 0xff, 0x01, 0x03] := by decide +kernel
example : maskB cfgB tyQ = [0xe0, 0xff, 0x80, 0xc0] := by decide +kernel
-- the structure of `Proofs/CoreBits.lean` (`int8 a:3; int8 b:5; uint16 c:4; uint16 d:12; uint8 e;`): every bit is used
example : maskB cfgL tyA = [0xff, 0xff, 0xff, 0xff] := by decide +kernel
-- an array of the structure above nested in a structure: the unit's mask repeats per element
example : maskB cfgL (.struct false (.cons "x" false u16 none (.cons "s" false (.arr tyP (.fixed 2)) none .nil))) =
    [0xff, 0xff, 0x7f, 0x00, 0xff, 0x7f, 0x00, 0xff] := by decide +kernel

/-- parsing `ff ff ab` as `tyP` (little endian) succeeds, consumes 3 bytes, and dumping the result gives `7f 00 ab`:
    the nine unused bits of the unit come back as zero, everything else is reproduced -/
example (post : Bytes) (ctx : Ctx) :
    ∃ v, read cfgL tyP ctx ([0xff, 0xff, 0xab] ++ post) 0 = .ok (v, 3) ∧ HasTyB cfgL v tyP ∧
      write cfgL tyP v 0 = .ok [0x7f, 0x00, 0xab] := by
  obtain ⟨v, hr, hv⟩ := read_size_SB_packed cfgL tyP (by decide +kernel) (by decide +kernel) (by decide +kernel) ctx
    ([0xff, 0xff, 0xab] ++ post) 0 3 (by decide +kernel) (by simp)
  refine ⟨v, hr, hv, ?_⟩
  obtain ⟨_, _, bs, hw, _, hbs, _⟩ := c02_fidelity_SB_packed cfgL tyP (by decide +kernel) (by decide +kernel)
    (by decide +kernel) ctx [] [0xff, 0xff, 0xab] post 3 rfl v hr
  rw [hbs] at hw
  have : andBytes [0xff, 0xff, 0xab] (maskB cfgL tyP) = [0x7f, 0x00, 0xab] := by decide +kernel
  rw [this] at hw
  exact hw

/-- the same input in big endian comes back as `fe 00 ab` -/
example (post : Bytes) (ctx : Ctx) :
    ∃ v, read cfgB tyP ctx ([0xff, 0xff, 0xab] ++ post) 0 = .ok (v, 3) ∧ write cfgB tyP v 0 = .ok [0xfe, 0x00, 0xab] := by
  obtain ⟨v, hr, hv⟩ := read_size_SB_packed cfgB tyP (by decide +kernel) (by decide +kernel) (by decide +kernel) ctx
    ([0xff, 0xff, 0xab] ++ post) 0 3 (by decide +kernel) (by simp)
  refine ⟨v, hr, ?_⟩
  obtain ⟨_, _, bs, hw, _, hbs, _⟩ := c02_fidelity_SB_packed cfgB tyP (by decide +kernel) (by decide +kernel)
    (by decide +kernel) ctx [] [0xff, 0xff, 0xab] post 3 rfl v hr
  rw [hbs] at hw
  have : andBytes [0xff, 0xff, 0xab] (maskB cfgB tyP) = [0xfe, 0x00, 0xab] := by decide +kernel
  rw [this] at hw
  exact hw

/-! aligned, big endian: `struct { uint8 a:3; uint16 b:4; uint16 c:12; uint8 e; }` (`Core.Ex.tyG`): an 8-bit unit with
    3 bits used (`e0`), one byte of padding, a full 16-bit unit, a byte, one byte of tail padding -/
example : tyG.fragSB cfgBE = true ∧ tyG.uniformAlign true = true ∧ tyG.bitsNatural cfgBE = true ∧ tyG.defErr cfgBE = none ∧
    tyG.alignsDivide cfgBE 0 = true ∧ tyG.size cfgBE = some 6 := by
  decide +kernel
example : maskB cfgBE tyG = [0xe0, 0x00, 0xff, 0xff, 0xff, 0x00] := by decide +kernel
-- `struct { uint8 x; uint32 a:5; uint32 b:9; uint16 c:3; uint8 y; }`, aligned, little endian, size 12
example : maskB cfgL (.struct true (.cons "x" false u8 none (.cons "a" false (.sc (.pint 4 false) 4) (some 5)
    (.cons "b" false (.sc (.pint 4 false) 4) (some 9) (.cons "c" false u16 (some 3) (.cons "y" false u8 none .nil)))))) =
    [0xff, 0, 0, 0, 0xff, 0x3f, 0, 0, 0x07, 0, 0xff, 0] := by decide +kernel

/-- parsing six `ff` bytes as `tyG` (aligned, big endian) and dumping the result gives `e0 00 ff ff ff 00` -/
example (post : Bytes) (ctx : Ctx) :
    ∃ v, read cfgBE tyG ctx ([0xff, 0xff, 0xff, 0xff, 0xff, 0xff] ++ post) 0 = .ok (v, 6) ∧ HasTyB cfgBE v tyG ∧
      write cfgBE tyG v 0 = .ok [0xe0, 0x00, 0xff, 0xff, 0xff, 0x00] := by
  have hp : tyG.pow2Aligned cfgBE := ⟨Or.inr ⟨0, rfl⟩, Or.inr ⟨1, rfl⟩, Or.inr ⟨1, rfl⟩, Or.inr ⟨0, rfl⟩, trivial⟩
  obtain ⟨v, hr, hv⟩ := read_size_SB cfgBE true tyG (by decide +kernel) (by decide +kernel) hp (fun _ => by decide +kernel)
    (by decide +kernel) ctx ([0xff, 0xff, 0xff, 0xff, 0xff, 0xff] ++ post) 0 6 (by decide +kernel) (by simp)
    (by decide +kernel)
  refine ⟨v, hr, hv, ?_⟩
  obtain ⟨_, _, bs, hw, _, hbs, _⟩ := c02_fidelity_SB cfgBE true tyG (by decide +kernel) (by decide +kernel) hp
    (fun _ => by decide +kernel) (by decide +kernel) ctx [] [0xff, 0xff, 0xff, 0xff, 0xff, 0xff] post 6 rfl
    (by decide +kernel) v hr
  rw [hbs] at hw
  have : andBytes [0xff, 0xff, 0xff, 0xff, 0xff, 0xff] (maskB cfgBE tyG) = [0xe0, 0x00, 0xff, 0xff, 0xff, 0x00] := by
    decide +kernel
  rw [this] at hw
  exact hw

-- the hypothesis `defErr = none` is not vacuous either way: a straddling definition is rejected
example : (Ty.struct false (.cons "x" false u8 (some 5) (.cons "y" false u8 (some 5) .nil))).defErr cfgL = some .value := by
  decide +kernel

end Ex

end Cstruct.C02B
