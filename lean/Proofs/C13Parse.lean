/-
  C13 — the scanner and the declaration handlers of the definition parser (`CstructModel/DefParser.lean`, a mirror of
  `TokenParser` in parser.py that is compared with the real parser on every run of the check) are insensitive to layout:

  * `c13_scan_lexemes`            — a text that consists of well-formed lexemes with admissible blank separators scans to
                                    exactly one token per lexeme (`toks`), whatever the separators are.
  * `c13_scan_blank_insensitive`  — hence two such texts with the same lexemes have token lists that agree token by token;
                                    the tokens of the classes CONFIG_FLAG, TYPEDEF, STRUCT, IDENTIFIER, BLOCK, EOL are
                                    identical, those of NAME, DEFS, ENUM, DEFINE differ only in the blank string they
                                    swallowed.  Which separators are admissible is `sepOK` (Proofs/Spec/C13Parse.lean);
                                    every condition there is needed by the code as it is (see the counter-examples below).
  * `c13_blank_passed` / `c13_token_emitted` — the two local steps of the scanner the first theorem is made of: at a
                                    non-empty blank run where no name list starts nothing is emitted, where the
                                    alternation matches a token it is emitted and the scan continues behind it.
  * `c13_comment_block_is_newlines`, `c13_comment_line_is_nothing` (`c13_comment_line_crlf_is_nothing`: the same for a line
                                    comment closed by CR LF, fix F73) — composing with the comment scanner (Proofs/C13.lean):
                                    a block comment at a point where the comment scanner is between lexical items parses
                                    like what the scanner puts in its place (`commentRepl`: its newlines; ONE BLANK when it has
                                    none and stands directly between two characters that are no white space; else nothing), a
                                    line comment like nothing (its newline stays).  Since the replacement depends on the two
                                    neighbours, these statements now have side conditions (the text in front does not end
                                    with `/`, the text behind does not start with a block comment: adjacent comments influence
                                    each other's replacement);
    `c13_comment_separates`         — the "ignores comments" clause by the scanner rule itself: a block comment without line break
                                    directly between two characters that are neither white space nor `/` is the same as one
                                    blank — for the stripped text and for the declarations (`uint8/**/a` = `uint8 a`);
    `c13_comment_is_blank`          — with the blank-insensitivity theorems: a comment may stand anywhere a blank may stand.
  * `c13_decls_layout_independent` — the handlers read a token only through `Tok.obs` (its kind, and what its own pattern /
                                    `strip` make of its text): token lists with the same observations give the same
                                    declaration list and the same error;
    `c13_obs_swallowed`            — and the observation of a NAME / DEFS / ENUM / DEFINE token does not depend on the blanks
                                    it swallowed, nor — for an enum head — on the blanks around its name, around `:` and
                                    BETWEEN THE WORDS of a multi-word base type (`lexSim`; the handler reads the type as
                                    `" ".join(type.split())` since the repair of the `_enum` handler, `c13_enum_type_words`);
    `c13_parse_layout_independent` — so two texts whose comment-stripped forms have the same lexemes up to `lexSim` yield
                                    the same declaration list.
  * `c13_declarator_of_lexeme`    — what `_parse_field_type` extracts from a well-formed declarator: the pointer depth is the
                                    number of stars whatever blanks stand between them (`c13_star_spacing`; a blank between
                                    the stars used to lose a level — repaired in the library), the array dimensions are
                                    the count text split at `][`, each without the white space around it (`c13_dimension_blanks`:
                                    `a[ n ]` is `a[n]`, `a[ ]` is the null-terminated `a[]`), an empty dimension is accepted in
                                    the last place only.

  * `c13_decls_append`            — the declaration list is compositional at a boundary between top-level definitions: the
                                    declarations of `t1 ++ t2` are those of `t1` followed by those of `t2` (and the error is that
                                    of `t2`), when `t1` ends a top-level declaration (`endsTop`), parses without error and is at a
                                    `boundary` with respect to the first token of `t2`.  Token level: the scanner has no state
                                    between tokens except the look-behind for `}` (a name list right behind `}` is NOT a boundary;
                                    `adm_append`), and a handler that leaves a non-empty rest never looked at the end of the token
                                    list (`frame_all`, `declH_frame`).  The only look-aheads past the closing `;` are: a struct
                                    definition takes one more `;`, and `typedef struct {...};` takes following declarators as
                                    its names — `boundary` excludes these continuations, and unfinished definitions.
    `c13_decls_concat / _permute` — for a family of complete definitions that are pairwise at a boundary, the text in ANY order
                                    has the members' declarations in that order: reordering permutes the declaration list.
  * `c13_commute_list`            — registration order: typedefs of pairwise distinct fresh names whose targets are all known
                                    before (independent) can be registered in any order: all orders succeed and give tables that
                                    bind and resolve every name alike (`c13_commute` lifted to lists).  A definition that uses a
                                    name before it is defined is a ResolveError, in the model as in the library (example below).

  Not proved: that an error in `t1` persists when text is appended (an error raised at the end of the tokens need not); the
  effect of struct / enum declarations on the type table (only typedef registrations are modelled there);
  a printer / parser round trip `parseDecls (renderDecls ds) = ds` for whole declaration lists (the member loop
  of `_struct`, the enum member splitting); these paths are covered by the correspondence with the real parser only.
-/
import Proofs.C13
import Proofs.Lemmas.C13ParseM

namespace Cstruct.DefParser.C13
open Cstruct Cstruct.Parser Cstruct.DefParser

theorem c13_scan_lexemes (w : List Char) (l : List (Lexeme × List Char)) (hw : blank w = true) (h : adm false l = true) :
    scan (w ++ render l) = toks l :=
  scan_lead w l hw h

theorem c13_scan_blank_insensitive (w w' : List Char) (l l' : List (Lexeme × List Char)) (hw : blank w = true)
    (hw' : blank w' = true) (h : adm false l = true) (h' : adm false l' = true) (hs : sameLexemes l l') :
    TokensAgree (scan (w ++ render l)) (scan (w' ++ render l')) := by
  rw [scan_lead w l hw h, scan_lead w' l' hw' h']
  exact toks_agree l l' false false h h' hs

theorem c13_blank_passed (ac : Bool) (w y : List Char) (hw : blank w = true) (hne : w ≠ []) (hy : noHead isWsA y = true)
    (hd : matchDefs isWsA ac (w ++ y) = none) : scanAux 0 ac (w ++ y) = scanAux 0 false y := by
  obtain ⟨c, w', rfl⟩ := List.exists_cons_of_ne_nil hne
  have hc : isWsA c = true := by simp only [blank, List.all_cons, Bool.and_eq_true] at hw; exact hw.1
  exact scan_blank ac (c :: w') y hw (by simp) hy (matchTok_blank ac c _ hc hd)

theorem c13_token_emitted (ac : Bool) (t : Tok) (rest r' : List Char) (hne : t.value ≠ [])
    (hm : matchTok ac (t.value ++ rest) = some (t, r')) :
    scanAux 0 ac (t.value ++ rest) = t :: scanAux 0 (lastClose ac t.value) rest :=
  scan_tok ac t _ rest r' hm rfl hne

theorem c13_decls_layout_independent (ts ts' : List Tok) (h : ts.map Tok.obs = ts'.map Tok.obs) : parseToks ts = parseToks ts' := by
  have hl : ts.length = ts'.length := by simpa using congrArg List.length h
  simp only [parseToks, h, hl]

theorem c13_obs_swallowed (ac ac' : Bool) (x x' : Lexeme) (s s' : List Char) (r r' : List (Lexeme × List Char))
    (hx : lexSim x x' = true) (h : adm ac ((x, s) :: r) = true) (h' : adm ac' ((x', s') :: r') = true) :
    (tokOf x s).obs = (tokOf x' s').obs :=
  obs_tokOf ac ac' x x' s s' r r' hx h h'

theorem parseDecls_eq (t : List Char) : parseDecls t = parseToks (scan (Parser.strip t)) := rfl

theorem c13_parse_layout_independent (t t' w w' : List Char) (l l' : List (Lexeme × List Char))
    (ht : Parser.strip t = w ++ render l) (ht' : Parser.strip t' = w' ++ render l')
    (hw : blank w = true) (hw' : blank w' = true) (h : adm false l = true) (h' : adm false l' = true)
    (hs : simLexemes l l' = true) : parseDecls t = parseDecls t' := by
  rw [parseDecls_eq, parseDecls_eq, ht, ht', scan_lead w l hw h, scan_lead w' l' hw' h']
  exact c13_decls_layout_independent _ _ (toks_obs l l' false false h h' hs)

/-- the base type of an enum is read as its words joined by single blanks, whatever blanks separate them in the text -/
theorem c13_enum_type_words (more : List (List Char × List Char)) (w0 : List Char) (h0 : isWordStr w0 = true)
    (hm : ∀ p ∈ more, blank p.1 = true ∧ p.1 ≠ [] ∧ isWordStr p.2 = true) :
    normType (typeWords w0 more) = joinBlank (w0 :: more.map (·.2)) :=
  normType_typeWords more w0 h0 hm

theorem c13_declarator_of_lexeme (pre w : List Char) (bits : Option (List Char × List Char × List Char)) (cnt : Option (List Char))
    (hwf : (Lexeme.name pre w bits cnt).wf = true) :
    parseDeclarator (Lexeme.name pre w bits cnt).text =
      let dims := match cnt with | some c => (splitDims c).map strip | none => []
      if dims.dropLast.any (·.isEmpty) then .error .depthRequired
      else .ok ⟨stars pre, w, dims, bits.map fun t => digitsToNat t.2.2⟩ :=
  parseDeclarator_lexeme pre w bits cnt hwf

theorem c13_star_spacing (pre pre' w : List Char) (bits : Option (List Char × List Char × List Char)) (cnt : Option (List Char))
    (h : (Lexeme.name pre w bits cnt).wf = true) (h' : (Lexeme.name pre' w bits cnt).wf = true) (hs : stars pre = stars pre') :
    parseDeclarator (Lexeme.name pre w bits cnt).text = parseDeclarator (Lexeme.name pre' w bits cnt).text := by
  rw [parseDeclarator_lexeme pre w bits cnt h, parseDeclarator_lexeme pre' w bits cnt h', hs]

/-- blanks inside array brackets, around the count text, do not change the declarator: `a[ n ]` is `a[n]`, `a[ ]` is `a[]` -/
theorem c13_dimension_blanks (pre w a t b : List Char) (bits : Option (List Char × List Char × List Char))
    (h : (Lexeme.name pre w bits (some t)).wf = true) (h' : (Lexeme.name pre w bits (some (a ++ t ++ b))).wf = true)
    (ha : blank a = true) (hb : blank b = true) (ht : ∀ c ∈ t, c ≠ ']') :
    parseDeclarator (Lexeme.name pre w bits (some (a ++ t ++ b))).text = parseDeclarator (Lexeme.name pre w bits (some t)).text := by
  rw [parseDeclarator_lexeme pre w bits _ h, parseDeclarator_lexeme pre w bits _ h']
  simp only [dims_pad a t b ha hb ht]

/-- a text without quotes and slashes: the comment scanner copies it, whatever stands around it -/
theorem closed_plain : ∀ (p n : Option Char) (l : List Char), (∀ c ∈ l, c ≠ '"' ∧ c ≠ '\'' ∧ c ≠ '/') → Closed p l n l
  | p, n, [], _ => .nil p n
  | p, n, c :: l, hc => .char p n c l l (hc c (by simp)).1 (hc c (by simp)).2.1 (hc c (by simp)).2.2
      (closed_plain (some c) n l (fun d hd => hc d (by simp [hd])))

/-- the text in front of a comment is scanned alike whatever follows it, unless it ends with `/` (in particular: with a comment,
    whose own replacement depends on what follows) -/
theorem closed_next (p : Option Char) (a : List Char) (n n' : Option Char) (o : List Char) (h : Closed p a n o)
    (hl : lastOr p a ≠ some '/') : Closed p a n' o := by
  induction h with
  | nil p n => exact .nil p n'
  | char p n c a o h1 h2 h3 _ ih => exact .char p n' c a o h1 h2 h3 (ih hl)
  | quoted p n q body a o hq hb _ ih =>
    refine .quoted p n' q body a o hq hb (ih ?_)
    have el : lastOr p (q :: body ++ q :: a) = lastOr (some q) a := by
      rw [show q :: body ++ q :: a = (q :: body ++ [q]) ++ a by simp, lastOr_append]
      congr 1
      rw [show q :: body ++ [q] = (q :: body) ++ [q] by simp, lastOr_append]; rfl
    rwa [el] at hl
  | block p n body a o hb _ ih =>
    have el : lastOr p ('/' :: '*' :: body ++ '*' :: '/' :: a) = lastOr (some '/') a := by
      rw [show '/' :: '*' :: body ++ '*' :: '/' :: a = ('/' :: '*' :: body ++ ['*']) ++ ('/' :: a) by simp, lastOr_append]
      rfl
    rw [el] at hl
    have hne : a ≠ [] := by intro e; subst e; exact hl rfl
    have hh : headOr a n = headOr a n' := by cases a with
      | nil => exact absurd rfl hne
      | cons c a => rfl
    rw [hh]
    exact .block p n' body a o hb (ih hl)
  | line p n body a o hb _ ih =>
    have el : lastOr p ('/' :: '/' :: body ++ '\n' :: a) = lastOr (some '/') ('\n' :: a) := by
      rw [show '/' :: '/' :: body ++ '\n' :: a = ('/' :: '/' :: body) ++ ('\n' :: a) by simp, lastOr_append]
      rfl
    exact .line p n' body a o hb (ih (by rwa [el] at hl))
  | slash p n c a o h1 h2 _ ih => exact .slash p n' c a o h1 h2 (ih hl)

theorem strip_closed (p : Option Char) (a o : List Char) (h : Closed p a none o) : stripFrom p a = o := by
  have := Parser.C13.c13_strip_append p a o [] (by simpa using h)
  simpa [Parser.stripFrom, Parser.stripAux] using this

theorem commentRepl_plain (p n : Option Char) (body : List Char) : ∀ c ∈ commentRepl p body n, c ≠ '"' ∧ c ≠ '\'' ∧ c ≠ '/' := by
  intro c hc
  unfold commentRepl at hc
  split at hc
  · cases p <;> cases n <;> simp at hc
    obtain ⟨_, rfl⟩ := hc; decide
  · have : c = '\n' := by simpa [newlinesOf] using (List.mem_filter.mp hc).2
    subst this; decide

/-- A block comment parses like what the comment scanner puts in its place (`commentRepl`: its newlines; one blank if it has none
    and stands directly between two characters that are no white space; nothing otherwise).  Side conditions (new with the rule
    that looks at the neighbours; the statement used to be unconditional): the text in front does not end with `/` and the text
    behind does not start with another block comment — the replacements of ADJACENT comments depend on each other. -/
theorem c13_comment_block_is_newlines (a o body b : List Char) (h : Closed none a (some '/') o) (hb : hasClose body = false)
    (hl : lastOr none a ≠ some '/') (hb2 : ∀ r, b ≠ '/' :: '*' :: r) :
    parseDecls (a ++ ('/' :: '*' :: body ++ '*' :: '/' :: b)) = parseDecls (a ++ (commentRepl (lastOr none a) body b.head? ++ b)) := by
  have hR := closed_plain (lastOr none a) b.head? _ (commentRepl_plain (lastOr none a) b.head? body)
  rw [parseDecls_eq, parseDecls_eq]
  show parseToks (scan (stripFrom none _)) = parseToks (scan (stripFrom none _))
  rw [Parser.C13.c13_comment_block none a o body b h hb,
    Parser.C13.c13_strip_append none a o _ (closed_next none a _ _ o h hl),
    Parser.C13.c13_strip_append _ _ _ b hR,
    Parser.C13.c13_strip_prev (some '/') _ b hb2, List.append_assoc]

/-- a line comment parses like nothing (its newline stays); side condition as above: the text in front does not end with `/` -/
theorem c13_comment_line_is_nothing (a o body b : List Char) (h : Closed none a (some '/') o) (hb : ∀ c ∈ body, isEol c = false)
    (hl : lastOr none a ≠ some '/') :
    parseDecls (a ++ ('/' :: '/' :: body ++ '\n' :: b)) = parseDecls (a ++ '\n' :: b) := by
  rw [parseDecls_eq, parseDecls_eq]
  show parseToks (scan (stripFrom none _)) = parseToks (scan (stripFrom none _))
  rw [Parser.C13.c13_comment_line none a o body b h hb,
    Parser.C13.c13_strip_append none a o _ (closed_next none a _ _ o h hl),
    Parser.C13.c13_strip_prev (some '/') (lastOr none a) ('\n' :: b) (by intro r e; cases e)]

/-- **A line comment on a CRLF-terminated line parses like nothing, together with its carriage return (its newline stays)** — fix
    F73; side condition as above: the text in front does not end with `/`. -/
theorem c13_comment_line_crlf_is_nothing (a o body b : List Char) (h : Closed none a (some '/') o)
    (hb : ∀ c ∈ body, isEol c = false) (hl : lastOr none a ≠ some '/') :
    parseDecls (a ++ ('/' :: '/' :: body ++ '\r' :: '\n' :: b)) = parseDecls (a ++ '\n' :: b) := by
  rw [parseDecls_eq, parseDecls_eq]
  show parseToks (scan (stripFrom none _)) = parseToks (scan (stripFrom none _))
  rw [Parser.C13.c13_comment_line_crlf none a o body b h hb,
    Parser.C13.c13_strip_append none a o _ (closed_next none a _ _ o h hl),
    Parser.C13.c13_strip_prev (some '\r') (lastOr none a) ('\n' :: b) (by intro r e; cases e)]

/-- THE "ignores comments" CLAUSE, first half — by the scanner rule itself: a block comment without line break that stands directly
    between two characters that are neither white space nor `/` is the same as ONE BLANK, for the comment-stripped text and hence
    for the declarations: `uint8/**/a` is `uint8 a`. -/
theorem c13_comment_separates (a o body b' : List Char) (x y : Char) (h : Closed none a (some '/') o) (hb : hasClose body = false)
    (hnl : newlinesOf body = []) (hx : lastOr none a = some x) (hxs : isSpace x = false) (hx2 : x ≠ '/')
    (hys : isSpace y = false) (hy2 : y ≠ '/') :
    Parser.strip (a ++ ('/' :: '*' :: body ++ '*' :: '/' :: y :: b')) = Parser.strip (a ++ ' ' :: y :: b') ∧
    parseDecls (a ++ ('/' :: '*' :: body ++ '*' :: '/' :: y :: b')) = parseDecls (a ++ ' ' :: y :: b') := by
  have hl : lastOr none a ≠ some '/' := by rw [hx]; intro e; cases e; exact hx2 rfl
  have hb2 : ∀ r, y :: b' ≠ '/' :: '*' :: r := by intro r e; cases e; exact hy2 rfl
  have hrepl : commentRepl (lastOr none a) body (y :: b').head? = [' '] :=
    (Parser.C13.c13_comment_repl _ _ body).2.1 hnl x y hx rfl hxs hys
  have key : Parser.strip (a ++ ('/' :: '*' :: body ++ '*' :: '/' :: y :: b')) = Parser.strip (a ++ ' ' :: y :: b') := by
    have hR := closed_plain (lastOr none a) (y :: b').head? [' '] (by intro c hc; simp at hc; subst hc; decide)
    show stripFrom none _ = stripFrom none _
    rw [Parser.C13.c13_comment_block none a o body (y :: b') h hb, hrepl,
      show a ++ ' ' :: y :: b' = a ++ ([' '] ++ (y :: b')) by simp,
      Parser.C13.c13_strip_append none a o _ (closed_next none a _ _ o h hl),
      Parser.C13.c13_strip_append _ _ _ (y :: b') hR,
      Parser.C13.c13_strip_prev (some '/') _ (y :: b') hb2, List.append_assoc]
  exact ⟨key, by rw [parseDecls_eq, parseDecls_eq, key]⟩

/-- ... second half — with the blank-insensitivity of scanner and handlers: a block comment may stand ANYWHERE a blank may stand.
    Whatever the comment is replaced by (newlines, a blank, nothing), if the text with the comment and the text without it have the
    same lexemes up to `lexSim` with admissible separators, they yield the same declarations. -/
theorem c13_comment_is_blank (a o body b w w' : List Char) (l l' : List (Lexeme × List Char)) (h : Closed none a (some '/') o)
    (hb : hasClose body = false) (hl : lastOr none a ≠ some '/') (hb2 : ∀ r, b ≠ '/' :: '*' :: r)
    (ht : Parser.strip (a ++ b) = w ++ render l)
    (ht' : Parser.strip (a ++ (commentRepl (lastOr none a) body b.head? ++ b)) = w' ++ render l')
    (hw : blank w = true) (hw' : blank w' = true) (hadm : adm false l = true) (hadm' : adm false l' = true) (hs : simLexemes l' l = true) :
    parseDecls (a ++ ('/' :: '*' :: body ++ '*' :: '/' :: b)) = parseDecls (a ++ b) := by
  rw [c13_comment_block_is_newlines a o body b h hb hl hb2]
  exact c13_parse_layout_independent _ _ w' w l' l ht' ht hw' hw hadm' hadm hs

-- ------------------------------------------------------------------------------------------------ order of definitions
/-- The declaration list is compositional at a boundary between top-level definitions.  `t1` (comment-stripped — in front of `t2`
    and on its own —: blanks `w`, then the lexemes `l1`; `t2` comment-stripped — behind `t1` and on its own —: the lexemes `l2`) ends a top-level declaration (`endsTop`: behind `;`, a `#[...]` flag, or the line break of a `#define`),
    parses to `ds1` without error, and is at a `boundary` with respect to the first token of `t2` (see there: the continuation
    must not start with `;`, a declarator or a name list, and `t1` must not end inside an unfinished definition).  Then the
    declarations of `t1 ++ t2` are those of `t1` followed by those of `t2`, and the error, if any, is that of `t2`. -/
theorem c13_decls_append (t1 t2 w : List Char) (l1 l2 : List (Lexeme × List Char)) (ds1 : List Decl)
    (hc : Closed none t1 t2.head? (w ++ render l1)) (hc0 : Closed none t1 none (w ++ render l1)) (hw : blank w = true)
    (h2 : stripFrom (lastOr none t1) t2 = render l2) (h2' : stripFrom none t2 = render l2)
    (ha1 : adm false l1 = true) (ha2 : adm false l2 = true) (he : endsTop l1 = true)
    (hp : parseDecls t1 = (ds1, none)) (hb : boundary l1 ds1 (firstObs l2)) :
    parseDecls (t1 ++ t2) = (ds1 ++ (parseDecls t2).1, (parseDecls t2).2) := by
  have e12 : Parser.strip (t1 ++ t2) = w ++ render (l1 ++ l2) := by
    show stripFrom none _ = _
    rw [Parser.C13.c13_strip_append none t1 _ t2 hc, h2, render_append, List.append_assoc]
  have hp' : declsH (((toks l1).map Tok.obs).length + 1) ((toks l1).map Tok.obs) = (ds1, none) := by
    rw [parseDecls_eq, show Parser.strip t1 = stripFrom none t1 from rfl, strip_closed none t1 _ hc0, scan_lead w l1 hw ha1] at hp
    simpa [parseToks] using hp
  have h2'' : parseDecls t2 = declsH (((toks l2).map Tok.obs).length + 1) ((toks l2).map Tok.obs) := by
    rw [parseDecls_eq, show Parser.strip t2 = stripFrom none t2 from rfl, h2']
    have := scan_lead [] l2 rfl ha2
    simp only [List.nil_append] at this
    rw [this]; simp [parseToks]
  rw [parseDecls_eq, e12, scan_lead w (l1 ++ l2) hw (adm_append l1 l2 false ha1 he ha2), h2'']
  have := decls_append_obs ((toks l1).map Tok.obs) ((toks l2).map Tok.obs) ds1 hp' hb
  simpa [parseToks, toks_append] using this

theorem firstObs_append (l1 l2 : List (Lexeme × List Char)) (h : l1 ≠ []) : firstObs (l1 ++ l2) = firstObs l1 := by
  cases l1 with
  | nil => exact absurd rfl h
  | cons p l1 => obtain ⟨x, s⟩ := p; simp [firstObs, toks]

theorem endsTop_ne_nil (l : List (Lexeme × List Char)) (h : endsTop l = true) : l ≠ [] := by
  intro e; subst e; simp [endsTop] at h

/-- Any sequence of complete top-level definitions taken from a family `D` whose members are pairwise at a boundary with respect
    to each other: the declaration list of the concatenated text is the concatenation of the members' declaration lists, in the
    order of the text, without error. -/
theorem c13_decls_concat (D : List TopDef) (hok : ∀ d ∈ D, d.ok) (hb : ∀ d ∈ D, ∀ d' ∈ D, d.before d') :
    ∀ (σ : List TopDef), (∀ d ∈ σ, d ∈ D) →
      parseDecls (σ.flatMap (·.text)) = (σ.flatMap (·.decls), none) ∧
      (∀ p, stripFrom p (σ.flatMap (·.text)) = render (σ.flatMap (·.lex))) ∧ adm false (σ.flatMap (·.lex)) = true
  | [], _ => ⟨by decide +kernel, fun p => by cases p <;> rfl, rfl⟩
  | d :: σ, hσ => by
    obtain ⟨ihp, ihs, iha⟩ := c13_decls_concat D hok hb σ (fun x hx => hσ x (by simp [hx]))
    obtain ⟨hc, had, het, hpd⟩ := hok d (hσ d (by simp))
    have hbd : boundary d.lex d.decls (firstObs (σ.flatMap (·.lex))) := by
      cases σ with
      | nil => simp [firstObs, toks, boundary]
      | cons d' σ' =>
        have hne := endsTop_ne_nil d'.lex (hok d' (hσ d' (by simp))).2.2.1
        simp only [List.flatMap_cons]
        rw [firstObs_append _ _ hne]
        exact hb d (hσ d (by simp)) d' (hσ d' (by simp))
    have := c13_decls_append d.text (σ.flatMap (·.text)) [] d.lex (σ.flatMap (·.lex)) d.decls (by simpa using hc none _)
      (by simpa using hc none none) rfl (ihs _) (ihs none) had iha het hpd hbd
    refine ⟨?_, ?_, ?_⟩
    · simp only [List.flatMap_cons, this, ihp]
    · intro p
      simp only [List.flatMap_cons]
      rw [Parser.C13.c13_strip_append p d.text _ _ (hc p _), ihs, render_append]
    · simp only [List.flatMap_cons]
      exact adm_append d.lex _ false had het iha

/-- Reordering independent top-level definitions permutes the declaration list: for every permutation `σ` of the family, the
    declarations of the permuted text are the members' declarations in the permuted order — a permutation of the declarations of
    the original text. -/
theorem c13_decls_permute (D σ : List TopDef) (hok : ∀ d ∈ D, d.ok) (hb : ∀ d ∈ D, ∀ d' ∈ D, d.before d') (hp : σ.Perm D) :
    parseDecls (σ.flatMap (·.text)) = (σ.flatMap (·.decls), none) ∧
    (parseDecls (σ.flatMap (·.text))).1.Perm (parseDecls (D.flatMap (·.text))).1 := by
  have h1 := (c13_decls_concat D hok hb σ (fun d hd => hp.mem_iff.mp hd)).1
  have h2 := (c13_decls_concat D hok hb D (fun d hd => hd)).1
  refine ⟨h1, ?_⟩
  rw [h1, h2]
  exact hp.flatMap_right _

/-- Registration order.  A typedef resolves its target when it is read and binds the name to the type found (`regTypedef`), so a
    definition that uses a name before the text defines it fails (see the counter-example below): order matters exactly for
    DEPENDENT definitions, in the model as in the library.  For independent ones (`RegOK`: pairwise distinct names that are not
    bound yet, every target already known to the table before the sequence) every order succeeds and all orders give tables that
    bind every name alike and resolve every name alike. -/
theorem c13_commute_list (tbl : List (String × Bind)) (regs σ : List (String × String)) (hok : RegOK tbl regs) (hp : regs.Perm σ) :
    ∃ T T', regAll tbl regs = some T ∧ regAll tbl σ = some T' ∧ LookupEq T T' ∧ ∀ n, resolveB T 10 n = resolveB T' 10 n := by
  obtain ⟨T, hT⟩ := regAll_total regs tbl hok
  obtain ⟨T', hT', he⟩ := reg_perm regs σ hp tbl T hok hT
  exact ⟨T, T', hT, hT', he, fun n => resolveB_congr T T' he 10 n⟩

-- ------------------------------------------------------------------------------------------------ non-vacuity
namespace Example
def S (s : String) : List Char := s.toList
def nm (w : String) : Lexeme := .name [] (S w) none none
def id' (w : String) : Lexeme := .ident (S w)

/-- a definition set with a `#define`, an enum with expressions and a two-word base type, typedefs with a pointer and with
    an array declarator, a struct with bit-fields, a nested anonymous struct, a multi-dimensional array and a trailing
    declarator list; every lexeme with two separators (the compact spelling / spread over lines) -/
def sample : List (Lexeme × String × String) := [
  (.define (S " ") (S "N") (S " ") (S "4"), "\n", "\n\n"),
  (.enum false (S " ") (S "E") (S " ") (some (S " ", S "unsigned short", S " ")) (S " A = 1, B, C = A + 2 "), "", "  "),
  (.semi, "\n", "\n"),
  (.typedef, " ", "\t"), (id' "unsigned", " ", " \n "), (id' "int", " ", " "), (.name (S "* *") (S "PU") none none, "", "\n"), (.semi, "\n", "\n"),
  (.typedef, " ", "\n"), (id' "uint8", " ", "\t\t"), (.name [] (S "ARR") none (some (S "N][2")), "", " "), (.semi, "\n", "\n\n"),
  (.struct false, " ", "\n"), (id' "S", " ", "\n"), (.lbrace, " ", "\n  "),
    (id' "uint8", " ", " "), (.name [] (S "a") (some (S " ", S " ", S "3")) none, "", "   "), (.semi, " ", "\n  "),
    (id' "uint8", " ", " "), (.name [] (S "b") (some ([], [], S "5")) none, "", "\t"), (.semi, " ", "\n"),
    (.struct false, " ", ""), (.lbrace, " ", "\n\t"), (id' "uint16", " ", "  "), (nm "x", "", " "), (.semi, " ", "\n"), (.rbrace, " ", ""),
      (nm "inner", "", "\n"), (.semi, " ", ""),
    (id' "uint32", " ", "\n"), (.name [] (S "m") none (some (S "2][N")), "", " "), (.semi, " ", " \t"),
  (.rbrace, "", ""), (.defs (S " ") (S "s1") [(S "", S " ", S "s2")], "", "\n"), (.semi, "\n", "")]
def exA := sample.map fun (x, a, _) => (x, S a)
def exB := sample.map fun (x, _, b) => (x, S b)

example : adm false exA = true ∧ adm false exB = true ∧ sameLexemes exA exB := by decide +kernel
example : String.ofList (render exA) =
  "#define N 4\nenum E : unsigned short { A = 1, B, C = A + 2 };\ntypedef unsigned int * *PU;\ntypedef uint8 ARR[N][2];\nstruct S { uint8 a : 3; uint8 b:5; struct { uint16 x; } inner; uint32 m[2][N]; } s1, s2;\n" := by
  decide +kernel
example : String.ofList (render exB) =
  "#define N 4\n\nenum E : unsigned short { A = 1, B, C = A + 2 }  ;\ntypedef\tunsigned \n int * *PU\n;\ntypedef\nuint8\t\tARR[N][2] ;\n\nstruct\nS\n{\n  uint8 a : 3   ;\n  uint8 b:5\t;\nstruct{\n\tuint16  x ;\n}inner\n;uint32\nm[2][N] ; \t} s1, s2\n;" := by
  decide +kernel
-- the declaration list of the sample (no error), and the spread-out text parses to the same list (by the theorem)
example : (parseDecls (render exA)).2 = none ∧ (parseDecls (render exA)).1.map encDecl =
  ["(const \"N\" \"4\")", "(enum \"E\" \"unsigned short\" [(\"A\" \"1\")(\"B\")(\"C\" \"A + 2\")])",
   "(typedef (name \"unsigned int\") [(d 2 \"PU\" [] -)])", "(typedef (name \"uint8\") [(d 0 \"ARR\" [\"N\"\"2\"] -)])",
   "(aggr (struct \"S\" {(field (name \"uint8\") (d 0 \"a\" [] 3))(field (name \"uint8\") (d 0 \"b\" [] 5))(field (inline (struct - {(field (name \"uint16\") (d 0 \"x\" [] -))} [])) (d 0 \"inner\" [] -))(field (name \"uint32\") (d 0 \"m\" [\"2\"\"N\"] -))} [\"s1\"\"s2\"]))"] := by
  decide +kernel
example : parseDecls (render exB) = parseDecls (render exA) :=
  c13_parse_layout_independent _ _ [] [] exB exA (by decide +kernel) (by decide +kernel) rfl rfl (by decide +kernel) (by decide +kernel)
    (by decide +kernel)
-- a block comment between `uint8` and `a` (two lines), by `c13_comment_is_blank`: `a` = the text up to that point
def cutA : List Char := S "#define N 4\nstruct S { uint8 "
def cutB : List Char := S "a : 3; };"
def cutL (sep : String) : List (Lexeme × List Char) := [(.define (S " ") (S "N") (S " ") (S "4"), S "\n"), (.struct false, S " "), (id' "S", S " "),
  (.lbrace, S " "), (id' "uint8", S sep), (.name [] (S "a") (some (S " ", S " ", S "3")) none, []), (.semi, S " "), (.rbrace, []), (.semi, [])]
example : parseDecls (cutA ++ ('/' :: '*' :: S " bits:\n low " ++ '*' :: '/' :: cutB)) = parseDecls (cutA ++ cutB) :=
  c13_comment_is_blank cutA cutA (S " bits:\n low ") cutB [] [] (cutL " ") (cutL " \n")
    (closed_plain none _ cutA (by decide +kernel)) (by decide +kernel) (by decide +kernel)
    (by have h1 : cutB.head? = some 'a' := by decide +kernel
        intro r e; rw [e] at h1; simp at h1)
    (by decide +kernel) (by decide +kernel) rfl rfl (by decide +kernel) (by decide +kernel) (by decide +kernel)
-- the comment as the ONLY separator: `uint8/**/a` is `uint8 a` (by the scanner rule, `c13_comment_separates`)
example : parseDecls (S "struct s { uint8/**/a; };") = parseDecls (S "struct s { uint8 a; };") := by decide +kernel
example : parseDecls (S "struct s { uint8/**/a; };") = parseDecls (S "struct s { uint8 a; };") :=
  (c13_comment_separates (S "struct s { uint8") (S "struct s { uint8") [] (S "; };") '8' 'a'
    (closed_plain none _ _ (by decide +kernel)) rfl rfl (by decide +kernel) (by decide +kernel) (by decide) (by decide +kernel) (by decide)).2
-- next to a blank the comment is replaced by nothing, at the start of the text too; a comment with a line break by its line breaks
example : Parser.strip (S "/*h*/uint8 /*c*/a;/* x\n y */b") = S "uint8 a;\nb" ∧ Parser.strip (S "a/*1*//*2*/b") = S "a  b" := by decide +kernel

-- Every condition of `sepOK` is needed by the code as it is; the token lists below differ although only a blank was inserted
-- at a place where the scanner had just finished a token:
-- (1) `enum` / `flag` need a blank in front of `{` (the ENUM pattern has `\s+` behind the keyword)
example : (scan (S "enum{A};")).map (·.kind) = [.ident, .block, .ident, .block, .eol] ∧
          (scan (S "enum {A};")).map (·.kind) = [.enum, .eol] := by decide +kernel
-- (2) an empty enum body: a blank between the braces turns five tokens into an ENUM token (`[^}]+` needs one character)
example : (scan (S "flag F {};")).map (·.kind) = [.ident, .ident, .block, .block, .eol] ∧
          (scan (S "flag F { };")).map (·.kind) = [.enum, .eol] := by decide +kernel
-- (3) a blank between a declarator name and `[`: the count is no longer part of the NAME token and is dropped silently by
--     the catch-all; the name joins the type words (the real parser then fails to resolve `uint8 x`)
example : (scan (S "uint8 x[2];")).map (·.kind) = [.ident, .name, .eol] ∧
          (scan (S "uint8 x [2];")).map (·.kind) = [.ident, .ident, .eol] := by decide +kernel
-- (4) blanks at the end of the text behind `#define A` make a DEFINE token (the constant A becomes a blank)
example : (scan (S "#define A")).map (·.kind) = [.ident, .ident] ∧
          (scan (S "#define A  ")).map (·.kind) = [.define] ∧
          (parseDecls (S "#define A  ")).1.map encDecl = ["(const \"A\" \" \")"] := by
  decide +kernel
-- (5) the base type of an enum: blanks, a comment or a newline between its words do not matter (they did before the repair of
--     the `_enum` handler: the type text `unsigned  int` was looked up as it stood)
example : (parseDecls (S "enum E : unsigned int { A };")).1.map encDecl = ["(enum \"E\" \"unsigned int\" [(\"A\")])"] ∧
          (parseDecls (S "enum E : unsigned /* c */ int { A };")).1.map encDecl = ["(enum \"E\" \"unsigned int\" [(\"A\")])"] ∧
          (parseDecls (S "enum E :unsigned\n\tint{ A };")).1.map encDecl = ["(enum \"E\" \"unsigned int\" [(\"A\")])"] := by
  decide +kernel
-- ... by the theorem: two enum heads with different inner blanks
def enumL (ws1 ws2 a t b sep : String) : List (Lexeme × List Char) :=
  [(.enum true (S ws1) (S "F") (S ws2) (some (S a, S t, S b)) (S " X = 1, Y "), S sep), (.semi, [])]
example : parseDecls (S "flag  F\n:\tunsigned \n long\t\tlong\n{ X = 1, Y }\n;") = parseDecls (S "flag F : unsigned long long { X = 1, Y };") :=
  c13_parse_layout_independent _ _ [] [] (enumL "  " "\n" "\t" "unsigned \n long\t\tlong" "\n" "\n") (enumL " " " " " " "unsigned long long" " " "")
    (by decide +kernel) (by decide +kernel) rfl rfl (by decide +kernel) (by decide +kernel) (by decide +kernel)
-- pointer depth: `**p`, `* * p` and `*\n*p` are the same declarator
example : parseDeclarator (S "* *p[2][3]") = .ok ⟨2, S "p", [S "2", S "3"], none⟩ ∧
          parseDeclarator (S "**p[2][3]") = parseDeclarator (S "*\n*  p[2][3]") := by
  decide +kernel
-- blanks inside brackets: `a[ ]` is `a[]`, `a[\t2 ][ 3 ]` is `a[2][3]`; a blank-only dimension in front of another one is refused
example : parseDeclarator (S "a[ ]") = .ok ⟨0, S "a", [[]], none⟩ ∧ parseDeclarator (S "a[\t2 ][ 3 ]") = parseDeclarator (S "a[2][3]") ∧
          parseDeclarator (S "a[ ][2]") = .error .depthRequired := by
  decide +kernel
-- (6) known finding F20: a newline inside an enum member changes the member list
example : (parseDecls (S "enum E { A = 1, B, C = 7 };")).1.map encDecl = ["(enum \"E\" \"uint32\" [(\"A\" \"1\")(\"B\")(\"C\" \"7\")])"] ∧
          (parseDecls (S "enum E { A = 1, B, C\n = 7 };")).1.map encDecl = ["(enum \"E\" \"uint32\" [(\"A\" \"1\")(\"B\")(\"C\")])"] := by
  decide +kernel
-- ---- order of definitions: four independent definitions, in two orders
def mkDef (text : String) (lex : List (Lexeme × List Char)) : TopDef := ⟨S text, lex, (parseDecls (S text)).1⟩
def dA := mkDef "typedef unsigned int U;\n" [(.typedef, S " "), (id' "unsigned", S " "), (id' "int", S " "), (nm "U", []), (.semi, S "\n")]
def dB := mkDef "struct S { uint8 x; } s1, s2;\n" [(.struct false, S " "), (id' "S", S " "), (.lbrace, S " "), (id' "uint8", S " "), (nm "x", []),
  (.semi, S " "), (.rbrace, []), (.defs (S " ") (S "s1") [([], S " ", S "s2")], []), (.semi, S "\n")]
def dC := mkDef "#define N 4\n" [(.define (S " ") (S "N") (S " ") (S "4"), S "\n")]
def dD := mkDef "enum E { X, Y = 3 };\n" [(.enum false (S " ") (S "E") (S " ") none (S " X, Y = 3 "), []), (.semi, S "\n")]
def family : List TopDef := [dA, dB, dC, dD]

theorem family_ok : ∀ d ∈ family, d.ok := by
  have plain : ∀ d ∈ family, render d.lex = d.text ∧ (∀ c ∈ d.text, c ≠ '"' ∧ c ≠ '\'' ∧ c ≠ '/') ∧ adm false d.lex = true ∧
      endsTop d.lex = true ∧ parseDecls d.text = (d.decls, none) := by decide +kernel
  intro d hd
  obtain ⟨h1, h2, h3, h4, h5⟩ := plain d hd
  exact ⟨fun p n => h1 ▸ closed_plain p n d.text h2, h3, h4, h5⟩

theorem family_before : ∀ d ∈ family, ∀ d' ∈ family, d.before d' := by decide +kernel

-- the text in the order D, C, B, A has the declarations of D, C, B, A, in this order: a permutation of those of A, B, C, D
example : parseDecls (S "enum E { X, Y = 3 };\n#define N 4\nstruct S { uint8 x; } s1, s2;\ntypedef unsigned int U;\n")
    = (dD.decls ++ dC.decls ++ dB.decls ++ dA.decls, none) ∧
    (parseDecls (S "enum E { X, Y = 3 };\n#define N 4\nstruct S { uint8 x; } s1, s2;\ntypedef unsigned int U;\n")).1.Perm
      (parseDecls (S "typedef unsigned int U;\nstruct S { uint8 x; } s1, s2;\n#define N 4\nenum E { X, Y = 3 };\n")).1 := by
  have := c13_decls_permute family family.reverse family_ok family_before (List.reverse_perm family)
  simpa [family, dA, dB, dC, dD, mkDef, S] using this
example : (parseDecls (S "enum E { X, Y = 3 };\n#define N 4\nstruct S { uint8 x; } s1, s2;\ntypedef unsigned int U;\n")).1.map encDecl =
    ["(enum \"E\" \"uint32\" [(\"X\")(\"Y\" \"3\")])", "(const \"N\" \"4\")",
     "(aggr (struct \"S\" {(field (name \"uint8\") (d 0 \"x\" [] -))} [\"s1\"\"s2\"]))", "(typedef (name \"unsigned int\") [(d 0 \"U\" [] -)])"] := by
  decide +kernel
-- what is NOT a boundary (the texts end a top-level declaration, but the continuation would still be taken by the last handler):
-- a `;` behind a struct definition, a declarator behind `typedef struct {...};`
example : ¬ boundary dB.lex dB.decls (some .eol) := by decide +kernel
def dT := mkDef "typedef struct { uint8 a; };\n" [(.typedef, S " "), (.struct false, S " "), (.lbrace, S " "), (id' "uint8", S " "), (nm "a", []),
  (.semi, S " "), (.rbrace, []), (.semi, S "\n")]
example : (parseDecls dT.text).2 = none ∧ endsTop dT.lex = true ∧ ¬ boundary dT.lex dT.decls (firstObs [(nm "x", []), (.semi, [])]) ∧
    (parseDecls (dT.text ++ S "x;")).1.map encDecl = ["(typedef (inline (struct - {(field (name \"uint8\") (d 0 \"a\" [] -))} [])) [(d 0 \"x\" [] -)])"] := by
  decide +kernel
-- an unfinished struct is accepted by the parser but does not end at a boundary: the next definition would become a member
def dU := mkDef "struct S { uint8 a;\n" [(.struct false, S " "), (id' "S", S " "), (.lbrace, S " "), (id' "uint8", S " "), (nm "a", []), (.semi, S "\n")]
example : (parseDecls dU.text).2 = none ∧ ¬ boundary dU.lex dU.decls (firstObs dA.lex) := by decide +kernel

-- ---- registration order
def base : List (String × Bind) := [("uint8", .type 1), ("uint16", .type 2)]
example : ∃ T T', regAll base [("A", "uint8"), ("B", "uint16"), ("C", "uint8")] = some T ∧
    regAll base [("C", "uint8"), ("A", "uint8"), ("B", "uint16")] = some T' ∧ LookupEq T T' ∧ ∀ n, resolveB T 10 n = resolveB T' 10 n :=
  c13_commute_list base _ _
    ⟨by decide, by decide, by
      intro p hp
      simp only [List.mem_cons, List.mem_nil_iff, or_false] at hp
      rcases hp with rfl | rfl | rfl
      · exact ⟨1, by decide⟩
      · exact ⟨2, by decide⟩
      · exact ⟨1, by decide⟩⟩
    (by decide)
-- dependent definitions are order-sensitive: `typedef A B;` in front of `typedef uint8 A;` is a ResolveError
example : (regAll base [("A", "uint8"), ("B", "A")]).isSome = true ∧ regAll base [("B", "A"), ("A", "uint8")] = none := by decide
end Example

end Cstruct.DefParser.C13

#print axioms Cstruct.DefParser.C13.c13_scan_lexemes
#print axioms Cstruct.DefParser.C13.c13_scan_blank_insensitive
#print axioms Cstruct.DefParser.C13.c13_blank_passed
#print axioms Cstruct.DefParser.C13.c13_token_emitted
#print axioms Cstruct.DefParser.C13.c13_decls_layout_independent
#print axioms Cstruct.DefParser.C13.c13_obs_swallowed
#print axioms Cstruct.DefParser.C13.c13_parse_layout_independent
#print axioms Cstruct.DefParser.C13.c13_comment_block_is_newlines
#print axioms Cstruct.DefParser.C13.c13_comment_line_is_nothing
#print axioms Cstruct.DefParser.C13.c13_comment_line_crlf_is_nothing
#print axioms Cstruct.DefParser.C13.c13_comment_is_blank
#print axioms Cstruct.DefParser.C13.c13_comment_separates
#print axioms Cstruct.DefParser.C13.c13_declarator_of_lexeme
#print axioms Cstruct.DefParser.C13.c13_star_spacing
#print axioms Cstruct.DefParser.C13.c13_enum_type_words
#print axioms Cstruct.DefParser.C13.c13_dimension_blanks
#print axioms Cstruct.DefParser.C13.c13_decls_append
#print axioms Cstruct.DefParser.C13.c13_decls_concat
#print axioms Cstruct.DefParser.C13.c13_decls_permute
#print axioms Cstruct.DefParser.C13.c13_commute_list
