/-
  Specification side of the round-trip theorems for structures WITH bit-fields (`Proofs/CoreBits.lean`):
  fragment SB = fragment S (`Proofs/Spec/Core.lean`) plus bit-fields over integer storage types, and the typing
  relation `Core.HasTyB` that says what a value of such a type is.
-/
import Proofs.Spec.Core

namespace Cstruct

/-- types a bit-field may be declared with in fragment SB: a fixed-width integer scalar (Packed or arbitrary-width
    `Int`, signed or unsigned) or an enum/flag over one. `char` (which the library also accepts as storage type), LEB128
    and everything else is outside the fragment. For these types `Ty.bitBase` is that integer scalar. -/
def Ty.bitOk : Ty → Bool
  | .sc s _ => Scalar.isInt s
  | .enum b _ _ => Scalar.isInt b
  | _ => false

/-- the value a bit-field of declared type `t` holds for the integer `v`: an enum instance for enum types, else a plain int -/
def Ty.bitVal (t : Ty) (v : Int) : Val :=
  match t with
  | .enum _ _ _ => .enum v
  | _ => .int v

-- Fragment SB: fragment S where a structure member may in addition be a bit-field (`bits = some (b+1)`) whose declared
-- type is `bitOk`. Nested structures and fixed arrays of structures with bit-fields are allowed as in fragment S.
-- A declared width of 0 (`bits = some 0`, which layout, reader and writer treat as "no bit-field") is left out.
mutual
def Ty.fragSB (cfg : Cfg) : Ty → Bool
  | .sc s _ => (match s with | .pint _ _ => true | .aint _ _ => true | .pflt _ => true | .char => true | .void => true | _ => false)
  | .enum b _ _ => Scalar.isInt b
  | .ptr _ => Scalar.isInt cfg.ptr
  | .arr e len => (match len with | .fixed _ => true | _ => false) && e.fragSB cfg
  | .struct _ fs => Fields.fragSB cfg fs
  | .union _ _ => false
def Fields.fragSB (cfg : Cfg) : Fields → Bool
  | .nil => true
  | .cons _ _ t bits r =>
    (match bits with
     | none => t.fragSB cfg
     | some 0 => false
     | some (_ + 1) => t.bitOk) && Fields.fragSB cfg r
end

-- every storage scalar of a bit-field has `size = alignment` (true of the built-in table types except the 3-, 6- and
-- 16-byte integers int24/int48/int128 …): the extra hypothesis of the aligned-mode theorems
mutual
def Ty.bitsNatural (cfg : Cfg) : Ty → Bool
  | .sc _ _ => true
  | .enum _ _ _ => true
  | .ptr _ => true
  | .arr e _ => e.bitsNatural cfg
  | .struct _ fs => Fields.bitsNatural cfg fs
  | .union _ fs => Fields.bitsNatural cfg fs
def Fields.bitsNatural (cfg : Cfg) : Fields → Bool
  | .nil => true
  | .cons _ _ t bits r =>
    (match bits with
     | some (_ + 1) => (match t.bitBase with | some s => s.size == some (t.alignment cfg) | none => false)
     | _ => t.bitsNatural cfg) && Fields.bitsNatural cfg r
end

namespace Core
-- `v` is a value of type `t` (fragment SB): as `HasTy`; the value of a bit-field of width `b+1` is an integer
-- `0 ≤ v < 2^(b+1)` (whatever the signedness of the storage type), an enum instance when the declared type is an enum.
mutual
inductive HasTyB (cfg : Cfg) : Val → Ty → Prop
  | int {s a v} : Scalar.isInt s = true → intFits s v = true → HasTyB cfg (.int v) (.sc s a)
  | flt {n a b} : b < 2 ^ (8 * n) → HasTyB cfg (.flt b) (.sc (.pflt n) a)
  | char {a b} : HasTyB cfg (.bytes [b]) (.sc .char a)
  | void {a} : HasTyB cfg .void (.sc .void a)
  | enum {b a f v} : intFits b v = true → HasTyB cfg (.enum v) (.enum b a f)
  | ptr {t v} : intFits cfg.ptr v = true → HasTyB cfg (.ptr v) (.ptr t)
  | chars {a n bs} : bs.length = n → HasTyB cfg (.bytes bs) (.arr (.sc .char a) (.fixed n))
  | arr {e n vs} : (∀ a, e ≠ .sc .char a) → HasTyNB cfg vs e n → HasTyB cfg (.list vs) (.arr e (.fixed n))
  | struct {al fs vs} : HasTysB cfg vs fs → HasTyB cfg (.record vs) (.struct al fs)
inductive HasTyNB (cfg : Cfg) : Vals → Ty → Nat → Prop
  | nil {e} : HasTyNB cfg .nil e 0
  | cons {v vs e n} : HasTyB cfg v e → HasTyNB cfg vs e n → HasTyNB cfg (.cons v vs) e (n + 1)
inductive HasTysB (cfg : Cfg) : Vals → Fields → Prop
  | nil : HasTysB cfg .nil .nil
  | cons {v vs name an t r} : HasTyB cfg v t → HasTysB cfg vs r → HasTysB cfg (.cons v vs) (.cons name an t none r)
  | bitsInt {v vs name an s a b r} : 0 ≤ v → v < 2 ^ (b + 1) → HasTysB cfg vs r →
      HasTysB cfg (.cons (.int v) vs) (.cons name an (.sc s a) (some (b + 1)) r)
  | bitsEnum {v vs name an s a f b r} : 0 ≤ v → v < 2 ^ (b + 1) → HasTysB cfg vs r →
      HasTysB cfg (.cons (.enum v) vs) (.cons name an (.enum s a f) (some (b + 1)) r)
end
end Core

end Cstruct
