/-
  C07 — specification-side helpers for the array theorems.
-/
import CstructModel.Write

namespace Cstruct.C07
open Cstruct

/-- number of elements of an array value: list length, byte count of a char array, UTF-16 code units of a wchar array -/
def count : Val → Nat
  | .list vs => vs.length
  | .bytes b => b.length
  | .wstr us => us.length
  | _ => 0

/-- the i-th element read one by one: element `i` of a static element type of size `k` is read at `pos + i * k` -/
def elemsAt (cfg : Cfg) (e : Ty) (ctx : Ctx) (d : Bytes) (pos k : Nat) : Nat → Except Err Vals
  | 0 => .ok .nil
  | n + 1 =>
    match read cfg e ctx d pos with
    | .error er => .error er
    | .ok (v, _) =>
      match elemsAt cfg e ctx d (pos + k) k n with
      | .error er => .error er
      | .ok vs => .ok (.cons v vs)

end Cstruct.C07
