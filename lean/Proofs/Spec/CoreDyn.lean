/-
  Specification side of the round-trip theorems for DYNAMICALLY sized types (`Proofs/CoreDyn.lean`):
  fragment D = fragment SB (`Proofs/Spec/CoreBits.lean`: static scalars, enums, pointers, fixed arrays, structures with
  bit-fields) plus
    (a) LEB128 scalars,
    (b) null-terminated arrays `x[]` of integer scalars (fixed width or LEB128), of enums over integers, of `char` and of
        `wchar`,
    (c) `wchar` scalars and fixed-length `wchar` arrays,
    (d) arrays whose length is an expression over the fields parsed before (`x[expr]`),
    (e) structures containing such members anywhere, nested structures and arrays of dynamic structures included.
  To-end-of-stream arrays `x[EOF]` and unions are outside the fragment.

  The typing relation `Core.HasTyD` is relative to a context (the `context` dict the reader passes down: the values of
  the fields of the enclosing structure parsed so far), because the number of elements of an `x[expr]` array is whatever
  the expression evaluates to in that context.
-/
import Proofs.Spec.CoreBits

namespace Cstruct

/-- element types a null-terminated array may have in fragment D: integer scalars of fixed width, LEB128, `char`,
    `wchar`, enums (over integer scalars, by `fragD` of the element). -/
def Ty.nullElem : Ty → Bool
  | .sc s _ => (match s with
      | .pint _ _ => true | .aint _ _ => true | .leb _ => true | .char => true | .wchar => true | _ => false)
  | .enum _ _ _ => true
  | _ => false

-- Fragment D.
mutual
def Ty.fragD (cfg : Cfg) : Ty → Bool
  | .sc _ _ => true                       -- every scalar class: ints, floats, char, wchar, LEB128, void
  | .enum b _ _ => Scalar.isInt b
  | .ptr _ => Scalar.isInt cfg.ptr
  | .arr e len =>
    (match len with
     | .fixed _ => true
     | .expr _ => true
     | .nullTerm => e.nullElem
     | .eof => false) && e.fragD cfg
  | .struct _ fs => Fields.fragD cfg fs
  | .union _ _ => false
def Fields.fragD (cfg : Cfg) : Fields → Bool
  | .nil => true
  | .cons _ _ t bits r =>
    (match bits with
     | none => t.fragD cfg
     | some 0 => false
     | some (_ + 1) => t.bitOk) && Fields.fragD cfg r
end

/-- the number of elements an array of length form `len` has when it is parsed in context `ctx`: the declared number,
    or `max(0, expr)` evaluated over the context (`evalLen`); null-terminated and to-end-of-stream arrays have none -/
def Len.count (cfg : Cfg) (ctx : Ctx) : Len → Option Nat
  | .fixed n => some n
  | .expr toks => (match evalLen cfg toks ctx with | .ok n => some n | .error _ => none)
  | _ => none

/-- "is not the terminator" for an element of a null-terminated array of integers / enums -/
def Val.nonzero : Val → Bool
  | .int i => i != 0
  | .enum i => i != 0
  | _ => false

namespace Core
-- `v` is a value of type `t` when parsed in context `ctx` (fragment D).
--  * scalars, enums, pointers, bit-fields: as in `HasTyB`; a LEB128 value is any integer (non-negative for `uleb128`); a
--    `wchar` is one UTF-16 code unit that is not a surrogate;
--  * `x[n]` / `x[expr]`: exactly `n` / `max(0, expr)` elements, the expression being evaluated in `ctx`; a `char` array is
--    a byte string of that length, a `wchar` array a well-formed UTF-16 string of that many code units;
--  * `x[]`: a list without a zero element / a byte string without a NUL / a well-formed UTF-16 string without a zero unit;
--  * structure: one value per field, each typed in the context formed by the earlier fields of that structure
--    (`ctx.set name v`, exactly what `readFields` builds); the fields of a nested structure start from the EMPTY context,
--    as `StructureMetaType._read` starts from an empty `result` dict whatever `context` it was given.
mutual
inductive HasTyD (cfg : Cfg) : Ctx → Val → Ty → Prop
  | int {ctx s a v} : Scalar.isInt s = true → intFits s v = true → HasTyD cfg ctx (.int v) (.sc s a)
  | flt {ctx n a b} : b < 2 ^ (8 * n) → HasTyD cfg ctx (.flt b) (.sc (.pflt n) a)
  | char {ctx a b} : HasTyD cfg ctx (.bytes [b]) (.sc .char a)
  | void {ctx a} : HasTyD cfg ctx .void (.sc .void a)
  | leb {ctx sg a v} : (sg = false → 0 ≤ v) → HasTyD cfg ctx (.int v) (.sc (.leb sg) a)
  | wchar {ctx a u} : u < 65536 → isSurrogate u = false → HasTyD cfg ctx (.wstr [u]) (.sc .wchar a)
  | enum {ctx b a f v} : intFits b v = true → HasTyD cfg ctx (.enum v) (.enum b a f)
  | ptr {ctx t v} : intFits cfg.ptr v = true → HasTyD cfg ctx (.ptr v) (.ptr t)
  | chars {ctx a len n bs} : len.count cfg ctx = some n → bs.length = n →
      HasTyD cfg ctx (.bytes bs) (.arr (.sc .char a) len)
  | wchars {ctx a len n us} : len.count cfg ctx = some n → us.length = n → (∀ u ∈ us, u < 65536) → utf16Ok us = true →
      HasTyD cfg ctx (.wstr us) (.arr (.sc .wchar a) len)
  | arr {ctx e len n vs} : (∀ a, e ≠ .sc .char a) → (∀ a, e ≠ .sc .wchar a) → len.count cfg ctx = some n →
      HasTyND cfg ctx vs e n → HasTyD cfg ctx (.list vs) (.arr e len)
  | chars0 {ctx a bs} : (∀ b ∈ bs, b ≠ 0) → HasTyD cfg ctx (.bytes bs) (.arr (.sc .char a) .nullTerm)
  | wchars0 {ctx a us} : (∀ u ∈ us, u < 65536 ∧ u ≠ 0) → utf16Ok us = true →
      HasTyD cfg ctx (.wstr us) (.arr (.sc .wchar a) .nullTerm)
  | arr0 {ctx e vs} : (∀ a, e ≠ .sc .char a) → (∀ a, e ≠ .sc .wchar a) → HasTyZD cfg ctx vs e →
      HasTyD cfg ctx (.list vs) (.arr e .nullTerm)
  | struct {ctx al fs vs} : HasTysD cfg [] vs fs → HasTyD cfg ctx (.record vs) (.struct al fs)
/-- exactly `n` elements of type `e`, all parsed in the same context -/
inductive HasTyND (cfg : Cfg) : Ctx → Vals → Ty → Nat → Prop
  | nil {ctx e} : HasTyND cfg ctx .nil e 0
  | cons {ctx v vs e n} : HasTyD cfg ctx v e → HasTyND cfg ctx vs e n → HasTyND cfg ctx (.cons v vs) e (n + 1)
/-- any number of non-zero elements of type `e` -/
inductive HasTyZD (cfg : Cfg) : Ctx → Vals → Ty → Prop
  | nil {ctx e} : HasTyZD cfg ctx .nil e
  | cons {ctx v vs e} : HasTyD cfg ctx v e → v.nonzero = true → HasTyZD cfg ctx vs e → HasTyZD cfg ctx (.cons v vs) e
/-- one value per field; the context grows by each field, later bindings shadowing earlier ones -/
inductive HasTysD (cfg : Cfg) : Ctx → Vals → Fields → Prop
  | nil {ctx} : HasTysD cfg ctx .nil .nil
  | cons {ctx v vs name an t r} : HasTyD cfg ctx v t → HasTysD cfg (ctx.set name v) vs r →
      HasTysD cfg ctx (.cons v vs) (.cons name an t none r)
  | bitsInt {ctx v vs name an s a b r} : 0 ≤ v → v < 2 ^ (b + 1) → HasTysD cfg (ctx.set name (.int v)) vs r →
      HasTysD cfg ctx (.cons (.int v) vs) (.cons name an (.sc s a) (some (b + 1)) r)
  | bitsEnum {ctx v vs name an s a f b r} : 0 ≤ v → v < 2 ^ (b + 1) → HasTysD cfg (ctx.set name (.enum v)) vs r →
      HasTysD cfg ctx (.cons (.enum v) vs) (.cons name an (.enum s a f) (some (b + 1)) r)
end
end Core

end Cstruct
