/-
  C10 — specification side: C's operator table and the stratified C expression grammar.
  Definitions only (no theorems); used by `Proofs/C10.lean` (property theorems) and
  `Proofs/Lemmas/C10.lean` (helper lemmas).
-/
import CstructModel.Expr

namespace Cstruct.Expr.C10
open Cstruct Cstruct.Expr

/-- C binary operators (C standard §6.5): spelling, meaning, precedence level (0 = binds weakest).
    Written by hand: this is the *specification*; that the tables extracted from the code agree with it is
    theorem `c10_tables`. -/
def cBinary : List (String × Gen.BinKind × Nat) :=
  [("|", .or, 0), ("^", .xor, 1), ("&", .and, 2), ("<<", .shl, 3), (">>", .shr, 3),
   ("+", .add, 4), ("-", .sub, 4), ("*", .mul, 5), ("/", .floordiv, 5), ("%", .mod, 5)]

/-- `t` can be a name (of a field, constant or type): not a literal, not an operator (which includes the
    internal unary-minus marker), not a parenthesis, and not one of the tokens after which `-` is unary. -/
def IsName (t : String) : Prop :=
  isNumber t = false ∧ isOperator t = false ∧ t ≠ "(" ∧ t ≠ ")" ∧ t ∉ Gen.unaryContextTokens

/-- the name is bound neither in the field context nor in the constants -/
def NotShadowed (env : Env) (t : String) : Prop := lookup t env.ctx = none ∧ lookup t env.consts = none

/-- Contexts and constants bind names only (true of every context the library builds: keys are field names
    and `#define` names, which the definition parser only accepts as identifiers). -/
def EnvOk (env : Env) : Prop :=
  (∀ t v, lookup t env.ctx = some v → IsName t) ∧ (∀ t v, lookup t env.consts = some v → IsName t)

/-- `t` is an operand token denoting `v`: a literal (`int(t, 0)`), else a name bound in the field
    context, else a name bound in the constants — in that order. -/
inductive Atom (env : Env) : String → Int → Prop
  | lit {t v} : isNumber t = true → parseInt t = some v → Atom env t v
  | ctx {t v} : IsName t → lookup t env.ctx = some v → Atom env t v
  | const {t v} : IsName t → lookup t env.ctx = none → lookup t env.consts = some v → Atom env t v

/-- The stratified C expression grammar together with its value, over the token list as the tokenizer
    produces it (`raw`: a unary minus is the token "-") and, in parallel, the same list with the unary minus
    tokens replaced by the marker (`marked`). Levels 0–5: left-associative binary operators in C precedence
    order; level 6: prefix unary; level 7: primary. The value is the one C prescribes over unbounded integers
    (`binop`/`unop` on `Int`; `/` and `%` floor, which coincides with C for non-negative operands, see
    `c10_div_mod_nonneg`). -/
inductive D (env : Env) : Nat → List String → List String → Int → Prop
  | atom {t v} : Atom env t v → D env 7 [t] [t] v
  | sizeof {name v} : IsName name → NotShadowed env "sizeof" → env.sizeof name = .ok v →
      D env 7 ["sizeof", "(", name, ")"] ["sizeof", "(", name, ")"] v
  | paren {raw marked v} : D env 0 raw marked v → D env 7 ("(" :: raw ++ [")"]) ("(" :: marked ++ [")"]) v
  | neg {raw marked v} : D env 6 raw marked v → D env 6 ("-" :: raw) (Gen.minusMarker :: marked) (-v)
  | inv {raw marked v} : D env 6 raw marked v → D env 6 ("~" :: raw) ("~" :: marked) (lnot v)
  | up {k raw marked v} : k ≤ 6 → D env (k+1) raw marked v → D env k raw marked v
  | bin {k t o r1 m1 r2 m2 a b v} : (t, o, k) ∈ cBinary → D env k r1 m1 a → D env (k+1) r2 m2 b →
      binop o a b = .ok v → D env k (r1 ++ t :: r2) (m1 ++ t :: m2) v

/-- value of a digit list in a base, most significant digit first -/
def ofDigits (base : Nat) (ds : List Nat) : Nat := ds.foldl (fun a d => a * base + d) 0

/-- the character for a digit value < 16 (lower case) -/
def digitChar (d : Nat) : Char := if d < 10 then Char.ofNat (48 + d) else Char.ofNat (87 + d)

end Cstruct.Expr.C10
