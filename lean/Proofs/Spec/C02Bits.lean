/-
  C02 with bit-fields — specification side: the *bit-level* data mask of a fixed-size type of fragment SB
  (`Proofs/Spec/CoreBits.lean`). A mask byte is 0xFF for every byte that belongs to a member that is not a bit-field,
  0x00 for padding, and for the bytes of a bit-field storage unit it has exactly the bits set that belong to some
  field of the unit (the unit's mask, a number, laid out in the unit's byte order).

  Written from the layout rule (`structLayout`'s offsets say where a member sits and where a bit-field opens a new
  unit: a bit-field with a recorded offset opens one, a bit-field without one continues the unit of its predecessor) and
  from the slot positions of `Proofs/Spec/C06.lean` (`slotLo`), independently of the reader and the writer.
-/
import Proofs.Spec.CoreBits
import Proofs.Spec.C06

namespace Cstruct.C02B
open Cstruct Cstruct.C06

/-- the number with exactly the bits `[lo, lo + w)` set -/
def slotMask (lo w : Nat) : Nat := (2 ^ w - 1) * 2 ^ lo

/-- the `n` low-order bytes of the number `m` in the byte order `e` (how a storage unit is laid out in memory) -/
def unitBytes (e : Endian) (n m : Nat) : Bytes :=
  match e with
  | .little => toLE n m
  | .big => (toLE n m).reverse

/-- a bit-field storage unit whose mask bytes have not been emitted yet: size in bytes, bits handed out so far, and the
    mask (as a number of `8 * size` bits) of the fields allocated in it so far -/
structure PendMask where
  size : Nat
  used : Nat
  mask : Nat

/-- the mask bytes of the pending unit, if there is one -/
def flushMask (e : Endian) : Option PendMask → Bytes
  | none => []
  | some u => unitBytes e u.size u.mask

/-- the pending unit after one more field of `w` bits -/
def PendMask.add (e : Endian) (u : PendMask) (w : Nat) : PendMask :=
  { u with used := u.used + w, mask := u.mask ||| slotMask (slotLo e (8 * u.size) u.used w) w }

/-- a fresh unit of `size` bytes holding one field of `w` bits -/
def PendMask.first (e : Endian) (size w : Nat) : PendMask :=
  { size := size, used := w, mask := slotMask (slotLo e (8 * size) 0 w) w }

mutual
/-- bit-level data mask of a fixed-size type: bit set = the bit belongs to a field -/
def maskB (cfg : Cfg) : Ty → Bytes
  | .sc s _ => List.replicate (s.size.getD 0) 0xFF
  | .enum b _ _ => List.replicate (b.size.getD 0) 0xFF
  | .ptr _ => List.replicate (cfg.ptr.size.getD 0) 0xFF
  | .arr e (.fixed n) => (List.replicate n (maskB cfg e)).flatten
  | .arr _ _ => []
  | .struct al fs =>
    match structLayout cfg al fs with
    | .ok (some sz, _, offs) =>
      let body := fieldsMaskB cfg fs offs 0 none
      body ++ zeros (sz - body.length)          -- tail padding of an aligned structure
    | _ => []
  | .union _ _ => []
/-- masks of the members; `cur` is the offset reached so far (behind a pending unit, whose bytes are still to come),
    each member is preceded by the padding that brings `cur` to its offset -/
def fieldsMaskB (cfg : Cfg) : Fields → List (Option Nat) → Nat → Option PendMask → Bytes
  | .nil, _, _, u => flushMask cfg.endian u
  | .cons _ _ t bits r, offs, cur, u =>
    match bits, t.bitBase.bind Scalar.size with
    | some (b + 1), some fsz =>
      match offs.headD none, u with
      | none, some p =>
        -- no offset recorded: the field continues the unit of its predecessor
        fieldsMaskB cfg r (offs.drop 1) cur (some (p.add cfg.endian (b + 1)))
      | fo, _ =>
        -- the field opens a new unit at its offset
        let o := fo.getD cur
        flushMask cfg.endian u ++ zeros (o - cur) ++
          fieldsMaskB cfg r (offs.drop 1) (o + fsz) (some (PendMask.first cfg.endian fsz (b + 1)))
    | _, _ =>
      let o := (offs.headD none).getD cur
      let m := maskB cfg t
      flushMask cfg.endian u ++ zeros (o - cur) ++ m ++ fieldsMaskB cfg r (offs.drop 1) (o + m.length) none
end

/-- keep the bits of `w` selected by the mask `m`, clear the others -/
def andBytes (w m : Bytes) : Bytes := List.zipWith (· &&& ·) w m

end Cstruct.C02B
