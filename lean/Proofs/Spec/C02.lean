/-
  C02 — specification side: which bytes of the encoding of a fixed-size type carry data (fragment S: no bit-fields, so
  the mask is per byte).  Written from the layout rule, independently of the writer.
-/
import Proofs.Spec.Core

namespace Cstruct.C02
open Cstruct

mutual
/-- data mask of a fixed-size type: `true` = the byte belongs to a field, `false` = alignment padding -/
def tyMask (cfg : Cfg) : Ty → List Bool
  | .sc s _ => List.replicate (s.size.getD 0) true
  | .enum b _ _ => List.replicate (b.size.getD 0) true
  | .ptr _ => List.replicate (cfg.ptr.size.getD 0) true
  | .arr e (.fixed n) => (List.replicate n (tyMask cfg e)).flatten
  | .arr _ _ => []
  | .struct al fs =>
    match structLayout cfg al fs with
    | .ok (some sz, _, offs) =>
      let body := fieldsMask cfg fs offs 0
      body ++ List.replicate (sz - body.length) false
    | _ => []
  | .union _ _ => []
/-- masks of the fields, each preceded by the padding that brings the running position `cur` to the field's offset -/
def fieldsMask (cfg : Cfg) : Fields → List (Option Nat) → Nat → List Bool
  | .nil, _, _ => []
  | .cons _ _ t _ r, offs, cur =>
    let o := (offs.headD none).getD cur
    let m := tyMask cfg t
    List.replicate (o - cur) false ++ m ++ fieldsMask cfg r (offs.drop 1) (o + m.length)
end

/-- apply a mask to bytes: data bytes are kept, padding bytes become zero -/
def applyMask : List Bool → Bytes → Bytes
  | m :: ms, b :: bs => (if m then b else 0) :: applyMask ms bs
  | _, _ => []

end Cstruct.C02
