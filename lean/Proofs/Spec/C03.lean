/-
  C03 — specification-side definitions: a concrete sample (a real plan, as parsed from the source the real compiler
  generated for the sample structure) for the non-vacuity examples.
-/
import CstructModel.Compiler

namespace Cstruct.Compiler
open Cstruct

def samplecfg : Cfg := { endian := .little, ptr := .pint 8 false, ptrAlign := 8, consts := [] }

/-- aligned `struct T { uint8 a:3; uint8 b:4; uint32 c; struct { uint8 x; uint32 y; } s; uint16 d[2]; void v; int24 e; }` -/
def sampleFields : Fields :=
  .cons "a" false (.sc (.pint 1 false) 1) (some 3)
  (.cons "b" false (.sc (.pint 1 false) 1) (some 4)
  (.cons "c" false (.sc (.pint 4 false) 4) none
  (.cons "s" false (.struct true
      (.cons "x" false (.sc (.pint 1 false) 1) none (.cons "y" false (.sc (.pint 4 false) 4) none .nil))) none
  (.cons "d" false (.arr (.sc (.pint 2 false) 2) (.fixed 2)) none
  (.cons "v" false (.sc .void 0) none
  (.cons "e" false (.sc (.aint 3 true) 4) none .nil))))))

/-- the plan `harness/srcplan.py` extracts from the source the real compiler generates for `sampleFields` -/
def samplePlan : Plan :=
  [.bits "a" 3 .self, .align 1, .bits "b" 4 .self, .bitsReset, .seek 4,
   .block 4 (some "I") [⟨"c", .data1 0, .init, 4⟩], .seek 8, .sub "s", .seek 16,
   .block 7 (some "2H3x") [⟨"d", .dataN 0 2, .initArray, 4⟩, ⟨"e", .buf 4 7, .parse, 3⟩], .alignCls]

def sampleData : Bytes := [0x2d, 0, 0, 0, 1, 2, 3, 4, 9, 0, 0, 0, 5, 6, 7, 8, 0x10, 0, 0x20, 0, 0xff, 0xff, 0xff, 0]

end Cstruct.Compiler
