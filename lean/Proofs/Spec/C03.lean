/-
  C03 — specification-side definitions: the start-position hypothesis and a concrete sample (a real plan, as parsed
  from the source the real compiler generated for the sample structure) for the non-vacuity examples.
-/
import CstructModel.Compiler

namespace Cstruct.Compiler
open Cstruct

/-- an aligned structure starts at a multiple of its alignment (nothing is required of packed structures) -/
def AlignedStart (cfg : Cfg) (al : Bool) (fs : Fields) (pos : Nat) : Prop :=
  al = true → ∀ sz sa offs, structLayout cfg al fs = .ok (sz, sa, offs) → sa ∣ pos

/-- the members of a field list (walked along the layout offsets) that have no bit width, a layout offset and a
    static size consume exactly that size when their own `_read` is run where the layout puts them -/
def SubSizesAux (cfg : Cfg) (data : Bytes) (start : Nat) : Fields → List (Option Nat) → Prop
  | .nil, _ => True
  | .cons _ _ ty bits rest, offs =>
    (bits = none → ∀ o n, hdOff offs = some o → ty.size cfg = some n →
      ∀ ctx v p, read cfg ty ctx data (start + o) = .ok (v, p) → p = start + o + n) ∧
    SubSizesAux cfg data start rest (offs.drop 1)

/-- static members read through their own `_read` consume exactly their declared size where the layout puts them.
    This is what the compiler assumes when it emits no seek after a nested structure (it is not a theorem about `read`:
    an aligned structure nested in a packed one at a misaligned offset pads on the absolute position). -/
def SubSizes (cfg : Cfg) (al : Bool) (fs : Fields) (data : Bytes) (start : Nat) : Prop :=
  ∀ sz sa offs, structLayout cfg al fs = .ok (sz, sa, offs) → SubSizesAux cfg data start fs offs

def samplecfg : Cfg := { endian := .little, ptr := .pint 8 false, ptrAlign := 8, consts := [] }

/-- aligned `struct T { uint8 a:3; uint8 b:4; uint32 c; struct { uint8 x; uint32 y; } s; uint16 d[2]; void v; int24 e; }` -/
def sampleFields : Fields :=
  .cons "a" false (.sc (.pint 1 false) 1) (some 3)
  (.cons "b" false (.sc (.pint 1 false) 1) (some 4)
  (.cons "c" false (.sc (.pint 4 false) 4) none
  (.cons "s" false (.struct true
      (.cons "x" false (.sc (.pint 1 false) 1) none (.cons "y" false (.sc (.pint 4 false) 4) none .nil))) none
  (.cons "d" false (.arr (.sc (.pint 2 false) 2) (.fixed 2)) none
  (.cons "v" false (.sc .void 0) none
  (.cons "e" false (.sc (.aint 3 true) 4) none .nil))))))

/-- the plan `harness/srcplan.py` extracts from the source the real compiler generates for `sampleFields` -/
def samplePlan : Plan :=
  [.bits "a" 3 .self, .align 1, .bits "b" 4 .self, .bitsReset, .seek 4,
   .block 4 (some "I") [⟨"c", .data1 0, .init, 4⟩], .seek 8, .sub "s",
   .block 7 (some "2H3x") [⟨"d", .dataN 0 2, .initArray, 4⟩, ⟨"e", .buf 4 7, .parse, 3⟩], .alignCls]

def sampleData : Bytes := [0x2d, 0, 0, 0, 1, 2, 3, 4, 9, 0, 0, 0, 5, 6, 7, 8, 0x10, 0, 0x20, 0, 0xff, 0xff, 0xff, 0]

end Cstruct.Compiler
