/-
  C06, the class `BitBuffer` as an object — specification side: runs of method calls, and the unit discipline a sequence
  of bit-field requests has to respect.
-/
import CstructModel.BitBuffer
import Proofs.Spec.C06

namespace Cstruct.C06
open Cstruct Cstruct.BBuf

/-- the object holds no unit: a fresh object, after `reset()`, after `flush()` -/
def Idle (bb : BB) : Prop := bb.ty = none ∧ bb.buffer = 0 ∧ bb.remaining = 0

/-- a run of `read(t, w)` calls over one storage type; stops at the first call that raises -/
def readRun : BB → BTy → List Nat → Except (Err × BB) (BB × List Int)
  | bb, _, [] => .ok (bb, [])
  | bb, t, w :: ws =>
    match bb.read t w with
    | .error e => .error e
    | .ok (bb1, v) =>
      match readRun bb1 t ws with
      | .error e => .error e
      | .ok (bb2, vs) => .ok (bb2, v :: vs)

/-- a sequence of `read(t, w)` calls over changing storage types -/
def readAll : BB → List (BTy × Nat) → Except (Err × BB) (BB × List Int)
  | bb, [] => .ok (bb, [])
  | bb, (t, w) :: r =>
    match bb.read t w with
    | .error e => .error e
    | .ok (bb1, v) =>
      match readAll bb1 r with
      | .error e => .error e
      | .ok (bb2, vs) => .ok (bb2, v :: vs)

/-- a sequence of `write(t, v, w)` calls, given as (type, width, value) -/
def writeAll : BB → List (BTy × Nat × Int) → Except (Err × BB) BB
  | bb, [] => .ok bb
  | bb, (t, w, v) :: r =>
    match bb.write t v w with
    | .error e => .error e
    | .ok (bb1, _) => writeAll bb1 r

/-- the (type, width) requests of a write sequence -/
def requests (ws : List (BTy × Nat × Int)) : List (BTy × Nat) := ws.map fun p => (p.1, p.2.1)

/-- the values of a write sequence -/
def values (ws : List (BTy × Nat × Int)) : List Int := ws.map fun p => p.2.2

/-- **The unit discipline** (the side condition on straddling): followed from a state with storage type `ty` and `rem`
    free bits, no request asks for more bits than its unit has left.  A request of another storage type, or one made
    when the unit is exhausted, opens a new unit of `8 * size` bits (the rest of the old one is given up); every width is
    at least 1 and every storage type has a fixed size.  This is what `_calculate_size_and_offsets` enforces for the
    bit-fields of a structure (`c06_layout_straddle`). -/
def Fits : Option BTy → Nat → List (BTy × Nat) → Prop
  | _, _, [] => True
  | ty, rem, (t, w) :: r =>
    ∃ n, t.size = some n ∧ 0 < w ∧
      w ≤ (if rem = 0 ∨ ty ≠ some t then 8 * n else rem) ∧
      Fits (some t) ((if rem = 0 ∨ ty ≠ some t then 8 * n else rem) - w) r

/-- value by value, `0 ≤ v < 2^w` -/
def InRange : List Int → List Nat → Prop
  | [], [] => True
  | v :: vs, w :: ws => (0 ≤ v ∧ v < 2 ^ w) ∧ InRange vs ws
  | _, _ => False

/-- the byte order code that spells the host's order -/
def hostCode : Endian → EndianCode
  | .little => .lt
  | .big => .gt

end Cstruct.C06
