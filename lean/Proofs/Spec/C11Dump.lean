/-
  C11 (dump of a union) — specification side: WHICH member of a fixed-size union `UnionMetaType._write` dumps.

  The rule (types/structure.py, `UnionMetaType._write`): the members are sorted by size, largest first, the sort being
  stable (`sorted(..., key=size or 0, reverse=True)`); walking that order, members that are anonymous structures (or
  anonymous unions) are skipped — the last one skipped is remembered — and the first other member is written; if that wrote
  nothing, or there is no other member, the remembered anonymous structure is written; the output is zero-padded to the
  union's size.

  `writtenMember` states the outcome of that rule WITHOUT sorting: the member written is the first one among the largest
  members that are not anonymous structures ("regular" members); when every member is an anonymous structure it is the
  last one among the smallest (the one the walk remembers last). Independent of `writeUnion` (`CstructModel/Write.lean`),
  which models the loop over the sorted order with `insertDesc`.
-/
import CstructModel.Union

namespace Cstruct.C11
open Cstruct

/-- per member: (`type.size or 0`, "is an anonymous structure or union") -/
def memberKeys (cfg : Cfg) : Fields → List (Nat × Bool)
  | .nil => []
  | .cons _ an t _ r => ((t.size cfg).getD 0, isStructLike t && an) :: memberKeys cfg r

/-- scan of the members `ks` (the first of which has index `i`): the (size, index) of the FIRST member of LARGEST size
    among those that are not anonymous structures; `best` is the candidate so far (replaced only by a strictly larger one) -/
def firstLargestRegular : List (Nat × Bool) → Nat → Option (Nat × Nat) → Option (Nat × Nat)
  | [], _, best => best
  | (s, anon) :: r, i, best =>
    if anon then firstLargestRegular r (i + 1) best
    else match best with
      | none => firstLargestRegular r (i + 1) (some (s, i))
      | some (sb, ib) => if s > sb then firstLargestRegular r (i + 1) (some (s, i))
                         else firstLargestRegular r (i + 1) (some (sb, ib))

/-- scan of the members: the (size, index) of the LAST member of SMALLEST size (replaced by every later member that is
    not strictly larger) -/
def lastSmallest : List (Nat × Bool) → Nat → Option (Nat × Nat) → Option (Nat × Nat)
  | [], _, best => best
  | (s, _) :: r, i, best =>
    match best with
    | none => lastSmallest r (i + 1) (some (s, i))
    | some (sb, ib) => if s > sb then lastSmallest r (i + 1) (some (sb, ib))
                       else lastSmallest r (i + 1) (some (s, i))

/-- **The member a fixed-size union is dumped through** (its index in declaration order):
    * the first of the largest members that are not anonymous structures, if there is one and its size is not 0;
    * if every member is an anonymous structure: the last of the smallest ones (the walk over the descending order
      remembers each anonymous structure it skips; the last one remembered is written);
    * `none` when the first of the largest regular members has size 0 (whether "it wrote nothing", hence whether the
      remembered anonymous structure is written instead, then depends on the value) and for a union without members. -/
def writtenMember (cfg : Cfg) (fs : Fields) : Option Nat :=
  match firstLargestRegular (memberKeys cfg fs) 0 none with
  | some (s, i) => if s = 0 then none else some i
  | none => (lastSmallest (memberKeys cfg fs) 0 none).map (·.2)

/-- **No assignment of the history overflows the union**: the encoding of every assigned member fits the buffer it is
    written into (an assignment whose encoding is longer than the buffer makes the buffer grow: `BytesIO.write`). -/
def histFits (cfg : Cfg) (fs : Fields) : Union.UState → List (Nat × Val) → Prop
  | _, [] => True
  | s, (k, v) :: r =>
    (∀ enc, writeMemberRaw cfg fs (Union.setNth s.vals k v) k 0 = .ok enc → enc.length ≤ s.buf.length) ∧
    (∀ s1, Union.assign cfg fs s k v = .ok s1 → histFits cfg fs s1 r)

end Cstruct.C11
