/-
  C10, text level — specification side: which token spellings are well formed, what the tokenizer turns each
  of them into, and how a token list is laid out as an expression text with arbitrary blanks.
  Definitions only (no theorems); used by `Proofs/C10Text.lean` (property theorems) and
  `Proofs/Lemmas/C10Text*.lean` (helper lemmas).
-/
import Proofs.Spec.C10

namespace Cstruct.Expr.C10
open Cstruct Cstruct.Expr

/-! ### Well-formed token spellings -/

def IsU (c : Char) : Prop := c = 'u' ∨ c = 'U'
def IsL (c : Char) : Prop := c = 'l' ∨ c = 'L'

/-- The integer suffixes the tokenizer accepts (and drops): none, `u`, `ul`, `ull`, `l`, `ll`, `lu`, `llu`,
    every letter in either case (so also the mixed-case `lL`, which C itself does not allow). -/
inductive IsSuffix : List Char → Prop
  | none : IsSuffix []
  | u {a} : IsU a → IsSuffix [a]
  | ul {a b} : IsU a → IsL b → IsSuffix [a, b]
  | ull {a b c} : IsU a → IsL b → IsL c → IsSuffix [a, b, c]
  | l {a} : IsL a → IsSuffix [a]
  | ll {a b} : IsL a → IsL b → IsSuffix [a, b]
  | lu {a b} : IsL a → IsU b → IsSuffix [a, b]
  | llu {a b c} : IsL a → IsL b → IsU c → IsSuffix [a, b, c]

def isOctDigit (c : Char) : Bool := decide ('0' ≤ c) && decide (c ≤ '7')
def isBinDigit (c : Char) : Bool := c = '0' || c = '1'

/-- C integer literal bodies (C standard §6.4.4.1, plus the `0b` extension): `0`; decimal without a leading
    zero; `0x`/`0X` and hexadecimal digits; `0b`/`0B` and binary digits; `0` and octal digits. -/
inductive WFLit : List Char → Prop
  | zero : WFLit ['0']
  | dec {c ds} : c.isDigit = true → c ≠ '0' → (∀ d ∈ ds, d.isDigit = true) → WFLit (c :: ds)
  | hex {p ds} : p = 'x' ∨ p = 'X' → ds ≠ [] → (∀ d ∈ ds, isHexDigit d = true) → WFLit ('0' :: p :: ds)
  | bin {p ds} : p = 'b' ∨ p = 'B' → ds ≠ [] → (∀ d ∈ ds, isBinDigit d = true) → WFLit ('0' :: p :: ds)
  | oct {ds} : ds ≠ [] → (∀ d ∈ ds, isOctDigit d = true) → WFLit ('0' :: ds)

/-- Well-formed tokens of an integer expression text:
    * one of the tokenizer's single-character operators / parentheses, or `<<`, `>>`;
    * an identifier: a letter or `_`, then letters, digits, `_` (this includes `sizeof`, which only the
      evaluator treats specially);
    * an integer literal with an optional suffix.
    The evaluator's internal unary-minus marker `-u` is *not* a token spelling: the text `-u` is the two tokens
    `-` and `u` (see `c10_marker_not_token`). -/
inductive WFTok : String → Prop
  | op {c} : isOperatorChar c = true → WFTok (String.singleton c)
  | shl : WFTok "<<"
  | shr : WFTok ">>"
  | ident {c cs} : isIdStart c = true → (∀ d ∈ cs, isIdChar d = true) → WFTok (String.ofList (c :: cs))
  | lit {body sfx} : WFLit body → IsSuffix sfx → WFTok (String.ofList (body ++ sfx))

/-! ### What the tokenizer makes of a token -/

def isSuffixChar (c : Char) : Bool := c = 'u' || c = 'U' || c = 'l' || c = 'L'

/-- a C octal literal (leading `0`, at least two characters, no `x`/`b` prefix) becomes Python's `0o…` -/
def octRewrite (tok : List Char) : List Char :=
  match tok with
  | '0' :: d :: rest => if isHexBinSuffix d then tok else '0' :: 'o' :: d :: rest
  | _ => tok

/-- The token the tokenizer emits for a well-formed spelling: a literal loses its suffix and, if octal, is
    respelled `0o…`; everything else is kept as is. -/
def normTok (t : String) : String :=
  match t.toList with
  | c :: r => if c.isDigit then String.ofList (octRewrite (c :: r.takeWhile (fun d => !isSuffixChar d))) else t
  | [] => t

/-! ### Laying tokens out as text -/

/-- a (possibly empty) string of spaces and tabs -/
def IsBlank (s : String) : Prop := ∀ c ∈ s.toList, c = ' ' ∨ c = '\t'

/-- `seps[0] t₀ seps[1] t₁ … tₙ₋₁ seps[n]`; missing separators are empty, surplus ones ignored -/
def render : List String → List String → String
  | seps, [] => seps.headD ""
  | seps, t :: ts => seps.headD "" ++ t ++ render seps.tail ts

/-- identifiers and literals: tokens that start with a letter, a digit or `_` -/
def isWordTok (t : String) : Bool :=
  match t.toList with
  | c :: _ => isIdChar c
  | [] => false

/-- Admissible separation: every separator (also before the first and after the last token) is blank, and
    a separator may be empty unless it stands between two word tokens — the only adjacent tokens that
    would fuse (`a` `1` → `a1`, `1` `u` → `1`, `0` `x1` → `0x1`); operators, parentheses, `<<`, `>>` never fuse with
    anything (`>>` `>>` written `>>>>` is two tokens). -/
def SepOk : List String → List String → Prop
  | seps, [] => IsBlank (seps.headD "")
  | seps, t :: ts => IsBlank (seps.headD "") ∧
      (∀ t', ts.head? = some t' → isWordTok t = true → isWordTok t' = true → seps.tail.headD "" ≠ "") ∧
      SepOk seps.tail ts

/-! ### Literal values (C standard §6.4.4.1) -/

/-- value of a digit string in a base, most significant digit first -/
def charsValue (base : Nat) (cs : List Char) : Nat := ofDigits base (cs.map digitVal)

/-- value of a literal body: hexadecimal after `0x`/`0X`, binary after `0b`/`0B`, octal after any other leading `0`
    followed by something, decimal otherwise -/
def litValue (body : List Char) : Nat :=
  match body with
  | c :: p :: ds =>
    if c = '0' ∧ (p = 'x' ∨ p = 'X') then charsValue 16 ds
    else if c = '0' ∧ (p = 'b' ∨ p = 'B') then charsValue 2 ds
    else if c = '0' then charsValue 8 (p :: ds)
    else charsValue 10 body
  | _ => charsValue 10 body

/-! ### Decidable checkers (for concrete examples; sound by `wfTokB_sound`, `sepOkB_sound`) -/

def isSuffixB : List Char → Bool
  | [] => true
  | [a] => isSuffixChar a
  | [a, b] => ((a = 'u' || a = 'U') && (b = 'l' || b = 'L')) || ((a = 'l' || a = 'L') && isSuffixChar b)
  | [a, b, c] => ((a = 'u' || a = 'U') && (b = 'l' || b = 'L') && (c = 'l' || c = 'L')) ||
      ((a = 'l' || a = 'L') && (b = 'l' || b = 'L') && (c = 'u' || c = 'U'))
  | _ => false

def wfLitB : List Char → Bool
  | [] => false
  | c :: ds =>
    if c = '0' then
      match ds with
      | [] => true
      | p :: ds' =>
        if p = 'x' ∨ p = 'X' then !ds'.isEmpty && ds'.all isHexDigit
        else if p = 'b' ∨ p = 'B' then !ds'.isEmpty && ds'.all isBinDigit
        else (p :: ds').all isOctDigit
    else c.isDigit && ds.all Char.isDigit

def wfTokB (t : String) : Bool :=
  match t.toList with
  | [] => false
  | c :: cs =>
    if isOperatorChar c then cs.isEmpty
    else if c.isDigit then
      let body := c :: cs.takeWhile (fun d => !isSuffixChar d)
      wfLitB body && isSuffixB (cs.dropWhile (fun d => !isSuffixChar d))
    else if isIdStart c then cs.all isIdChar
    else t = "<<" || t = ">>"

def isBlankB (s : String) : Bool := s.toList.all (fun c => c = ' ' || c = '\t')

def sepOkB : List String → List String → Bool
  | seps, [] => isBlankB (seps.headD "")
  | seps, t :: ts => isBlankB (seps.headD "") &&
      (match ts with
       | t' :: _ => !(isWordTok t && isWordTok t') || seps.tail.headD "" != ""
       | [] => true) &&
      sepOkB seps.tail ts

end Cstruct.Expr.C10
