/-
  C07 — null-terminated arrays `e[]` over every element kind: specification side.

  The specification is written without reference to the model's loop functions (`readScalar0`, `readUntilFalsy`,
  `readScalarNullTerm`, `read0`): it only uses the model's reader of ONE element (`read`, `readExact`) and says how the
  successive element reads are chained (`Reads`), which element value ends the array (`isTerminator`) and how the
  collected elements are packaged into the array value (`packElems`).
-/
import Proofs.Spec.Core

namespace Cstruct.C07
open Cstruct

/-- **Successive element reads.** `Reads rd p vs q`: reading one element with `rd` at `p` yields `vs[0]`, reading again
    where that read ended yields `vs[1]`, and so on; the last of them ends at `q` (`q = p` for no element at all). -/
inductive Reads (rd : Nat → Except Err (Val × Nat)) : Nat → List Val → Nat → Prop
  | nil {p} : Reads rd p [] p
  | cons {p v p' vs q} : rd p = .ok (v, p') → Reads rd p' vs q → Reads rd p (v :: vs) q

/-- **The array stops at the first terminator.** The elements read successively from `p` are `vs`, none of them is a
    terminator, and the next element read (where the last of them ended) is a terminator `t`, whose read ends at `q`. -/
def StopsAt (rd : Nat → Except Err (Val × Nat)) (term : Val → Bool) (p : Nat) (vs : List Val) (q : Nat) : Prop :=
  ∃ p' t, Reads rd p vs p' ∧ (∀ v ∈ vs, term v = false) ∧ rd p' = .ok (t, q) ∧ term t = true

/-- **An element read fails before a terminator is found**: the elements `vs` are read successively from `p`, none of
    them is a terminator, and the next element read raises `er`. -/
def FailsAt (rd : Nat → Except Err (Val × Nat)) (term : Val → Bool) (p : Nat) (vs : List Val) (er : Err) : Prop :=
  ∃ p', Reads rd p vs p' ∧ (∀ v ∈ vs, term v = false) ∧ rd p' = .error er

/-- **No terminator among the first `n` elements**: `n` elements are read successively from `p`, none is a terminator. -/
def RunsOn (rd : Nat → Except Err (Val × Nat)) (term : Val → Bool) (p n : Nat) : Prop :=
  ∃ vs p', Reads rd p vs p' ∧ (∀ v ∈ vs, term v = false) ∧ vs.length = n

/-- How the loop of `e[]` reads ONE element at position `p` (the body of the per-class `_read_0`): the element type's own
    reader, except that `wchar[]` collects the undecoded two-byte code units and decodes the whole string at the end. -/
def elemRead (cfg : Cfg) (e : Ty) (ctx : Ctx) (d : Bytes) (p : Nat) : Except Err (Val × Nat) :=
  match e with
  | .sc .wchar _ =>
    match readExact d p 2 with
    | .ok (bs, q) => .ok (.bytes bs, q)
    | .error er => .error er
  | _ => read cfg e ctx d p

/-- **Which element value ends the array**, per element kind (the Python test in the per-class `_read_0`):
    integers (fixed width, arbitrary width, LEB128) `== 0`; floats `== 0`, i.e. the bit patterns of `+0.0` and `-0.0`;
    `char` the byte `b"\x00"`; `wchar` the code unit `b"\x00\x00"`; enums and flags the member with value `0`;
    structures and unions `not obj`, i.e. the value's `__bool__` is false. -/
def isTerminator (e : Ty) (v : Val) : Bool :=
  match e, v with
  | .sc (.pint _ _) _, .int i => i == 0
  | .sc (.aint _ _) _, .int i => i == 0
  | .sc (.leb _) _, .int i => i == 0
  | .sc (.pflt n) _, .flt b => b == 0 || b == 2 ^ (8 * n - 1)
  | .sc .char _, .bytes b => b == [0]
  | .sc .wchar _, .bytes b => b == [0, 0]
  | .enum _ _ _, .enum i => i == 0
  | .struct _ _, v => !v.truthy
  | .union _ _, v => !v.truthy
  | _, _ => false

/-- the bytes of a list of `char` / raw `wchar` elements, concatenated -/
def rawBytes : List Val → Bytes
  | [] => []
  | .bytes b :: r => b ++ rawBytes r
  | _ :: r => rawBytes r

/-- **The array value made of the elements before the terminator**: a `char[]` is the byte string, a `wchar[]` the decoded
    UTF-16 string (UnicodeDecodeError for an unpaired surrogate), everything else the list of the elements. -/
def packElems (cfg : Cfg) (e : Ty) (vs : List Val) : Except Err Val :=
  match e with
  | .sc .char _ => .ok (.bytes (rawBytes vs))
  | .sc .wchar _ => decodeWchar cfg.endian (rawBytes vs)
  | _ => .ok (.list (Vals.ofList vs))

/-- Element types for which `_read_0` is a read-until-terminator loop: every scalar class except `void` (whose `_read_0`
    returns `[void]` without reading), enums / flags over an integer type, structures and unions.
    Pointers and arrays as elements have no `_read_0` (`NotImplementedError`). -/
def nullLoopElem : Ty → Bool
  | .sc s _ => (match s with | .void => false | _ => true)
  | .enum b _ _ => Scalar.isInt b
  | .struct _ _ => true
  | .union _ _ => true
  | _ => false

/-- scalar and enum elements (as opposed to structures and unions) -/
def scalarElem : Ty → Bool
  | .sc s _ => (match s with | .void => false | _ => true)
  | .enum b _ _ => Scalar.isInt b
  | _ => false

/-- **Progress**: every element that is not a terminator starts inside the input and ends after its start. It holds for
    every scalar and enum element (`c07_nullterm_progress_scalar`); for structures and unions it fails only for element
    types that can produce a true value without consuming input (e.g. `struct { void x[3]; }`), for which the real loop
    does not terminate. -/
def Progress (cfg : Cfg) (e : Ty) (ctx : Ctx) (d : Bytes) : Prop :=
  ∀ p v q, elemRead cfg e ctx d p = .ok (v, q) → isTerminator e v = false → p < q ∧ p < d.length

/-! ### A syntactic class of element types that make progress

  `consumes`: every successful read takes at least one byte from inside the input — scalars, enums and pointers of
  non-zero width, LEB128, non-empty fixed-length and null-terminated arrays of such, unions whose first member is such, and
  structures that have a member of that kind which is not a bit-field and whose declared size is not 0. The other members
  of the structure are arbitrary (bit-fields, expression-length and to-end-of-stream arrays, `void`, …). -/
mutual
def consumes (cfg : Cfg) : Ty → Bool
  | .sc s _ => s.size != some 0
  | .enum b _ _ => b.size != some 0
  | .ptr _ => cfg.ptr.size != some 0
  | .arr e len => (match len with | .fixed n => n != 0 | .nullTerm => true | _ => false) && consumes cfg e
  | .struct _ fs => fieldsConsume cfg fs
  | .union _ fs => firstConsumes cfg fs
def fieldsConsume (cfg : Cfg) : Fields → Bool
  | .nil => false
  | .cons _ _ t bits r =>
    ((match bits with | some (_ + 1) => false | _ => true) && consumes cfg t && t.size cfg != some 0) ||
      fieldsConsume cfg r
def firstConsumes (cfg : Cfg) : Fields → Bool
  | .nil => false
  | .cons _ _ t _ _ => consumes cfg t
end

end Cstruct.C07
