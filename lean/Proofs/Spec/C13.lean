/-
  C13 — specification-side definitions for the front-end theorems: texts on which the comment scanner is at a token
  boundary (`Closed`), alias chains, lookup-equivalence of typedef tables.
-/
import CstructModel.Parser

namespace Cstruct.Parser

/-- the scanner with enough fuel for its input, started behind the input character `prev` -/
def stripFrom (prev : Option Char) (l : List Char) : List Char := stripAux (l.length + 1) prev l

/-- the scanner on a whole text -/
def strip (l : List Char) : List Char := stripFrom none l

def hasClose : List Char → Bool
  | '*' :: '/' :: _ => true
  | _ :: r => hasClose r
  | [] => false

def isEol (c : Char) : Bool := c = '\r' || c = '\n'

/-- the last character of `prev` followed by the text -/
def lastOr (prev : Option Char) : List Char → Option Char
  | [] => prev
  | c :: r => lastOr (some c) r

/-- the first character of the text followed by `next` -/
def headOr (l : List Char) (next : Option Char) : Option Char :=
  match l with
  | c :: _ => some c
  | [] => next

/-- texts that the comment scanner consumes completely, ending between two lexical items: sequences of ordinary
    characters, quoted strings, block comments, line comments ended by a newline, and slashes that start no comment.
    `Closed prev a next o`: the text `a` stands behind the input character `prev` and in front of `next` (the output of a block
    comment depends on its two neighbours, `commentRepl`); `o` is the scanner's output for it. -/
inductive Closed : Option Char → List Char → Option Char → List Char → Prop
  | nil (p n : Option Char) : Closed p [] n []
  | char (p n : Option Char) (c : Char) (a o : List Char) : c ≠ '"' → c ≠ '\'' → c ≠ '/' → Closed (some c) a n o →
      Closed p (c :: a) n (c :: o)
  | quoted (p n : Option Char) (q : Char) (body a o : List Char) : (q = '"' ∨ q = '\'') → q ∉ body → Closed (some q) a n o →
      Closed p (q :: body ++ q :: a) n (q :: body ++ q :: o)
  | block (p n : Option Char) (body a o : List Char) : hasClose body = false → Closed (some '/') a n o →
      Closed p ('/' :: '*' :: body ++ '*' :: '/' :: a) n (commentRepl p body (headOr a n) ++ o)
  | line (p n : Option Char) (body a o : List Char) : (∀ c ∈ body, isEol c = false) → Closed (some '/') ('\n' :: a) n o →
      Closed p ('/' :: '/' :: body ++ '\n' :: a) n o
  | slash (p n : Option Char) (c : Char) (a o : List Char) : c ≠ '*' → c ≠ '/' → Closed (some '/') (c :: a) n o →
      Closed p ('/' :: c :: a) n ('/' :: o)

/-- `name` reaches the type object `id` through exactly `k` look-ups -/
inductive Chain (tbl : List (String × Bind)) : String → Nat → Nat → Prop
  | type (name : String) (id : Nat) : lookupB name tbl = some (.type id) → Chain tbl name id 1
  | alias (name t : String) (id k : Nat) : lookupB name tbl = some (.alias t) → Chain tbl t id k → Chain tbl name id (k + 1)

/-- two tables bind every name alike (the order of unrelated entries does not matter) -/
def LookupEq (t₁ t₂ : List (String × Bind)) : Prop := ∀ n, lookupB n t₁ = lookupB n t₂

def Bind.target (tbl : List (String × Bind)) : Bind → Option Nat
  | .type id => some id
  | .alias t => resolveB tbl 10 t

end Cstruct.Parser
