/-
  C13 — specification-side definitions for the front-end theorems: texts on which the comment scanner is at a token
  boundary (`Closed`), alias chains, lookup-equivalence of typedef tables.
-/
import CstructModel.Parser

namespace Cstruct.Parser

/-- the scanner with enough fuel for its input -/
def strip (l : List Char) : List Char := stripAux (l.length + 1) l

def hasClose : List Char → Bool
  | '*' :: '/' :: _ => true
  | _ :: r => hasClose r
  | [] => false

def isEol (c : Char) : Bool := c = '\r' || c = '\n'

/-- texts that the comment scanner consumes completely, ending between two lexical items: sequences of ordinary
    characters, quoted strings, block comments, line comments ended by a newline, and slashes that start no comment.
    The second component is the scanner's output for the text. -/
inductive Closed : List Char → List Char → Prop
  | nil : Closed [] []
  | char (c : Char) (a o : List Char) : c ≠ '"' → c ≠ '\'' → c ≠ '/' → Closed a o → Closed (c :: a) (c :: o)
  | quoted (q : Char) (body a o : List Char) : (q = '"' ∨ q = '\'') → q ∉ body → Closed a o →
      Closed (q :: body ++ q :: a) (q :: body ++ q :: o)
  | block (body a o : List Char) : hasClose body = false → Closed a o →
      Closed ('/' :: '*' :: body ++ '*' :: '/' :: a) (newlinesOf body ++ o)
  | line (body a o : List Char) : (∀ c ∈ body, isEol c = false) → Closed ('\n' :: a) o →
      Closed ('/' :: '/' :: body ++ '\n' :: a) o
  | slash (c : Char) (a o : List Char) : c ≠ '*' → c ≠ '/' → Closed (c :: a) o → Closed ('/' :: c :: a) ('/' :: o)

/-- `name` reaches the type object `id` through exactly `k` look-ups -/
inductive Chain (tbl : List (String × Bind)) : String → Nat → Nat → Prop
  | type (name : String) (id : Nat) : lookupB name tbl = some (.type id) → Chain tbl name id 1
  | alias (name t : String) (id k : Nat) : lookupB name tbl = some (.alias t) → Chain tbl t id k → Chain tbl name id (k + 1)

/-- two tables bind every name alike (the order of unrelated entries does not matter) -/
def LookupEq (t₁ t₂ : List (String × Bind)) : Prop := ∀ n, lookupB n t₁ = lookupB n t₂

def Bind.target (tbl : List (String × Bind)) : Bind → Option Nat
  | .type id => some id
  | .alias t => resolveB tbl 10 t

end Cstruct.Parser
