/-
  C03 (the compiler itself) — specification-side definitions: the well-formedness hypothesis of
  `c03_compile_validates` and the sample for its non-vacuity example.

  `compileWF cfg al fs` is a decidable (Bool) predicate over the *top-level* members of a structure.  Every definition
  whose members are built from the built-in type table satisfies (1)–(4); (5)–(7) exclude three shapes, see below.

  1. no member has the bit width 0 (`x : 0` is not a bit-field for the library; the parser never produces it);
  2. in aligned mode the alignment of every member is a power of two (the `-p & (a - 1)` idiom means "pad to a multiple
     of `a`" only then; all table types have alignment 1, 2, 4, 8 or 16);
  3. in aligned mode a `void` member has alignment 1 (the table entry has none, which `Field` reads as 1);
  4. the name of a `void` member is not reused by a later member;
  5. the underlying type of an enum / flag member (or array element) is an integer type (the models of both readers
     wrap integers only), and a pointer member is not read through a floating-point pointer type;
  6. no member is an array of `void` (the generated code has no statement for it, like for a `void` member, but the
     plan semantics `exec` only knows the single `void`);
  7. in aligned mode the storage type of a bit-field has alignment = size.  This excludes exactly the known finding F23
     (`int24` / `int48` bit-fields in an aligned structure: the layout starts a new unit where both readers continue
     the old one).
-/
import CstructModel.Compile

namespace Cstruct.Compiler
open Cstruct

def Fields.names : Fields → List String
  | .nil => []
  | .cons n _ _ _ r => n :: Fields.names r

def isFloatSc : Scalar → Bool
  | .pflt _ => true
  | _ => false

/-- conditions (1)–(3), (5)–(7) on one member -/
def memberWF (cfg : Cfg) (al : Bool) (ty : Ty) (bits : Option Nat) : Bool :=
  bits != some 0 &&
  (!al || isPow2b (ty.alignment cfg)) &&
  (!al || !isVoid ty || ty.alignment cfg == 1) &&
  (match ty with
   | .enum b _ _ => isIntBase b
   | .arr (.enum b _ _) (.fixed _) => isIntBase b
   | .ptr _ => !isFloatSc cfg.ptr
   | .arr (.ptr _) (.fixed _) => !isFloatSc cfg.ptr
   | .arr (.sc .void _) (.fixed _) => false
   | _ => true) &&
  (!al || bits.isNone || ty.size cfg == some (ty.alignment cfg))

def compileWF (cfg : Cfg) (al : Bool) : Fields → Bool
  | .nil => true
  | .cons name _ ty bits rest =>
    memberWF cfg al ty bits &&
    (!(isVoid ty && bits.isNone) || !(Fields.names rest).contains name) &&
    compileWF cfg al rest

/-- aligned `struct { uint16 a:3; uint16 b:4; void v; uint32 c; }`: `b` continues the unit of `a`, so the generator emits
    the alignment statement in front of it, forgets its tracked offset and seeks in front of the next placed member, which
    is the void member `v` here -/
def contFields : Fields :=
  .cons "a" false (.sc (.pint 2 false) 2) (some 3)
  (.cons "b" false (.sc (.pint 2 false) 2) (some 4)
  (.cons "v" false (.sc .void 0) none
  (.cons "c" false (.sc (.pint 4 false) 4) none .nil)))

/-- the plan of the source the (fixed) compiler generates for `contFields` -/
def contPlan : Plan :=
  [.bits "a" 3 .self, .align 2, .bits "b" 4 .self, .bitsReset, .seek 2,
   .block 6 (some "2xI") [⟨"c", .data1 0, .init, 4⟩], .alignCls]

end Cstruct.Compiler
