/-
  Specification side of the window theorem WITH bit-fields (`Proofs/CoreWinBits.lean`).
  The only new notion is the side condition on bit-fields; the fragments (`Ty.plain`, `Ty.uniformAlign`, `Ty.pow2Aligned`,
  `Ty.alignsDivide`) are those of `Proofs/Spec/Core.lean`, `Ty.bitsNatural` is that of `Proofs/Spec/CoreBits.lean`.
-/
import Proofs.Spec.CoreBits

namespace Cstruct

-- In aligned mode the alignment of every bit-field is a function `g` of its storage scalar: fields that can share a
-- storage unit (same storage scalar) are aligned alike. True of every structure the library can define, with `g` the
-- alignment column of the type table: the alignment is an attribute of the type object, and the bit buffer continues
-- a unit only for the same type object. Weaker than `bitsNatural` (take `g s = s.size`), and it covers int24/int48.
mutual
def Ty.bitsAlignBy (cfg : Cfg) (g : Scalar → Nat) : Ty → Bool
  | .sc _ _ => true
  | .enum _ _ _ => true
  | .ptr _ => true
  | .arr e _ => e.bitsAlignBy cfg g
  | .struct _ fs => Fields.bitsAlignBy cfg g fs
  | .union _ fs => Fields.bitsAlignBy cfg g fs
def Fields.bitsAlignBy (cfg : Cfg) (g : Scalar → Nat) : Fields → Bool
  | .nil => true
  | .cons _ _ t bits r =>
    (match bits with
     | some (_ + 1) => (match t.bitBase with | some s => t.alignment cfg == g s | none => true)
     | _ => t.bitsAlignBy cfg g) && Fields.bitsAlignBy cfg g r
end

/-- the alignment column of the built-in type table for the scalars that can store bit-fields (fixed size):
    size for the power-of-two sizes, 4 for the 3-byte and 8 for the 6-byte integers, 16 for the 16-byte ones -/
def Scalar.tableAlign : Scalar → Nat
  | .pint n _ => n
  | .pflt n => n
  | .aint n _ => if n = 3 then 4 else if n = 6 then 8 else n
  | .char => 1
  | .wchar => 2
  | .leb _ => 1
  | .void => 1


/-- Side condition of the window theorem on bit-fields. Packed mode (`al = false`): none at all. Aligned mode: fields that
    can share a storage unit are aligned alike (`bitsAlignBy g`). Nothing else is needed: a straddling bit-field, a storage
    type without static size (LEB128) or a non-scalar storage type make the layout fail, hence the read, so that the
    hypothesis "the read succeeds" already excludes them. -/
def Ty.winBits (cfg : Cfg) (al : Bool) (g : Scalar → Nat) (ty : Ty) : Bool := !al || ty.bitsAlignBy cfg g

theorem Ty.winBits_iff (cfg : Cfg) (al : Bool) (g : Scalar → Nat) (ty : Ty) :
    ty.winBits cfg al g = true ↔ (al = true → ty.bitsAlignBy cfg g = true) := by
  cases al <;> simp [Ty.winBits]

end Cstruct
