/-
  C04 — specification side: the textbook C layout rule, written independently of the code's
  `-offset & (alignment - 1)` arithmetic.
-/
import CstructModel.Ty

namespace Cstruct.C04
open Cstruct

/-- smallest multiple of `a` that is ≥ `o` (for `a > 0`) -/
def roundUp (o a : Nat) : Nat := (o + a - 1) / a * a

/-- C rule for a sequence of members given as (size, alignment): each member starts at the next multiple of its
    alignment after the end of the previous one. Returns the offsets and the end of the last member. -/
def cOffsets : List (Nat × Nat) → Nat → List Nat × Nat
  | [], cur => ([], cur)
  | (sz, al) :: r, cur =>
    let o := roundUp cur al
    let (os, e) := cOffsets r (o + sz)
    (o :: os, e)

def maxAlignOf (ms : List (Nat × Nat)) : Nat := ms.foldl (fun a m => max a m.2) 0

/-- packed rule: back to back -/
def packedOffsets : List (Nat × Nat) → Nat → List Nat × Nat
  | [], cur => ([], cur)
  | (sz, _) :: r, cur =>
    let (os, e) := packedOffsets r (cur + sz)
    (cur :: os, e)

/-- (size, alignment) of every member, `none` if some member is a bit-field or has no fixed size -/
def members (cfg : Cfg) : Fields → Option (List (Nat × Nat))
  | .nil => some []
  | .cons _ _ ty bits rest =>
    match bits, ty.size cfg, members cfg rest with
    | none, some sz, some ms => some ((sz, ty.alignment cfg) :: ms)
    | _, _, _ => none

def isPow2 (n : Nat) : Prop := ∃ k, n = 2 ^ k

end Cstruct.C04
