/-
  Core specification for the read/write theorems shared by C01, C02, C04, C07, C08, C09:
  which types are in which fragment, and when a value is a value *of* a type.
-/
import CstructModel.Write

namespace Cstruct

/-- integer-coded scalars (Packed ints and arbitrary-width ints) -/
def Scalar.isInt : Scalar → Bool
  | .pint _ _ => true
  | .aint _ _ => true
  | _ => false

def intFits (s : Scalar) (v : Int) : Bool :=
  match s with
  | .pint n sg => fits n sg v
  | .aint n sg => fits n sg v
  | _ => false

-- "plain" types, the domain of the prefix (window) theorem: no to-end-of-stream array (its extent is "the rest of the
-- input" by definition), no union (a fixed-size union fetches its whole extent with one unchecked `read`, so a shortened
-- input changes its private buffer), and null-terminated arrays only over scalar elements of non-zero size or void
mutual
def Ty.plain : Ty → Bool
  | .sc _ _ => true
  | .enum _ _ _ => true
  | .ptr _ => true
  | .arr e len =>
    (match len with
     | .eof => false
     | .nullTerm => (match e with
        | .sc s _ => s.size != some 0 || s == .void
        | .enum b _ _ => b.size != some 0
        | _ => false)
     | _ => true) && e.plain
  | .struct _ fs => Fields.plain fs
  | .union _ _ => false
def Fields.plain : Fields → Bool
  | .nil => true
  | .cons _ _ t _ r => t.plain && Fields.plain r
end

-- Fragment S ("static"): scalars with a fixed-width codec (ints, floats as bit patterns, char, void), enums and pointers
-- over integer types, fixed-length arrays of such, and structures (packed or aligned) of such without bit-fields.
mutual
def Ty.fragS (cfg : Cfg) : Ty → Bool
  | .sc s _ => (match s with | .pint _ _ => true | .aint _ _ => true | .pflt _ => true | .char => true | .void => true | _ => false)
  | .enum b _ _ => Scalar.isInt b
  | .ptr _ => Scalar.isInt cfg.ptr
  | .arr e len => (match len with | .fixed _ => true | _ => false) && e.fragS cfg
  | .struct _ fs => Fields.fragS cfg fs
  | .union _ _ => false
def Fields.fragS (cfg : Cfg) : Fields → Bool
  | .nil => true
  | .cons _ _ t bits r => bits.isNone && t.fragS cfg && Fields.fragS cfg r
end

namespace Core
-- `v` is a value of type `t` (fragment S): integers in range of their width, float patterns of the width, one byte for a
-- char, arrays of exactly the declared length (a char array is a byte string of that length), one value per field.
mutual
inductive HasTy (cfg : Cfg) : Val → Ty → Prop
  | int {s a v} : Scalar.isInt s = true → intFits s v = true → HasTy cfg (.int v) (.sc s a)
  | flt {n a b} : b < 2 ^ (8 * n) → HasTy cfg (.flt b) (.sc (.pflt n) a)
  | char {a b} : HasTy cfg (.bytes [b]) (.sc .char a)
  | void {a} : HasTy cfg .void (.sc .void a)
  | enum {b a f v} : intFits b v = true → HasTy cfg (.enum v) (.enum b a f)
  | ptr {t v} : intFits cfg.ptr v = true → HasTy cfg (.ptr v) (.ptr t)
  | chars {a n bs} : bs.length = n → HasTy cfg (.bytes bs) (.arr (.sc .char a) (.fixed n))
  | arr {e n vs} : (∀ a, e ≠ .sc .char a) → HasTyN cfg vs e n → HasTy cfg (.list vs) (.arr e (.fixed n))
  | struct {al fs vs} : HasTys cfg vs fs → HasTy cfg (.record vs) (.struct al fs)
inductive HasTyN (cfg : Cfg) : Vals → Ty → Nat → Prop
  | nil {e} : HasTyN cfg .nil e 0
  | cons {v vs e n} : HasTy cfg v e → HasTyN cfg vs e n → HasTyN cfg (.cons v vs) e (n + 1)
inductive HasTys (cfg : Cfg) : Vals → Fields → Prop
  | nil : HasTys cfg .nil .nil
  | cons {v vs name an t r} : HasTy cfg v t → HasTys cfg vs r → HasTys cfg (.cons v vs) (.cons name an t none r)
end

end Core

-- every alignment that occurs in the type divides `m` (used for position independence of aligned structures)
mutual
def Ty.alignsDivide (cfg : Cfg) (m : Nat) : Ty → Bool
  | .sc _ a => m % (if a = 0 then 1 else a) = 0
  | .enum _ a _ => m % (if a = 0 then 1 else a) = 0
  | .ptr _ => m % (if cfg.ptrAlign = 0 then 1 else cfg.ptrAlign) = 0
  | .arr e _ => e.alignsDivide cfg m
  | .struct _ fs => Fields.alignsDivide cfg m fs
  | .union _ fs => Fields.alignsDivide cfg m fs
def Fields.alignsDivide (cfg : Cfg) (m : Nat) : Fields → Bool
  | .nil => true
  | .cons _ _ t _ r => t.alignsDivide cfg m && Fields.alignsDivide cfg m r
end

-- every structure and union in the type was defined with the same `align` flag (the parser applies one flag to a whole
-- `load` call, nested definitions included)
mutual
def Ty.uniformAlign (al : Bool) : Ty → Bool
  | .sc _ _ => true
  | .enum _ _ _ => true
  | .ptr _ => true
  | .arr e _ => e.uniformAlign al
  | .struct a fs => (a == al) && Fields.uniformAlign al fs
  | .union a fs => (a == al) && Fields.uniformAlign al fs
def Fields.uniformAlign (al : Bool) : Fields → Bool
  | .nil => true
  | .cons _ _ t _ r => t.uniformAlign al && Fields.uniformAlign al r
end

-- all alignments in the type are powers of two (true of every type built from the built-in table, `c04_table_pow2`)
mutual
def Ty.pow2Aligned (cfg : Cfg) : Ty → Prop
  | .sc _ a => a = 0 ∨ ∃ k, a = 2 ^ k
  | .enum _ a _ => a = 0 ∨ ∃ k, a = 2 ^ k
  | .ptr t => (cfg.ptrAlign = 0 ∨ ∃ k, cfg.ptrAlign = 2 ^ k) ∧ t.pow2Aligned cfg
  | .arr e _ => e.pow2Aligned cfg
  | .struct _ fs => Fields.pow2Aligned cfg fs
  | .union _ fs => Fields.pow2Aligned cfg fs
def Fields.pow2Aligned (cfg : Cfg) : Fields → Prop
  | .nil => True
  | .cons _ _ t _ r => t.pow2Aligned cfg ∧ Fields.pow2Aligned cfg r
end

-- no proper bit-field anywhere in the type (a declared width of 0 is not a bit-field for the layout, the reader or the
-- writer): the domain of the window theorem `read_prefix`
mutual
def Ty.noBits : Ty → Bool
  | .sc _ _ => true
  | .enum _ _ _ => true
  | .ptr _ => true
  | .arr e _ => e.noBits
  | .struct _ fs => Fields.noBits fs
  | .union _ fs => Fields.noBits fs
def Fields.noBits : Fields → Bool
  | .nil => true
  | .cons _ _ t bits r => (match bits with | some (_ + 1) => false | _ => true) && t.noBits && Fields.noBits r
end

end Cstruct
