/-
  Specification side of the C08 theorems for UNIONS (`Proofs/C08Union.lean`).

  A fixed-size union fetches its extent with ONE UNCHECKED `stream.read(size)` and parses every member from that private
  buffer (`UnionMetaType._read`, `read` / `readMembers` in `CstructModel/Read.lean`). Nothing checks the length of the
  buffer itself; a short buffer is noticed only if some member needs the missing bytes. The fragment below says when
  that is guaranteed.

  * `Ty.rigid`   — types whose reader consumes exactly the declared number of bytes, all of them inside the input, and
                   whose only possible failure is `EOFError`: fixed-width integers, floats, `char`, `void`, enums and
                   pointers over integers, fixed-length arrays of rigid types, PACKED structures of rigid members
                   without bit-fields, and unions all of whose members are rigid and one of which is as large as the
                   union (`Fields.covered`).
  * `Fields.covered cfg fs sz` — some member of the union is rigid and has size `sz` (= the size of the union): the
                   union is "tight". An aligned union with tail padding (size 8, largest member 5 bytes) is not covered,
                   nor is a union whose only largest member is an aligned structure (which skips its tail padding with a
                   seek): for these a short input yields a VALUE (see the counter-examples in `Proofs/C08Union.lean`).
  * `Ty.plainU`  — `Ty.plain` (`Proofs/Spec/Core.lean`: every scalar, enum, pointer; fixed / expression-sized /
                   null-terminated arrays; structures packed or aligned, with or without bit-fields) plus covered
                   unions, anywhere. The MEMBERS of a covered union are unrestricted (they are parsed from the private
                   buffer, which a covered union either gets complete or not at all).
-/
import Proofs.Spec.Core

namespace Cstruct

mutual
def Ty.rigid (cfg : Cfg) : Ty → Bool
  | .sc s _ => (match s with | .pint _ _ => true | .aint _ _ => true | .pflt _ => true | .char => true | .void => true | _ => false)
  | .enum b _ _ => Scalar.isInt b
  | .ptr _ => Scalar.isInt cfg.ptr
  | .arr e len => (match len with | .fixed _ => true | _ => false) && e.rigid cfg
  | .struct al fs => !al && Fields.rigid cfg fs
  | .union al fs =>
    Fields.rigid cfg fs &&
      (match (Ty.union al fs).size cfg with
       | some sz => Fields.covered cfg fs sz
       | none => false)
def Fields.rigid (cfg : Cfg) : Fields → Bool
  | .nil => true
  | .cons _ _ t bits r => bits.isNone && t.rigid cfg && Fields.rigid cfg r
/-- some member is rigid and has exactly the size `sz` -/
def Fields.covered (cfg : Cfg) : Fields → Nat → Bool
  | .nil, _ => false
  | .cons _ _ t _ r, sz => (t.rigid cfg && t.size cfg == some sz) || Fields.covered cfg r sz
end

/-- the union is of fixed size and one of its members is rigid and as large as the union -/
def Fields.tightUnion (cfg : Cfg) (al : Bool) (fs : Fields) : Bool :=
  match (Ty.union al fs).size cfg with
  | some sz => Fields.covered cfg fs sz
  | none => false

-- `Ty.plain` with covered unions
mutual
def Ty.plainU (cfg : Cfg) : Ty → Bool
  | .sc _ _ => true
  | .enum _ _ _ => true
  | .ptr _ => true
  | .arr e len =>
    (match len with
     | .eof => false
     | .nullTerm => (match e with
        | .sc s _ => s.size != some 0 || s == .void
        | .enum b _ _ => b.size != some 0
        | _ => false)
     | _ => true) && e.plainU cfg
  | .struct _ fs => Fields.plainU cfg fs
  | .union al fs => Fields.tightUnion cfg al fs
def Fields.plainU (cfg : Cfg) : Fields → Bool
  | .nil => true
  | .cons _ _ t _ r => t.plainU cfg && Fields.plainU cfg r
end

end Cstruct
