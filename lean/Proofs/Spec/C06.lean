/-
  C06 — specification side for bit-fields: where a field sits inside its storage unit and what its value is.
-/
import CstructModel.Val

namespace Cstruct.C06
open Cstruct

/-- index (from the least significant bit of the unit) of the lowest bit of a field of `b` bits that is allocated after
    `k` bits of a `w`-bit unit have been used: little endian fills from the least significant end, big endian from the
    most significant end -/
def slotLo (e : Endian) (w k b : Nat) : Nat :=
  match e with
  | .little => k
  | .big => w - k - b

/-- bits [lo, lo+b) of the two's-complement integer `u`, as a number in [0, 2^b) -/
def slotVal (u : Int) (lo b : Nat) : Int := (u / (2 ^ lo : Nat)) % (2 ^ b : Nat)

/-- the bit buffer holds unit value `u` of width `w` with `k` bits already handed out -/
def ReadInv (e : Endian) (w : Nat) (u : Int) (k : Nat) (bb : BitBuf) : Prop :=
  k ≤ w ∧ bb.remaining = w - k ∧
  match e with
  | .little => bb.buffer = u / (2 ^ k : Nat)
  | .big => bb.buffer = u

/-- prefix sums of a list of widths -/
def starts : List Nat → Nat → List Nat
  | [], _ => []
  | b :: r, k => k :: starts r (k + b)

/-- reading a run of fields of widths `bs` from a loaded unit -/
def takeAll (e : Endian) : BitBuf → List Nat → Option (List Int × BitBuf)
  | bb, [] => some ([], bb)
  | bb, b :: r =>
    match bb.take e b with
    | none => none
    | some (v, bb') => match takeAll e bb' r with
      | none => none
      | some (vs, bb'') => some (v :: vs, bb'')

/-- writing a run of (value, width) pairs into a fresh unit of `size` bytes -/
def putAll (e : Endian) (size : Nat) : BitBuf → List (Int × Nat) → Option BitBuf
  | bb, [] => some bb
  | bb, (v, b) :: r =>
    match bb.put e size v b with
    | none => none
    | some bb' => putAll e size bb' r

end Cstruct.C06
