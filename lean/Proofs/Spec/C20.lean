/-
  C20 — specification-side definitions for the stub generator theorems (written independently of how
  `Stubgen.generate` computes its lines): which names a stub binds, what a well-formed block structure is,
  when a hint denotes a type, which names occur in an input.
-/
import CstructModel.Stubgen

namespace Cstruct.Stubgen

/-- the name a line binds, for the statement shapes that bind one name -/
def Line.topName? : Line → Option String
  | .classHdr n _ | .generic n _ | .constDecl n _ | .aliasName n _ | .aliasHint n _ | .field n _ | .member n => some n
  | _ => none

/-- names bound by the statements directly in the body of the stub class (indentation level 1), in order -/
def declaredTop (ls : List ILine) : List String :=
  ls.filterMap fun l => if l.indent = 1 then l.line.topName? else none

/-- every identifier a line binds (class name, annotated name, enum member, parameters) -/
def boundNames : Line → List String
  | .classHdr n _ | .generic n _ | .constDecl n _ | .aliasName n _ | .aliasHint n _ | .field n _ | .member n => [n]
  | .initFields args => args.map (·.1)
  | _ => []

def userTypedefs (inp : Input) : List (String × TDef) :=
  inp.typedefs.filter fun p => !(builtinKeys.contains p.1)

/-- the name a typedef entry is declared under: its key when the generator emits an alias line, its class name when
    it emits a class stub (`defined` = class names of the user typedefs seen before) -/
def declName (defined : List String) (key : String) (td : TDef) : String :=
  match td.name? with
  | none => key
  | some n => if builtinKeys.contains n || isPtrOrArr td || defined.contains n then key else n

def expectedNamesFrom : List (String × TDef) → List String → List String
  | [], _ => []
  | (key, td) :: rest, defined =>
    declName defined key td :: expectedNamesFrom rest ((td.name?).getD "" :: defined)

def expectedTypeNames (inp : Input) : List String := expectedNamesFrom (userTypedefs inp) []

def canonicalFrom : List (String × TDef) → List String → Bool
  | [], _ => true
  | (key, td) :: rest, defined =>
    (declName defined key td == key) && canonicalFrom rest ((td.name?).getD "" :: defined)

/-- every class-defining user typedef is registered under its class name (what `cstruct.load` produces) -/
def Canonical (inp : Input) : Prop := canonicalFrom (userTypedefs inp) [] = true
instance (inp : Input) : Decidable (Canonical inp) := by unfold Canonical; infer_instance

def enumsNonEmpty (inp : Input) : Bool :=
  inp.typedefs.all fun p => match p.2 with
    | .enum _ _ ms => !ms.isEmpty
    | _ => true
def EnumsNonEmpty (inp : Input) : Prop := enumsNonEmpty inp = true
instance (inp : Input) : Decidable (EnumsNonEmpty inp) := by unfold EnumsNonEmpty; infer_instance

def Line.isClassHdr : Line → Bool
  | .classHdr .. => true
  | _ => false

/-- Python's block rule for two consecutive (non-blank) lines -/
def stepOK (a b : ILine) : Prop :=
  if a.line.isClassHdr then b.indent = a.indent + 1 else b.indent ≤ a.indent

def chainOK : List ILine → Prop
  | a :: b :: r => stepOK a b ∧ chainOK (b :: r)
  | _ => True

/-- the block structure of a list of non-blank lines is what Python's parser accepts: the first line is at level 0,
    the line after a `class …:` header is exactly one level deeper, no other line is deeper than the line before it,
    and the text does not end in a header (no empty class body) -/
def BlocksOK (ls : List ILine) : Prop :=
  (∀ a, ls.head? = some a → a.indent = 0) ∧ chainOK ls ∧ (∀ a, ls.getLast? = some a → a.line.isClassHdr = false)

/-- field annotations directly in the body of a structure stub (its header is at level 0) -/
def fieldDecls (ls : List ILine) : List (String × Hint) :=
  ls.filterMap fun l => if l.indent = 1 then (match l.line with | .field n h => some (n, h) | _ => none) else none

/-- parameter lists of the keyword `__init__` overloads directly in the body of a structure stub -/
def initArgs (ls : List ILine) : List (List (String × Hint)) :=
  ls.filterMap fun l => if l.indent = 1 then (match l.line with | .initFields a => some a | _ => none) else none

def SFields.toList : SFields → List (String × STy)
  | .nil => []
  | .cons f t rest => (f, t) :: rest.toList

def SFields.Mem (f : String) (t : STy) (fs : SFields) : Prop := (f, t) ∈ fs.toList

/-- the hint names the type: same array / pointer nesting, character arrays by their dedicated names, and the leaf
    is the class name of the innermost type (whatever the prefix) -/
inductive HintDenotes : Hint → STy → Prop
  | leaf (p n : String) : HintDenotes (.name p n) (.leaf n)
  | struct (p n b : String) (fs : SFields) : HintDenotes (.name p n) (.struct n b fs)
  | charArr (mp n : String) : HintDenotes (.charArray mp) (.charArr n)
  | wcharArr (mp n : String) : HintDenotes (.wcharArray mp) (.wcharArr n)
  | ptr (mp n : String) (h : Hint) (t : STy) : HintDenotes h t → HintDenotes (.pointer mp h) (.ptr n t)
  | arr (mp n : String) (h : Hint) (t : STy) : HintDenotes h t → HintDenotes (.array mp h) (.arr n t)

mutual
/-- class and field names that occur in a type (what inline stubs can bind) -/
def STy.names : STy → List String
  | .leaf _ | .charArr _ | .wcharArr _ => []
  | .ptr _ t => t.names
  | .arr _ t => t.names
  | .struct n _ fs => n :: fs.names
def SFields.names : SFields → List String
  | .nil => []
  | .cons f t rest => f :: (t.names ++ rest.names)
end

def TDef.names : TDef → List String
  | .str _ => []
  | .enum n _ ms => n :: ms
  | .generic n _ => [n]
  | .ty t => t.name :: t.names

/-- every name that occurs in the generator's input at a place from which the generator copies it into a binding
    position -/
def inputNames (inp : Input) : List String :=
  inp.clsName :: (inp.consts.map (·.1) ++ inp.typedefs.flatMap fun p => p.1 :: p.2.names)

/-- a small input for the non-vacuity examples: a constant, an enum, a structure with a nested anonymous structure
    array, a pointer typedef and an alias of a built-in type -/
def sampleInput : Input :=
  { modPrefix := "", clsName := "cstruct",
    consts := [("K", "1")],
    typedefs := [
      ("uint8", .generic "uint8" "Packed"),
      ("E", .enum "E" "Enum" ["A", "B"]),
      ("S", .ty (.struct "S" "Structure"
        (.cons "a" (.leaf "uint8")
        (.cons "in" (.arr "__anonymous_0__[2]" (.struct "__anonymous_0__" "Structure" (.cons "x" (.leaf "uint8") .nil)))
        (.cons "s" (.charArr "char[4]") .nil))))),
      ("PS", .ty (.ptr "S*" (.leaf "S"))),
      ("T", .generic "uint32" "Packed")] }

end Cstruct.Stubgen
