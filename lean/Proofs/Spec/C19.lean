/-
  C19 — specification side for the hex dump: the plain (uncoloured) dump written independently of the palette
  state machine, and the inverse of the hex column.
-/
import CstructModel.Hexdump

namespace Cstruct.Hexdump.C19
open Cstruct Cstruct.Hexdump

/-- split into rows of 16 bytes (the last row may be shorter, never empty) -/
def rows : Nat → Bytes → List Bytes
  | 0, _ => []
  | _, [] => []
  | fuel + 1, data => data.take 16 :: rows fuel (data.drop 16)

/-- The plain dump: one entry per row: running offset, hex column, character column. -/
def plainDump (data : Bytes) (offset : Nat) : List (Nat × String × String) :=
  let rs := rows (data.length + 1) data
  (List.range rs.length).zip rs |>.map fun (i, row) => (offset + 16 * i, plainValues (padRow row) 0, plainChars row)

def unhex (c : Char) : Nat :=
  if c.isDigit then c.toNat - 48 else c.toNat - 87

/-- read the hex column back, column by column (at most `fuel` columns): two hex digits and one blank (two after the
    eighth column); two blanks in place of the digits end the row -/
def parseValues : Nat → Nat → List Char → Bytes
  | 0, _, _ => []
  | fuel + 1, j, a :: b :: r =>
    if a = ' ' then [] else UInt8.ofNat (unhex a * 16 + unhex b) :: parseValues fuel (j + 1) (r.drop (if j = 7 then 2 else 1))
  | _, _, _ => []

end Cstruct.Hexdump.C19
