/-
  C18 — specification-side definitions for the update protocol (`CstructModel/Update.lean`): what "the committed view is the
  view of the current `__fields__`" means, the invariant that holds in every reachable state in which no `commit()` has
  raised, and a variant protocol (the regression "commit moved out of the `finally:`") on which consistency fails.
-/
import CstructModel.Update

namespace Cstruct.C18Update
open Cstruct Cstruct.Commit Cstruct.Update

/-- the committed field list is an initial piece of `__fields__` -/
def IsPrefix (cf fs : Fields) : Prop := ∃ gs, fs = Fields.append cf gs

/-- **The committed view is the view of the current `__fields__`:** lookup / generated methods were built from exactly the
    current list, `size` / `alignment` / offsets are what `commit()` computes over this list (`p`: the offsets the Field
    objects carried when it ran), and the Field objects carry exactly the offsets of that layout. -/
def ViewCurrent (cfg : Cfg) (al : Bool) (s : UState) : Prop :=
  s.cfields = s.fields ∧ (∃ p, view cfg al s.fields p = .ok s.layout) ∧ s.persisted = s.layout.2.2

/-- outside an update the committed view is current -/
def Consistent (cfg : Cfg) (al : Bool) (s : UState) : Prop :=
  s.updating = false → ViewCurrent cfg al s

/-- The inductive form: `__fields__` may run ahead of the committed view (by `gs`, the fields added inside an open block: they
    carry no offset yet), never the other way round; the committed view is the view of the committed list; with the flag down
    nothing is pending. -/
def Inv (cfg : Cfg) (al : Bool) (s : UState) : Prop :=
  ∃ gs, s.fields = Fields.append s.cfields gs ∧ (∃ p, view cfg al s.cfields p = .ok s.layout) ∧
    s.persisted = s.layout.2.2 ++ List.replicate gs.length none ∧ (s.updating = false → gs = .nil)

/-- The same with the one-shot layout in place of "some commit": the committed view is the layout of the committed list
    declared in one piece. -/
def InvOneShot (cfg : Cfg) (al : Bool) (s : UState) : Prop :=
  ∃ gs, s.fields = Fields.append s.cfields gs ∧ Fields.layout cfg al s.cfields LState.init = .ok s.layout ∧
    s.persisted = s.layout.2.2 ++ List.replicate gs.length none ∧ (s.updating = false → gs = .nil)

/-- does this call run `commit()`? -/
def commits (s : UState) : Op → Bool
  | .addField _ _ _ => !s.updating
  | .addFieldFails => false
  | .enter => false
  | .exitOk => true
  | .exitExc => true
  | .commit => true

/-- `__fields__` and the offsets on them at the moment the call reaches `commit()` -/
def atCommit (s : UState) : Op → Fields × List (Option Nat)
  | .addField n ty bits => (Fields.append s.fields (.cons n false ty bits .nil), s.persisted ++ [none])
  | _ => (s.fields, s.persisted)

/-! ### The regression: `commit()` no longer in the `finally:`

    @contextmanager
    def start_update(cls):
        cls.__updating__ = True
        try:
            yield
        finally:
            cls.__updating__ = False
        cls.commit()                      # not reached when the block raises
-/
def stepNoCommitOnExc (cfg : Cfg) (al : Bool) (s : UState) : Op → UState
  | .exitExc => { s with updating := false, commitErr := none }
  | op => step cfg al s op

def runNoCommitOnExc (cfg : Cfg) (al : Bool) : UState → List Op → UState
  | s, [] => s
  | s, op :: ops => runNoCommitOnExc cfg al (stepNoCommitOnExc cfg al s op) ops

/-- a decidable consequence of `Consistent` (field lists are compared by their names) -/
def ConsistentNames (s : UState) : Prop :=
  s.updating = false → names s.cfields = names s.fields

instance (s : UState) : Decidable (ConsistentNames s) := by unfold ConsistentNames; infer_instance

end Cstruct.C18Update
