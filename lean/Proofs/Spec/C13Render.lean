/-
  C13, definition parser — specification side of the round trip: well-formed declaration lists (`wfDecls`, decidable) and their
  canonical rendering as lexemes (`lexDecls`) and text (`renderDecls`: one blank between lexemes, nothing in front of `;`, a
  `#define` on its own line).  Not rendered (outside `wfDecls`): `$lookup` declarations, members / typedefs without a type
  (`TypeRef.none`), texts with quotes or slashes (the comment scanner would have to be taken into account), declarator texts
  after `}` that are not plain names.
-/
import Proofs.Spec.C13Parse

namespace Cstruct.DefParser.C13
open Cstruct.DefParser

/-- no quote, no slash: the comment scanner copies such a text -/
def plainText (t : List Char) : Bool := t.all (fun c => c != '"' && c != '\'' && c != '/')

def isIdent (v : List Char) : Bool := (Lexeme.ident v).wf

/-- decimal digits of a number -/
def digitChar (k : Nat) : Char := Char.ofNat (48 + k)
def natDigitsAux : Nat → Nat → List Char → List Char
  | 0, _, acc => acc
  | f + 1, n, acc => if n < 10 then digitChar n :: acc else natDigitsAux f (n / 10) (digitChar (n % 10) :: acc)
def natDigits (n : Nat) : List Char := natDigitsAux (n + 1) n []

/-- the count texts of a declarator between the first `[` and the last `]` -/
def joinDims : List (List Char) → List Char
  | [] => []
  | [d] => d
  | d :: r => d ++ ']' :: '[' :: joinDims r

def dimOK (d : List Char) : Bool :=
  d.all (fun c => c != ']' && c != '[' && c != ';' && c != '\n') && plainText d && strip d == d

def declrWF (allowBits : Bool) (d : Declarator) : Bool :=
  isWordStr d.name && (d.ptr != 0 || !isKeyword d.name) && d.dims.all dimOK && !(d.dims.dropLast.any (·.isEmpty)) &&
  (allowBits || d.bits.isNone)

def declrLex (d : Declarator) : Lexeme :=
  .name (List.replicate d.ptr '*') d.name (d.bits.map fun b => ([], [], natDigits b))
    (if d.dims.isEmpty then none else some (joinDims d.dims))

/-- the words of a type name (`unsigned int`) -/
def typeWordsOf (n : List Char) : List (List Char) := splitOn1 ' ' n

def identLex (ws : List (List Char)) : List (Lexeme × List Char) := ws.map fun w => (Lexeme.ident w, [' '])

mutual
def wfT : TypeRef → Bool
  | .none => false
  | .name n => (typeWordsOf n).all isIdent
  | .structRef t => isIdent t
  | .inline a => wfA false a
/-- `top`: a top-level definition (declared names allowed); nested aggregates declare none -/
def wfA (top : Bool) : Aggr → Bool
  | .mk _ tag fs ns =>
    (match tag with | some t => isIdent t | none => true) && wfFs fs &&
    (if top then ns.all isIdent && (tag.isSome || !ns.isEmpty) else ns.isEmpty)
def wfF : FieldDecl → Bool
  | .anon t => (match t with | .inline _ => true | _ => false) && wfT t
  | .named t d => wfT t && declrWF true d
def wfFs : List FieldDecl → Bool
  | [] => true
  | f :: r => wfF f && wfFs r
end

mutual
/-- the lexemes of a type in front of a declarator (each followed by one blank) -/
def lexT : TypeRef → List (Lexeme × List Char)
  | .none => []
  | .name n => identLex (typeWordsOf n)
  | .structRef t => [(.struct false, [' ']), (.ident t, [' '])]
  | .inline a => lexA a
def lexA : Aggr → List (Lexeme × List Char)
  | .mk u tag fs _ =>
    (Lexeme.struct u, [' ']) :: (match tag with | some t => [(Lexeme.ident t, [' '])] | none => []) ++
    (Lexeme.lbrace, [' ']) :: lexFs fs ++ [(Lexeme.rbrace, [' '])]
def lexF : FieldDecl → List (Lexeme × List Char)
  | .anon t => lexT t ++ [(.semi, [' '])]
  | .named t d => lexT t ++ [(declrLex d, []), (.semi, [' '])]
def lexFs : List FieldDecl → List (Lexeme × List Char)
  | [] => []
  | f :: r => lexF f ++ lexFs r
end

/-- the names behind `}`: nothing, one declarator, or a name list -/
def namesLex : List (List Char) → List (Lexeme × List Char)
  | [] => []
  | [n] => [(.name [] n none none, [])]
  | n :: r => [(.defs [' '] n (r.map fun m => ([], [' '], m)), [])]

/-- a top-level aggregate: the blank behind `}` belongs to the name list when there is one -/
def lexTop (a : Aggr) : List (Lexeme × List Char) :=
  match a with
  | .mk u tag fs ns =>
    (Lexeme.struct u, [' ']) :: (match tag with | some t => [(Lexeme.ident t, [' '])] | none => []) ++
    (Lexeme.lbrace, [' ']) :: lexFs fs ++ [(Lexeme.rbrace, if ns.length ≥ 2 then [] else [' '])] ++ namesLex ns ++ [(.semi, ['\n'])]

def memberText : List Char × Option (List Char) → List Char
  | (k, none) => k
  | (k, some v) => k ++ ' ' :: '=' :: ' ' :: v

def membersText : List (List Char × Option (List Char)) → List Char
  | [] => []
  | [m] => memberText m ++ [' ']
  | m :: r => memberText m ++ ',' :: ' ' :: membersText r

def memberWF (m : List Char × Option (List Char)) : Bool :=
  let ok := fun (t : List Char) => !t.isEmpty && strip t == t && plainText t &&
    t.all (fun c => c != ',' && c != '}' && !isLineBreak c)
  ok m.1 && m.1.all (· != '=') && (match m.2 with | some v => ok v | none => true)

def joinComma : List (List Char) → List Char
  | [] => []
  | [v] => v
  | v :: r => v ++ ',' :: joinComma r

/-- the base type of an enum: words separated by single blanks -/
def baseWF (b : List Char) : Bool :=
  b.all (fun c => isWord c || c == ' ') && (match b with | c :: _ => isWord c | [] => false) &&
  (match b.getLast? with | some c => isWord c | none => false) && normType b == b

def wfDecl : Decl → Bool
  | .config vs => !vs.isEmpty && !(joinComma vs).isEmpty && vs.all (fun v => v.all (fun c => c != ',' && c != ']') && plainText v)
  | .const n v => !n.isEmpty && n.all (fun c => !isWs c) && plainText n && (match v with | c :: _ => !isWs c | [] => false) &&
      v.all notEol && plainText v
  | .enum _ n b ms => n.all isWord && baseWF b && ms.all memberWF
  | .typedef t ds => wfT t && (match ds with
      | [d] => declrWF false d
      | _ => false)
  | .aggr a => wfA true a
  | .lookup _ _ => false

def lexDecl : Decl → List (Lexeme × List Char)
  | .config vs => [(.config (joinComma vs), ['\n'])]
  | .const n v => [(.define [' '] n [' '] v, ['\n'])]
  | .enum fl n b ms => [(.enum fl [' '] n (if n.isEmpty then [] else [' ']) (some ([' '], b, [' '])) (' ' :: membersText ms), []), (.semi, ['\n'])]
  | .typedef t ds => (Lexeme.typedef, [' ']) :: lexT t ++ ds.map (fun d => (declrLex d, [])) ++ [(.semi, ['\n'])]
  | .aggr a => lexTop a
  | .lookup _ _ => []

def wfDecls (ds : List Decl) : Bool := ds.all wfDecl
def lexDecls (ds : List Decl) : List (Lexeme × List Char) := ds.flatMap lexDecl
def renderDecls (ds : List Decl) : List Char := render (lexDecls ds)

/-- the well-formed declaration lists of the round trip: every declaration is well formed, and the canonical text contains neither
    quotes nor slashes (so that the comment scanner copies it) -/
def WFDecls (ds : List Decl) : Bool := wfDecls ds && plainText (renderDecls ds)

end Cstruct.DefParser.C13
