/-
  C13, definition parser — specification-side definitions for the layout theorems about the scanner and the declaration
  handlers (`CstructModel/DefParser.lean`):

  * `blank w`      — a string of the characters `re.Scanner`'s `\s` matches (blank, tab, newline, CR, FF, VT);
  * `Lexeme`       — the lexical items of the supported definition grammar, each with the internal spacing it was written
                     with (the spacing INSIDE a declarator, a name list, an enum, a `#define` line is part of the item);
  * `render`       — a text: lexemes, each followed by a separator (a blank string, possibly empty);
  * `adm`          — which separators the scanner needs where (the exact conditions are listed at `sepOK`);
  * `toks`         — the token list such a text is expected to scan to: one token per lexeme; the tokens of the classes
                     NAME / DEFS / ENUM / DEFINE contain the separator that follows them (they swallow it), a DEFS token
                     also the separator in front of it.
-/
import CstructModel.DefParser
import Proofs.Spec.C13

namespace Cstruct.DefParser.C13
open Cstruct.DefParser

def blank (w : List Char) : Bool := w.all isWsA

def noHead (p : Char → Bool) : List Char → Bool
  | [] => true
  | c :: _ => !p c

def kwTypedef : List Char := ['t', 'y', 'p', 'e', 'd', 'e', 'f']
def kwStruct : List Char := ['s', 't', 'r', 'u', 'c', 't']
def kwUnion : List Char := ['u', 'n', 'i', 'o', 'n']
def kwEnum : List Char := ['e', 'n', 'u', 'm']
def kwFlag : List Char := ['f', 'l', 'a', 'g']
def kwDefine : List Char := ['#', 'd', 'e', 'f', 'i', 'n', 'e']

/-- the words the scanner reacts to before it tries NAME / IDENTIFIER -/
def isKeyword (v : List Char) : Bool := v == kwTypedef || v == kwStruct || v == kwUnion || v == kwEnum || v == kwFlag

inductive Lexeme
  | typedef
  | struct (isUnion : Bool)
  | ident (v : List Char)
  | lbrace
  | rbrace
  | semi
  /-- a declarator: `pre` = the stars with the blanks after each of them, the word, `bits` = (blanks, blanks, digits) around
      `:`, `count` = the text between the first `[` and the last `]` -/
  | name (pre word : List Char) (bits : Option (List Char × List Char × List Char)) (count : Option (List Char))
  /-- a name list after `}`: the blanks in front of it, the first name, then (blanks, blanks, name) around each comma -/
  | defs (lead first : List Char) (more : List (List Char × List Char × List Char))
  /-- `enum|flag` blanks name blanks [`:` blanks type blanks] `{` values `}` -/
  | enum (isFlag : Bool) (ws1 name ws2 : List Char) (ty : Option (List Char × List Char × List Char)) (values : List Char)
  /-- `#define` blanks name blanks value (the value runs to the end of its line) -/
  | define (ws1 name ws2 value : List Char)
  /-- `#[values]` -/
  | config (values : List Char)
  deriving DecidableEq, Repr

def bitsText : Option (List Char × List Char × List Char) → List Char
  | none => []
  | some (a, b, ds) => a ++ ':' :: b ++ ds

def countText : Option (List Char) → List Char
  | none => []
  | some c => '[' :: c ++ [']']

def moreText : List (List Char × List Char × List Char) → List Char
  | [] => []
  | (a, b, w) :: r => a ++ ',' :: b ++ w ++ moreText r

def tyText : Option (List Char × List Char × List Char) → List Char
  | none => []
  | some (a, t, b) => ':' :: a ++ t ++ b

def Lexeme.text : Lexeme → List Char
  | .typedef => kwTypedef
  | .struct u => if u then kwUnion else kwStruct
  | .ident v => v
  | .lbrace => ['{']
  | .rbrace => ['}']
  | .semi => [';']
  | .name pre w bits cnt => pre ++ w ++ bitsText bits ++ countText cnt
  | .defs lead first more => lead ++ first ++ moreText more
  | .enum fl ws1 nm ws2 ty vals => (if fl then kwFlag else kwEnum) ++ ws1 ++ nm ++ ws2 ++ tyText ty ++ '{' :: vals ++ ['}']
  | .define ws1 nm ws2 val => kwDefine ++ ws1 ++ nm ++ ws2 ++ val
  | .config vals => '#' :: '[' :: vals ++ [']']

def isWordStr (v : List Char) : Bool := !v.isEmpty && v.all isWord

def moreOK : List (List Char × List Char × List Char) → Bool
  | [] => true
  | (a, b, w) :: r => blank a && blank b && isWordStr w && moreOK r

/-- the stars of a declarator with the blanks after them -/
def preOK : List Char → Bool
  | [] => true
  | c :: r => c == '*' && r.all (fun c => c == '*' || isWsA c)

/-- well-formed lexemes.  Identifiers, undecorated declarator names and the first name of a name list that is glued to `}` are not
    keywords; an enum's name is a word (or
    absent), its base type consists of words separated by blanks (any number, any kind); the name of a `#define` has no white space, its
    value starts with a non-blank and has no line break; the count of a declarator has no `;` and no newline. -/
def Lexeme.wf : Lexeme → Bool
  | .ident v => (match v with | c :: _ => isIdStart c | [] => false) && v.all isWord && !isKeyword v
  | .name pre w bits cnt =>
    preOK pre && (!pre.isEmpty || !isKeyword w) && isWordStr w &&
    (match bits with | none => true | some (a, b, ds) => blank a && blank b && !ds.isEmpty && ds.all Char.isDigit) &&
    (match cnt with | none => true | some c => c.all (fun c => c != ';' && c != '\n'))
  | .defs lead first more => blank lead && isWordStr first && (!lead.isEmpty || !isKeyword first) && !more.isEmpty && moreOK more
  | .enum _ ws1 nm ws2 ty vals =>
    blank ws1 && !ws1.isEmpty && nm.all isWord && blank ws2 && (!nm.isEmpty || ws2.isEmpty) &&
    (match ty with
      | none => true
      | some (a, t, b) => blank a && blank b && t.all (fun c => isWord c || isWsA c) &&
          (match t with | c :: _ => isWord c | [] => false) && (match t.getLast? with | some c => isWord c | none => false)) &&
    !vals.isEmpty && vals.all (· != '}')
  | .define ws1 nm ws2 val =>
    blank ws1 && !ws1.isEmpty && !nm.isEmpty && nm.all (fun c => !isWs c) && blank ws2 && !ws2.isEmpty &&
    (match val with | c :: _ => !isWs c | [] => false) && val.all notEol
  | .config vals => !vals.isEmpty && vals.all (· != ']')
  | _ => true

/-- the text starts with a word character -/
def Lexeme.startsWord : Lexeme → Bool
  | .typedef | .struct _ | .ident _ | .enum .. => true
  | .name pre _ _ _ => pre.isEmpty
  | _ => false

def Lexeme.isDefs : Lexeme → Bool
  | .defs .. => true
  | _ => false

/-- the token of this lexeme swallows the separator that follows it -/
def Lexeme.swallows : Lexeme → Bool
  | .name .. | .defs .. | .enum .. | .define .. => true
  | _ => false

/-- What the scanner needs between a lexeme and the next one (`s`: the separator, `next`: the next lexeme, if any):
    * after `typedef` at least one blank;
    * after `struct` / `union` at least one blank unless `{` follows;
    * after an identifier: not `;` (that would be a declarator), and at least one blank if the next lexeme starts with a
      word character;
    * a declarator, a name list, an enum are followed by `;` (any blanks in between are swallowed by their token);
    * a `#define` line ends with a line break (first character of the separator), or the text ends with it;
    * a name list comes directly after `}` (its own leading blanks are the separator) and nowhere else;
    * no condition after `{`, `}`, `;`, `#[...]`. -/
def sepOK (x : Lexeme) (s : List Char) (next : Option Lexeme) : Bool :=
  (match next with | some y => !y.isDefs || (x == .rbrace && s.isEmpty) | none => true) &&
  match x with
  | .typedef => !s.isEmpty
  | .struct _ => !s.isEmpty || next == some .lbrace
  | .ident _ => (match next with | some y => y != .semi && (!s.isEmpty || !y.startsWord) | none => true)
  | .name .. | .defs .. | .enum .. => next == some .semi
  | .define .. => (match s with | c :: _ => c == '\n' || c == '\r' | [] => next.isNone)
  | _ => true

/-- the scanner's look-behind after this lexeme and separator: the previous character is `}` -/
def closes (x : Lexeme) (s : List Char) : Bool :=
  (match x with | .rbrace | .enum .. => true | _ => false) && s.isEmpty

/-- admissible texts; `ac`: the character before the text is `}` (a name list is possible) -/
def adm : Bool → List (Lexeme × List Char) → Bool
  | _, [] => true
  | ac, (x, s) :: rest =>
    x.wf && blank s && (!x.isDefs || ac) && sepOK x s (rest.head?.map (·.1)) && adm (closes x s) rest

def render : List (Lexeme × List Char) → List Char
  | [] => []
  | (x, s) :: rest => x.text ++ s ++ render rest

def tokOf (x : Lexeme) (s : List Char) : Tok :=
  match x with
  | .typedef => ⟨.typedef, x.text⟩
  | .struct _ => ⟨.struct, x.text⟩
  | .ident _ => ⟨.ident, x.text⟩
  | .lbrace | .rbrace => ⟨.block, x.text⟩
  | .semi => ⟨.eol, x.text⟩
  | .name .. => ⟨.name, x.text ++ s⟩
  | .defs .. => ⟨.defs, x.text ++ s⟩
  | .enum .. => ⟨.enum, x.text ++ s⟩
  | .define .. => ⟨.define, x.text ++ s⟩
  | .config _ => ⟨.config, x.text⟩

def toks : List (Lexeme × List Char) → List Tok
  | [] => []
  | (x, s) :: rest => tokOf x s :: toks rest

/-- two lexemes that are the same up to the blanks INSIDE an enum head: around the name, around `:`, and between the words of a
    multi-word base type (the handlers read the type as `" ".join(type.split())`) -/
def lexSim : Lexeme → Lexeme → Bool
  | .enum fl _ nm _ ty vals, .enum fl' _ nm' _ ty' vals' =>
    fl == fl' && nm == nm' && vals == vals' &&
    (match ty, ty' with
      | none, none => true
      | some (_, t, _), some (_, t', _) => normType t == normType t'
      | _, _ => false)
  | x, y => x == y

/-- the same lexemes up to `lexSim`, with any separators -/
def simLexemes : List (Lexeme × List Char) → List (Lexeme × List Char) → Bool
  | [], [] => true
  | (x, _) :: r, (x', _) :: r' => lexSim x x' && simLexemes r r'
  | _, _ => false

/-- the same lexemes with other separators -/
abbrev sameLexemes (l l' : List (Lexeme × List Char)) : Prop := l.map (·.1) = l'.map (·.1)

-- decidable equality of declarations (nested inductive types: written out), for the concrete examples
mutual
def decT : (a b : TypeRef) → Decidable (a = b)
  | .none, .none => isTrue rfl
  | .name n, .name m => if h : n = m then isTrue (h ▸ rfl) else isFalse (fun e => h (by cases e; rfl))
  | .structRef n, .structRef m => if h : n = m then isTrue (h ▸ rfl) else isFalse (fun e => h (by cases e; rfl))
  | .inline a, .inline b => match decA a b with
    | isTrue h => isTrue (h ▸ rfl)
    | isFalse h => isFalse (fun e => h (by cases e; rfl))
  | .none, .name _ | .none, .structRef _ | .none, .inline _ | .name _, .none | .name _, .structRef _ | .name _, .inline _
  | .structRef _, .none | .structRef _, .name _ | .structRef _, .inline _ | .inline _, .none | .inline _, .name _ | .inline _, .structRef _ =>
    isFalse (fun e => by cases e)
def decA : (a b : Aggr) → Decidable (a = b)
  | .mk u t fs ns, .mk u' t' fs' ns' =>
    if h1 : u = u' ∧ t = t' ∧ ns = ns' then
      match decFs fs fs' with
      | isTrue h => isTrue (by obtain ⟨rfl, rfl, rfl⟩ := h1; rw [h])
      | isFalse h => isFalse (fun e => h (by cases e; rfl))
    else isFalse (fun e => h1 (by cases e; exact ⟨rfl, rfl, rfl⟩))
def decF : (a b : FieldDecl) → Decidable (a = b)
  | .anon t, .anon t' => match decT t t' with
    | isTrue h => isTrue (h ▸ rfl)
    | isFalse h => isFalse (fun e => h (by cases e; rfl))
  | .named t d, .named t' d' =>
    if h1 : d = d' then
      match decT t t' with
      | isTrue h => isTrue (by rw [h, h1])
      | isFalse h => isFalse (fun e => h (by cases e; rfl))
    else isFalse (fun e => h1 (by cases e; rfl))
  | .anon _, .named _ _ | .named _ _, .anon _ => isFalse (fun e => by cases e)
def decFs : (a b : List FieldDecl) → Decidable (a = b)
  | [], [] => isTrue rfl
  | f :: r, f' :: r' => match decF f f', decFs r r' with
    | isTrue h, isTrue h' => isTrue (by rw [h, h'])
    | isFalse h, _ => isFalse (fun e => h (by cases e; rfl))
    | _, isFalse h => isFalse (fun e => h (by cases e; rfl))
  | [], _ :: _ | _ :: _, [] => isFalse (fun e => by cases e)
end
instance : DecidableEq TypeRef := decT
instance : DecidableEq Aggr := decA
instance : DecidableEq FieldDecl := decF
deriving instance DecidableEq for Decl
deriving instance DecidableEq for OTok

/-- `k` iterations of the loop of `parse`: the declarations and the tokens that are left -/
def declsN : Nat → List OTok → Except PErr (List Decl × List OTok)
  | 0, toks => .ok ([], toks)
  | k + 1, toks =>
    match declH toks with
    | .error e => .error e
    | .ok (d, r) =>
      match declsN k r with
      | .error e => .error e
      | .ok (ds, r') => .ok (d :: ds, r')

/-- the last lexeme closes a top-level declaration: `;`, a `#[...]` flag, or a `#define` line with its line break -/
def endsTop (l : List (Lexeme × List Char)) : Bool :=
  match l.getLast? with
  | some (.semi, _) => true
  | some (.config _, _) => true
  | some (.define .., s) => !s.isEmpty
  | _ => false

/-- `l1` ends at a boundary between top-level definitions with respect to what follows (`next`: the first token of the
    continuation, if any): the handlers, run on the tokens of `l1` followed by that token alone, complete exactly the
    declarations `ds` and leave that token untouched.  In terms of the text: `l1` ends behind the `;` that closes a top-level
    struct / union / typedef / enum / flag, behind a `#[...]` flag, a `$lookup` or the line break of a `#define`, AND the
    continuation does not start with something the last handler would still take: a `;` (a struct definition takes one extra
    `;`), a declarator or a name list (behind `typedef struct {...};` they would become the typedef's names).  An unfinished
    definition (`struct S { uint8 a;` without `}`, a bare `typedef`) does not end at a boundary. -/
def boundary (l1 : List (Lexeme × List Char)) (ds : List Decl) (next : Option OTok) : Prop :=
  match next with
  | none => True
  | some e => declsN ds.length ((toks l1).map Tok.obs ++ [e]) = .ok (ds, [e])

instance (l1 : List (Lexeme × List Char)) (ds : List Decl) (next : Option OTok) : Decidable (boundary l1 ds next) := by
  cases next with
  | none => exact isTrue trivial
  | some e => exact inferInstanceAs (Decidable (declsN ds.length ((toks l1).map Tok.obs ++ [e]) = .ok (ds, [e])))

/-- the first token of a lexeme list, as the handlers see it -/
def firstObs (l : List (Lexeme × List Char)) : Option OTok := ((toks l).map Tok.obs).head?

/-- a complete top-level definition text: the text, its lexemes, its declarations -/
structure TopDef where
  text : List Char
  lex : List (Lexeme × List Char)
  decls : List Decl

/-- the text consists of exactly these lexemes whatever stands in front of it and behind it (no comment is left open, no leading
    blanks, no comment at either end whose replacement would depend on the neighbouring text), ends a top-level declaration, and
    parses to these declarations without error -/
def TopDef.ok (d : TopDef) : Prop :=
  (∀ p n, Cstruct.Parser.Closed p d.text n (render d.lex)) ∧ adm false d.lex = true ∧ endsTop d.lex = true ∧
  parseDecls d.text = (d.decls, none)

/-- `d` ends at a boundary with respect to a continuation `d'` -/
def TopDef.before (d d' : TopDef) : Prop := boundary d.lex d.decls (firstObs d'.lex)

instance (d d' : TopDef) : Decidable (d.before d') := inferInstanceAs (Decidable (boundary d.lex d.decls (firstObs d'.lex)))

-- ------------------------------------------------------------------------------------------------ registration order
open Cstruct.Parser in
/-- what `_typedef` does with `typedef target name;`: the target is resolved NOW (ResolveError = `none` if it is not known yet),
    the name is bound to the resulting type object -/
def regTypedef (tbl : List (String × Bind)) (reg : String × String) : Option (List (String × Bind)) :=
  match resolveB tbl 10 reg.2 with
  | none => none
  | some id => addType tbl reg.1 (.type id)

/-- a sequence of typedefs, in text order -/
def regAll (tbl : List (String × Cstruct.Parser.Bind)) : List (String × String) → Option (List (String × Cstruct.Parser.Bind))
  | [] => some tbl
  | r :: rest => match regTypedef tbl r with
    | none => none
    | some tbl' => regAll tbl' rest

open Cstruct.Parser in
/-- independent registrations over a table: the names are pairwise distinct and not bound yet, and every target is known to
    the table as it is BEFORE the sequence — so no registration of the sequence refers to a name the sequence introduces -/
def RegOK (tbl : List (String × Bind)) (regs : List (String × String)) : Prop :=
  (regs.map (·.1)).Nodup ∧ (∀ p ∈ regs, lookupB p.1 tbl = none) ∧ (∀ p ∈ regs, ∃ id, resolveB tbl 10 p.2 = some id)

/-- the token classes whose regex ends in `\s*` (DEFINE) or `\s*(?=;)` (ENUM, DEFS, NAME): they swallow the blanks behind them -/
def _root_.Cstruct.DefParser.TK.swallows : TK → Bool
  | .name | .defs | .enum | .define => true
  | _ => false

/-- two tokens agree up to the blanks they swallowed -/
def TokAgree (t t' : Tok) : Prop :=
  t.kind = t'.kind ∧
  (t.kind.swallows = false → t.value = t'.value) ∧
  (t.kind.swallows = true → ∃ v s s', blank s = true ∧ blank s' = true ∧ t.value = v ++ s ∧ t'.value = v ++ s')

/-- token lists that agree token by token -/
inductive TokensAgree : List Tok → List Tok → Prop
  | nil : TokensAgree [] []
  | cons {t t' : Tok} {ts ts' : List Tok} : TokAgree t t' → TokensAgree ts ts' → TokensAgree (t :: ts) (t' :: ts')

-- a printable form of declarations (the types are nested inductives without decidable equality), for the examples
def q (l : List Char) : List Char := '"' :: l ++ ['"']

def encDeclr (d : Declarator) : List Char :=
  "(d ".toList ++ (toString d.ptr).toList ++ ' ' :: q d.name ++ " [".toList ++ (d.dims.map q).flatten ++ "] ".toList ++
    (match d.bits with | some b => (toString b).toList | none => "-".toList) ++ [')']

mutual
def encT : TypeRef → List Char
  | .none => "(none)".toList
  | .name n => "(name ".toList ++ q n ++ [')']
  | .structRef t => "(ref ".toList ++ q t ++ [')']
  | .inline a => "(inline ".toList ++ encA a ++ [')']
def encA : Aggr → List Char
  | .mk u tag fs ns => (if u then "(union ".toList else "(struct ".toList) ++ (match tag with | some t => q t | none => "-".toList) ++
      " {".toList ++ encFs fs ++ "} [".toList ++ (ns.map q).flatten ++ "])".toList
def encF : FieldDecl → List Char
  | .anon t => "(anon ".toList ++ encT t ++ [')']
  | .named t d => "(field ".toList ++ encT t ++ ' ' :: encDeclr d ++ [')']
def encFs : List FieldDecl → List Char
  | [] => []
  | f :: r => encF f ++ encFs r
end

def encDecl : Decl → String
  | .config vs => String.ofList ("(config ".toList ++ (vs.map q).flatten ++ [')'])
  | .const n v => String.ofList ("(const ".toList ++ q n ++ ' ' :: q v ++ [')'])
  | .enum fl n b ms => String.ofList ((if fl then "(flag ".toList else "(enum ".toList) ++ q n ++ ' ' :: q b ++ " [".toList ++
      (ms.map fun (k, v) => '(' :: q k ++ (match v with | some e => ' ' :: q e | none => []) ++ [')']).flatten ++ "])".toList)
  | .typedef t ds => String.ofList ("(typedef ".toList ++ encT t ++ " [".toList ++ (ds.map encDeclr).flatten ++ "])".toList)
  | .aggr a => String.ofList ("(aggr ".toList ++ encA a ++ [')'])
  | .lookup n v => String.ofList ("(lookup ".toList ++ q n ++ ' ' :: q v ++ [')'])

end Cstruct.DefParser.C13
