import CstructModel.Sexp
import CstructModel.Expr
import CstructModel.Proto
import CstructModel.Hexdump
import CstructModel.Dumpstruct
import CstructModel.Enum
import CstructModel.Pointer
import CstructModel.Union
import CstructModel.Parser
import CstructModel.Stubgen
import CstructModel.Compiler
import CstructModel.Compile
import CstructModel.DefParser
import CstructModel.Update
import CstructModel.BitBufferProto
import CstructModel.Call
open Cstruct Cstruct.Proto

def pairs? (s : Sexp) : Option (List (String × Int)) :=
  match s with
  | .list l => l.mapM fun p => match p with
    | .list [k, v] => do some ((← k.string?), (← v.int?))
    | _ => none
  | _ => none

/-- sizeof table: `((name size) | (name err ClassName))*` -/
def sizeofTable? (s : Sexp) : Option (List (String × Except Expr.EErr Int)) :=
  match s with
  | .list l => l.mapM fun p => match p with
    | .list [k, .atom "dynamic"] => do some ((← k.string?), .error .typeErr)
    | .list [k, v] => do some ((← k.string?), .ok (← v.int?))
    | _ => none
  | _ => none

def mkEnv (ctx consts : List (String × Int)) (tbl : List (String × Except Expr.EErr Int)) : Expr.Env :=
  { ctx := ctx, consts := consts,
    sizeof := fun n => match tbl.find? (·.1 = n) with | some (_, r) => r | none => .error .resolve }

def exprResult : Except Expr.EErr Int → Sexp
  | .ok v => .list [.atom "ok", .atom (toString v)]
  | .error e => .list [.atom "err", .atom e.name]

-- ---------------------------------------------------------------------------------------- stub generator
mutual
partial def parseSTy : Sexp → Option Stubgen.STy
  | .list [.atom "leaf", n] => n.string?.map .leaf
  | .list [.atom "chararr", n] => n.string?.map .charArr
  | .list [.atom "wchararr", n] => n.string?.map .wcharArr
  | .list [.atom "ptr", n, t] => do some (.ptr (← n.string?) (← parseSTy t))
  | .list [.atom "arr", n, t] => do some (.arr (← n.string?) (← parseSTy t))
  | .list [.atom "struct", n, b, .list fs] => do some (.struct (← n.string?) (← b.string?) (← parseSFields fs))
  | _ => none
partial def parseSFields : List Sexp → Option Stubgen.SFields
  | [] => some .nil
  | .list [f, t] :: rest => do some (.cons (← f.string?) (← parseSTy t) (← parseSFields rest))
  | _ => none
end

def parseTDef : Sexp → Option Stubgen.TDef
  | .list [.atom "str", t] => t.string?.map .str
  | .list [.atom "enum", n, b, .list ms] => do some (.enum (← n.string?) (← b.string?) (← ms.mapM Sexp.string?))
  | .list [.atom "generic", n, b] => do some (.generic (← n.string?) (← b.string?))
  | .list [.atom "ty", t] => (parseSTy t).map .ty
  | _ => none

def strPairs? (l : List Sexp) : Option (List (String × String)) :=
  l.mapM fun p => match p with
    | .list [k, v] => do some ((← k.string?), (← v.string?))
    | _ => none

-- ---------------------------------------------------------------------------------------- compiled-reader plans
def parseSlot : Sexp → Option Compiler.Slot
  | .list [n, src, dec, sz] => do
    let src' ← match src with
      | .list [.atom "buf", a, b] => do some (Compiler.Src.buf (← a.nat?) (← b.nat?))
      | .list [.atom "data", i] => do some (Compiler.Src.data1 (← i.nat?))
      | .list [.atom "data", i, j] => do some (Compiler.Src.dataN (← i.nat?) (← j.nat?))
      | _ => none
    let dec' ← match dec with
      | .atom "init" => some Compiler.Dec.init
      | .atom "parse" => some Compiler.Dec.parse
      | .atom "pointer" => some Compiler.Dec.pointer
      | .list [.atom "intarray", k] => k.nat?.map Compiler.Dec.intArray
      | .atom "initarray" => some Compiler.Dec.initArray
      | .atom "parsearray" => some Compiler.Dec.parseArray
      | .atom "pointerarray" => some Compiler.Dec.pointerArray
      | _ => none
    some { name := (← n.string?), src := src', dec := dec', size := (← sz.nat?) }
  | _ => none

def parseInstr : Sexp → Option Compiler.Instr
  | .list [.atom "seek", n] => n.nat?.map .seek
  | .list [.atom "align", n] => n.nat?.map .align
  | .list [.atom "aligncls"] => some .alignCls
  | .list [.atom "bitsreset"] => some .bitsReset
  | .list [.atom "sub", n] => n.string?.map .sub
  | .list [.atom "bits", n, k, .atom v] => do
    let via ← match v with | "self" => some Compiler.Via.self | "base" => some .base | "token" => some .token | _ => none
    some (.bits (← n.string?) (← k.nat?) via)
  | .list [.atom "block", sz, fmt, .list slots] => do
    let f : Option String := match fmt with | .str t => some t | _ => none
    some (.block (← sz.nat?) f (← slots.mapM parseSlot))
  | _ => none

def slotSexp (sl : Compiler.Slot) : Sexp :=
  let src : Sexp := match sl.src with
    | .buf a b => .list [.atom "buf", .atom (toString a), .atom (toString b)]
    | .data1 i => .list [.atom "data", .atom (toString i)]
    | .dataN i j => .list [.atom "data", .atom (toString i), .atom (toString j)]
  let dec : Sexp := match sl.dec with
    | .init => .atom "init" | .parse => .atom "parse" | .pointer => .atom "pointer"
    | .intArray k => .list [.atom "intarray", .atom (toString k)]
    | .initArray => .atom "initarray" | .parseArray => .atom "parsearray" | .pointerArray => .atom "pointerarray"
  .list [.str sl.name, src, dec, .atom (toString sl.size)]

def instrSexp : Compiler.Instr → Sexp
  | .seek n => .list [.atom "seek", .atom (toString n)]
  | .align n => .list [.atom "align", .atom (toString n)]
  | .alignCls => .list [.atom "aligncls"]
  | .bitsReset => .list [.atom "bitsreset"]
  | .sub n => .list [.atom "sub", .str n]
  | .bits n k via => .list [.atom "bits", .str n, .atom (toString k),
      .atom (match via with | .self => "self" | .base => "base" | .token => "token")]
  | .block sz fmt slots => .list [.atom "block", .atom (toString sz),
      (match fmt with | some f => .str f | none => .atom "none"), .list (slots.map slotSexp)]

-- ---------------------------------------------------------------------------------------- definition parser (C13)
namespace DefParserSexp
open Cstruct.DefParser
def str (l : List Char) : Sexp := .str (String.ofList l)
def optStr : Option (List Char) → Sexp
  | some l => str l
  | none => .atom "none"
def declr (d : Declarator) : Sexp :=
  .list [.atom "d", .atom (toString d.ptr), str d.name, .list (d.dims.map str),
    match d.bits with | some b => .atom (toString b) | none => .atom "none"]
mutual
partial def tref : TypeRef → Sexp
  | .none => .list [.atom "none"]
  | .name n => .list [.atom "name", str n]
  | .structRef t => .list [.atom "ref", str t]
  | .inline a => .list [.atom "inline", aggr a]
partial def aggr : Aggr → Sexp
  | .mk u tag fs ns => .list [.atom (if u then "union" else "struct"), optStr tag, .list (fs.map field), .list (ns.map str)]
partial def field : FieldDecl → Sexp
  | .anon t => .list [.atom "anon", tref t]
  | .named t d => .list [.atom "field", tref t, declr d]
end
def decl : Decl → Sexp
  | .config vs => .list (.atom "config" :: vs.map str)
  | .const n v => .list [.atom "const", str n, str v]
  | .enum fl n b ms => .list [.atom (if fl then "flag" else "enum"), str n, str b,
      .list (ms.map fun (k, v) => .list [str k, optStr v])]
  | .typedef t ds => .list [.atom "typedef", tref t, .list (ds.map declr)]
  | .aggr a => .list [.atom "aggr", aggr a]
  | .lookup n v => .list [.atom "lookup", str n, str v]
def result (r : List Decl × Option PErr) : Sexp :=
  .list [.atom "res", .list (r.1.map decl),
    match r.2 with | none => .atom "none" | some e => .list [.atom "err", .atom e.pyClass, .atom e.tag]]
end DefParserSexp

def handle (s : Sexp) : Sexp :=
  match s with
  -- (parsedecls "text"): the declaration list of the definition parser, and the error that stopped it
  | .list [.atom "parsedecls", .str t] => DefParserSexp.result (DefParser.parseDecls t.toList)
  -- (scandef "text"): the tokens of re.Scanner on a text (no comment stripping)
  | .list [.atom "scandef", .str t] =>
    .list (.atom "ok" :: (DefParser.scan t.toList).map fun tk => .list [.atom tk.kind.pyName, .str (String.ofList tk.value)])
  -- (tokenize "text")
  | .list [.atom "tokenize", .str t] =>
    match Expr.tokenize t with
    | .ok ts => .list (.atom "ok" :: ts.map .str)
    | .error e => .list [.atom "err", .atom e.name]
  -- (expr "text" ctx consts sizeofs ctx2): construct, evaluate with ctx, evaluate again with ctx2
  | .list [.atom "expr", .str t, ctx, consts, szs, ctx2] =>
    match pairs? ctx, pairs? consts, sizeofTable? szs, pairs? ctx2 with
    | some ctx, some consts, some tbl, some ctx2 =>
      match Expr.Obj.new t with
      | .error e => .list [.atom "err", .atom e.name]
      | .ok o =>
        let (o1, r1) := o.evaluate (mkEnv ctx consts tbl)
        let (o2, r2) := o1.evaluate (mkEnv ctx2 consts tbl)
        .list [.atom "res", exprResult r1, exprResult r2, .list (o2.tokens.map .str)]
    | _, _, _, _ => .list [.atom "bad-args"]
  -- (layout cfg T)
  | .list [.atom "layout", c, t] =>
    match parseCfg c, parseTy t with
    | .ok cfg, .ok ty =>
      match ty.defErr cfg with
      | some e => errSexp e
      | none =>
      match ty with
      | .struct al fs =>
        match structLayout cfg al fs with
        | .ok (sz, a, offs) => .list [.atom "ok", optNat sz, .atom (toString a), .list (offs.map optNat)]
        | .error e => errSexp e
      | .union al fs => .list [.atom "ok", optNat (ty.size cfg), .atom (toString (Fields.maxAlign cfg fs 0)), .list []]
      | _ => .list [.atom "ok", optNat (ty.size cfg), .atom (toString (ty.alignment cfg)), .list []]
    | .error e, _ => .list [.atom "bad-args", .str e]
    | _, .error e => .list [.atom "bad-args", .str e]
  -- (read cfg T hexdata pos)
  | .list [.atom "read", c, t, d, p] =>
    match parseCfg c, parseTy t, d.hexBytes?, p.nat? with
    | .ok cfg, .ok ty, some data, some pos =>
      match ty with
      | .struct al fs =>
        match readStructWithSizes cfg al fs data pos with
        | .ok (v, szs, p') => .list [.atom "ok", valToSexp v, .atom (toString p'),
            .list (szs.map fun (n, k) => .list [.str n, .atom (toString k)])]
        | .error e => errSexp e
      | _ =>
        match read cfg ty [] data pos with
        | .ok (v, p') => .list [.atom "ok", valToSexp v, .atom (toString p'), .list []]
        | .error e => errSexp e
    | .error e, _, _, _ => .list [.atom "bad-args", .str e]
    | _, .error e, _, _ => .list [.atom "bad-args", .str e]
    | _, _, _, _ => .list [.atom "bad-args"]
  -- (write cfg T V)
  | .list [.atom "write", c, t, v] =>
    match parseCfg c, parseTy t, parseVal v with
    | .ok cfg, .ok ty, .ok val =>
      match dumps cfg ty val with
      | .ok bs => .list [.atom "ok", Sexp.ofBytes bs]
      | .error e => errSexp e
    | .error e, _, _ => .list [.atom "bad-args", .str e]
    | _, .error e, _ => .list [.atom "bad-args", .str e]
    | _, _, .error e => .list [.atom "bad-args", .str e]
  -- (leb-write signed v) / (leb-read signed hex)
  | .list [.atom "leb-write", sg, v] =>
    match v.int? with
    | some i => match lebWrite (sg.nat? != some 0) i with
      | .ok bs => .list [.atom "ok", Sexp.ofBytes bs]
      | .error e => errSexp e
    | none => .list [.atom "bad-args"]
  | .list [.atom "leb-read", sg, d] =>
    match d.hexBytes? with
    | some bs => match lebRead (sg.nat? != some 0) bs with
      | .ok (v, rest) => .list [.atom "ok", .atom (toString v), .atom (toString (bs.length - rest.length))]
      | .error e => errSexp e
    | none => .list [.atom "bad-args"]
  -- (resolve "name")
  | .list [.atom "resolve", n] =>
    match n.string? with
    | some name => match resolve Gen.typeTable name with
      | .ok (cn, k, sz, al) => .list [.atom "ok", .str cn, .str (reprStr k), optNat sz, optNat al]
      | .error e => errSexp e
    | none => .list [.atom "bad-args"]
  -- (hexdump hexdata palette offset): palette = none | ((n "colour") ...)
  | .list [.atom "hexdump", d, pal, off] =>
    let palette : Option (Option (List (Int × String))) := match pal with
      | .atom "none" => some none
      | .list l => (l.mapM fun (p : Sexp) => match p with
          | Sexp.list [n, Sexp.str c] => n.int?.map (·, c)
          | _ => none).map some
      | _ => none
    match d.hexBytes?, palette, off.nat? with
    | some data, some p, some o =>
      let render (segs : List Hexdump.Seg) : String := String.join (segs.map fun s => match s with
        | .text t => t
        | .code "NORMAL" => Gen.colorNormal
        | .code c => c)
      .list (.atom "ok" :: (Hexdump.hexdump data p o).map fun l =>
        .list [.atom (toString l.offset), .str (render l.values), .str (render l.chars)])
    | _, _, _ => .list [.atom "bad-args"]
  -- (dumpstruct "cls" ((name anon size|none (int v)|(text "s")|(list "s")) ...) hexdata offset color)
  | .list [.atom "dumpstruct", .str cls, .list fs, d, off, col] =>
    let fields : Option (List Dumpstruct.DField) := fs.mapM fun (p : Sexp) => match p with
      | Sexp.list [Sexp.str n, an, sz, Sexp.list [Sexp.atom k, v]] =>
        let value : Option Dumpstruct.DVal := match k, v with
          | "int", v => v.int?.map .int
          | "text", Sexp.str s => some (.text s)
          | "list", Sexp.str s => some (.list s)
          | _, _ => none
        value.map fun v => { name := n, anonymous := an.nat? != some 0, size := sz.nat?, value := v }
      | _ => none
    match fields, d.hexBytes?, off.nat?, col.nat? with
    | some fields, some data, some o, some c =>
      let render (segs : List Hexdump.Seg) : String := String.join (segs.map fun s => match s with
        | .text t => t
        | .code "NORMAL" => Gen.colorNormal
        | .code c => c)
      let r := Dumpstruct.dumpstruct cls fields data o (c != 0)
      .list [.atom "ok", .list (r.hex.map fun l => .list [.atom (toString l.offset), .str (render l.values), .str (render l.chars)]),
             .str r.title, .list (r.listing.map fun l => .str (render l))]
    | _, _, _, _ => .list [.atom "bad-args"]
  -- (pack v size|none le|be) (unpack hex size|none le|be sign) (swap v size)
  | .list [.atom "pack", v, sz, e] =>
    match v.int?, e with
    | some i, .atom en =>
      match Hexdump.pack i sz.nat? (if en = "le" then .little else .big) with
      | some bs => .list [.atom "ok", Sexp.ofBytes bs]
      | none => .list [.atom "err", .atom "Overflow"]
    | _, _ => .list [.atom "bad-args"]
  | .list [.atom "unpack", d, sz, e, sg] =>
    match d.hexBytes?, e with
    | some bs, .atom en =>
      match Hexdump.unpack bs sz.nat? (if en = "le" then .little else .big) (sg.nat? != some 0) with
      | some v => .list [.atom "ok", .atom (toString v)]
      | none => .list [.atom "err", .atom "ValueError"]
    | _, _ => .list [.atom "bad-args"]
  | .list [.atom "swap", v, sz] =>
    match v.int?, sz.nat? with
    | some i, some s =>
      match Hexdump.swap i s with
      | some w => .list [.atom "ok", .atom (toString w)]
      | none => .list [.atom "err", .atom "Error"]
    | _, _ => .list [.atom "bad-args"]
  -- (enumvals flag? consts ((name "expr" | name none) ...))
  | .list [.atom "enumvals", fl, consts, .list ms] =>
    let members : Option (List (String × Option String)) := ms.mapM fun (m : Sexp) => match m with
      | Sexp.list [n, Sexp.atom "none"] => n.string?.map (·, none)
      | Sexp.list [n, Sexp.str e] => n.string?.map (·, some e)
      | _ => none
    match pairs? consts, members with
    | some cs, some mem =>
      match Enum.enumValues (fl.nat? != some 0) cs mem with
      | .ok vals => .list (.atom "ok" :: vals.map fun (k, v) => .list [.str k, .atom (toString v)])
      | .error e => .list [.atom "err", .atom e.name]
    | _, _ => .list [.atom "bad-args"]
  -- (deref cfg T hexdata addr hasStream): dereference a pointer to T bound to the stream (or to no stream)
  | .list [.atom "deref", c, t, d, a, hs] =>
    match parseCfg c, parseTy t, d.hexBytes?, a.int? with
    | .ok cfg, .ok ty, some data, some addr =>
      let ptr : Pointer.Ptr := { addr := addr, stream := if hs.nat? == some 0 then none else some data, target := ty, cache := none }
      match Pointer.deref cfg ptr 0 with
      | .ok (v, ptr', _) =>
        -- second dereference must give the same
        match Pointer.deref cfg ptr' 7 with
        | .ok (v2, _, q) => .list [.atom "ok", valToSexp v, valToSexp v2, .atom (toString q)]
        | .error e => errSexp e
      | .error e => errSexp e
    | _, _, _, _ => .list [.atom "bad-args"]
  -- (unionhist cfg U hexdata ((k V) ...)): parse the union at 0, then apply the assignments; the state after every step
  | .list [.atom "unionhist", c, t, d, .list ops] =>
    match parseCfg c, parseTy t, d.hexBytes? with
    | .ok cfg, .ok (.union al fs), some data =>
      match (Ty.union al fs).size cfg with
      | none => .list [.atom "err", .atom "NotImplementedError"]
      | some sz =>
        let showSt (s : Union.UState) : Sexp :=
          .list [Sexp.ofBytes s.buf, .list (valsToSexp s.vals),
            match write cfg (.union al fs) (.union s.buf s.vals) 0 with
            | .ok bs => Sexp.ofBytes bs
            | .error e => errSexp e]
        match Union.parse cfg fs sz data 0 with
        | .error e => errSexp e
        | .ok (s0, _) =>
          let rec go (s : Union.UState) (ops : List Sexp) (acc : List Sexp) : List Sexp :=
            match ops with
            | [] => acc.reverse
            | Sexp.list [k, v] :: rest =>
              match k.nat?, parseVal v with
              | some kk, .ok vv =>
                match Union.assign cfg fs s kk vv with
                | .ok s' => go s' rest (showSt s' :: acc)
                | .error e => (errSexp e :: acc).reverse
              | _, _ => (Sexp.list [.atom "bad-op"] :: acc).reverse
            | _ => (Sexp.list [.atom "bad-op"] :: acc).reverse
          .list (.atom "ok" :: showSt s0 :: go s0 ops [])
    | _, _, _ => .list [.atom "bad-args"]
  -- (stripcomments "text")
  | .list [.atom "stripcomments", .str t] => .list [.atom "ok", .str (Parser.stripComments t)]
  -- (resolvein ((name target|type) ...) name)
  | .list [.atom "resolvein", .list tbl, n] =>
    let binds : Option (List (String × Parser.Bind)) := tbl.mapM fun (p : Sexp) => match p with
      | Sexp.list [k, Sexp.atom "type"] => k.string?.map (·, Parser.Bind.type 0)
      | Sexp.list [k, Sexp.str t] => k.string?.map (·, Parser.Bind.alias t)
      | _ => none
    match binds, n.string? with
    | some b, some name =>
      match Parser.resolveB b 10 name with
      | some _ => .list [.atom "ok"]
      | none => .list [.atom "err", .atom "ResolveError"]
    | _, _ => .list [.atom "bad-args"]
  -- (stubgen "modprefix" "clsname" ((cname repr) ...) ((key TDef) ...)): the stub text, one string per line
  | .list [.atom "stubgen", mp, cn, .list cs, .list tds] =>
    let tds' : Option (List (String × Stubgen.TDef)) := tds.mapM fun (p : Sexp) => match p with
      | Sexp.list [k, v] => do some ((← k.string?), (← parseTDef v))
      | _ => none
    match mp.string?, cn.string?, strPairs? cs, tds' with
    | some mp, some cn, some cs, some tds =>
      match Stubgen.generate { modPrefix := mp, clsName := cn, consts := cs, typedefs := tds } with
      | .ok ls => .list (.atom "ok" :: ls.map fun l => .str l.render)
      | .error .attributeError => .list [.atom "err", .atom "AttributeError"]
      | .error .typeError => .list [.atom "err", .atom "TypeError"]
    | _, _, _, _ => .list [.atom "bad-args"]
  -- (planok cfg T plan): the validator's verdict on the plan of a structure's compiled reader
  | .list [.atom "planok", c, t, .list pl] =>
    match parseCfg c, parseTy t, pl.mapM parseInstr with
    | .ok cfg, .ok (.struct al fs), some plan => .list [.atom (if Compiler.planOK cfg al fs plan then "ok" else "reject")]
    | _, _, _ => .list [.atom "bad-args"]
  -- (execplan cfg T plan hexdata pos): run the plan
  | .list [.atom "execplan", c, t, .list pl, d, p] =>
    match parseCfg c, parseTy t, pl.mapM parseInstr, d.hexBytes?, p.nat? with
    | .ok cfg, .ok (.struct al fs), some plan, some data, some pos =>
      match Compiler.readCompiled cfg al fs plan data pos with
      | .ok (v, szs, p') => .list [.atom "ok", valToSexp v, .atom (toString p'),
          .list (szs.map fun (n, k) => .list [.str n, .atom (toString k)])]
      | .error e => errSexp e
    | _, _, _, _, _ => .list [.atom "bad-args"]
  -- (compile cfg T): the plan the model of the compiler produces, or (fallback) when the generator raises
  | .list [.atom "compile", c, t] =>
    match parseCfg c, parseTy t with
    | .ok cfg, .ok (.struct al fs) =>
      match structLayout cfg al fs with
      | .error e => errSexp e
      | .ok (_, _, offs) =>
        match Compiler.compile cfg al fs offs with
        | .ok plan => .list [.atom "ok", .list (plan.map instrSexp)]
        | .error () => .list [.atom "fallback"]
    | _, _ => .list [.atom "bad-args"]
  -- (updhist cfg align (op ...)), op = (add "name" T bits|none) | (addfail) | (enter) | (exitok) | (exitexc) | (commit):
  -- the update protocol on an empty structure; after every op (committed names, size, alignment, committed offsets,
  -- __updating__, the error commit raised | none, names of __fields__, their offsets)
  | .list [.atom "updhist", c, al, .list ops] =>
    let parseOp : Sexp → Option Update.Op := fun o => match o with
      | Sexp.list [Sexp.atom "add", n, t, b] => match n.string?, parseTy t with
        | some name, .ok ty => some (.addField name ty (match b.nat? with | some 0 => none | k => k))
        | _, _ => none
      | Sexp.list [Sexp.atom "addfail"] => some .addFieldFails
      | Sexp.list [Sexp.atom "enter"] => some .enter
      | Sexp.list [Sexp.atom "exitok"] => some .exitOk
      | Sexp.list [Sexp.atom "exitexc"] => some .exitExc
      | Sexp.list [Sexp.atom "commit"] => some .commit
      | _ => none
    match parseCfg c, ops.mapM parseOp with
    | .ok cfg, some ops =>
      .list (.atom "ok" :: (Update.trace cfg (al.nat? != some 0) Update.UState.init ops).map fun s =>
        .list [.list ((Update.names s.cfields).map .str), optNat s.layout.1, .atom (toString s.layout.2.1),
          .list (s.layout.2.2.map optNat), .atom (if s.updating then "1" else "0"),
          (match s.commitErr with | some e => errSexp e | none => .atom "none"),
          .list ((Update.names s.fields).map .str), .list (s.persisted.map optNat)])
    | _, _ => .list [.atom "bad-args"]
  -- (bbops endian host hexstream pos (op ...)): the BitBuffer object model, see CstructModel/BitBufferProto.lean
  | .list (.atom "bbops" :: args) => BBuf.bbops args
  -- (callroute (cls isBytes size|none ((isBytes bits size|none) ...)) (arg ...) nkw): the route of the class call, see CstructModel/Call.lean
  | .list (.atom "callroute" :: args) => Call.callroute args
  | _ => .list [.atom "bad-op"]

partial def loop (h out : IO.FS.Stream) : IO Unit := do
  let line ← h.getLine
  if line.isEmpty then return ()
  let l := (line.dropEndWhile (fun c => c = '\n' || c = '\r')).toString
  match Sexp.parse l with
  | some s => out.putStrLn (toString (handle s))
  | none => out.putStrLn "(bad-line)"
  loop h out

def main : IO Unit := do
  let out ← IO.getStdout
  loop (← IO.getStdin) out
  out.flush
