import CstructModel.Sexp
import CstructModel.Expr
import CstructModel.Proto
import CstructModel.Hexdump
import CstructModel.Enum
import CstructModel.Pointer
import CstructModel.Union
import CstructModel.Parser
open Cstruct Cstruct.Proto

def pairs? (s : Sexp) : Option (List (String × Int)) :=
  match s with
  | .list l => l.mapM fun p => match p with
    | .list [k, v] => do some ((← k.string?), (← v.int?))
    | _ => none
  | _ => none

/-- sizeof table: `((name size) | (name err ClassName))*` -/
def sizeofTable? (s : Sexp) : Option (List (String × Except Expr.EErr Int)) :=
  match s with
  | .list l => l.mapM fun p => match p with
    | .list [k, .atom "dynamic"] => do some ((← k.string?), .error .typeErr)
    | .list [k, v] => do some ((← k.string?), .ok (← v.int?))
    | _ => none
  | _ => none

def mkEnv (ctx consts : List (String × Int)) (tbl : List (String × Except Expr.EErr Int)) : Expr.Env :=
  { ctx := ctx, consts := consts,
    sizeof := fun n => match tbl.find? (·.1 = n) with | some (_, r) => r | none => .error .resolve }

def exprResult : Except Expr.EErr Int → Sexp
  | .ok v => .list [.atom "ok", .atom (toString v)]
  | .error e => .list [.atom "err", .atom e.name]

def handle (s : Sexp) : Sexp :=
  match s with
  -- (tokenize "text")
  | .list [.atom "tokenize", .str t] =>
    match Expr.tokenize t with
    | .ok ts => .list (.atom "ok" :: ts.map .str)
    | .error e => .list [.atom "err", .atom e.name]
  -- (expr "text" ctx consts sizeofs ctx2): construct, evaluate with ctx, evaluate again with ctx2
  | .list [.atom "expr", .str t, ctx, consts, szs, ctx2] =>
    match pairs? ctx, pairs? consts, sizeofTable? szs, pairs? ctx2 with
    | some ctx, some consts, some tbl, some ctx2 =>
      match Expr.Obj.new t with
      | .error e => .list [.atom "err", .atom e.name]
      | .ok o =>
        let (o1, r1) := o.evaluate (mkEnv ctx consts tbl)
        let (o2, r2) := o1.evaluate (mkEnv ctx2 consts tbl)
        .list [.atom "res", exprResult r1, exprResult r2, .list (o2.tokens.map .str)]
    | _, _, _, _ => .list [.atom "bad-args"]
  -- (layout cfg T)
  | .list [.atom "layout", c, t] =>
    match parseCfg c, parseTy t with
    | .ok cfg, .ok ty =>
      match ty.defErr cfg with
      | some e => errSexp e
      | none =>
      match ty with
      | .struct al fs =>
        match structLayout cfg al fs with
        | .ok (sz, a, offs) => .list [.atom "ok", optNat sz, .atom (toString a), .list (offs.map optNat)]
        | .error e => errSexp e
      | .union al fs => .list [.atom "ok", optNat (ty.size cfg), .atom (toString (Fields.maxAlign cfg fs 0)), .list []]
      | _ => .list [.atom "ok", optNat (ty.size cfg), .atom (toString (ty.alignment cfg)), .list []]
    | .error e, _ => .list [.atom "bad-args", .str e]
    | _, .error e => .list [.atom "bad-args", .str e]
  -- (read cfg T hexdata pos)
  | .list [.atom "read", c, t, d, p] =>
    match parseCfg c, parseTy t, d.hexBytes?, p.nat? with
    | .ok cfg, .ok ty, some data, some pos =>
      match ty with
      | .struct al fs =>
        match readStructWithSizes cfg al fs data pos with
        | .ok (v, szs, p') => .list [.atom "ok", valToSexp v, .atom (toString p'),
            .list (szs.map fun (n, k) => .list [.str n, .atom (toString k)])]
        | .error e => errSexp e
      | _ =>
        match read cfg ty [] data pos with
        | .ok (v, p') => .list [.atom "ok", valToSexp v, .atom (toString p'), .list []]
        | .error e => errSexp e
    | .error e, _, _, _ => .list [.atom "bad-args", .str e]
    | _, .error e, _, _ => .list [.atom "bad-args", .str e]
    | _, _, _, _ => .list [.atom "bad-args"]
  -- (write cfg T V)
  | .list [.atom "write", c, t, v] =>
    match parseCfg c, parseTy t, parseVal v with
    | .ok cfg, .ok ty, .ok val =>
      match dumps cfg ty val with
      | .ok bs => .list [.atom "ok", Sexp.ofBytes bs]
      | .error e => errSexp e
    | .error e, _, _ => .list [.atom "bad-args", .str e]
    | _, .error e, _ => .list [.atom "bad-args", .str e]
    | _, _, .error e => .list [.atom "bad-args", .str e]
  -- (leb-write signed v) / (leb-read signed hex)
  | .list [.atom "leb-write", sg, v] =>
    match v.int? with
    | some i => match lebWrite (sg.nat? != some 0) i with
      | .ok bs => .list [.atom "ok", Sexp.ofBytes bs]
      | .error e => errSexp e
    | none => .list [.atom "bad-args"]
  | .list [.atom "leb-read", sg, d] =>
    match d.hexBytes? with
    | some bs => match lebRead (sg.nat? != some 0) bs with
      | .ok (v, rest) => .list [.atom "ok", .atom (toString v), .atom (toString (bs.length - rest.length))]
      | .error e => errSexp e
    | none => .list [.atom "bad-args"]
  -- (resolve "name")
  | .list [.atom "resolve", n] =>
    match n.string? with
    | some name => match resolve Gen.typeTable name with
      | .ok (cn, k, sz, al) => .list [.atom "ok", .str cn, .str (reprStr k), optNat sz, optNat al]
      | .error e => errSexp e
    | none => .list [.atom "bad-args"]
  -- (hexdump hexdata palette offset): palette = none | ((n "colour") ...)
  | .list [.atom "hexdump", d, pal, off] =>
    let palette : Option (Option (List (Int × String))) := match pal with
      | .atom "none" => some none
      | .list l => (l.mapM fun (p : Sexp) => match p with
          | Sexp.list [n, Sexp.str c] => n.int?.map (·, c)
          | _ => none).map some
      | _ => none
    match d.hexBytes?, palette, off.nat? with
    | some data, some p, some o =>
      let render (segs : List Hexdump.Seg) : String := String.join (segs.map fun s => match s with
        | .text t => t
        | .code "NORMAL" => "\x1b[1;0m"
        | .code c => c)
      .list (.atom "ok" :: (Hexdump.hexdump data p o).map fun l =>
        .list [.atom (toString l.offset), .str (render l.values), .str (render l.chars)])
    | _, _, _ => .list [.atom "bad-args"]
  -- (pack v size|none le|be) (unpack hex size|none le|be sign) (swap v size)
  | .list [.atom "pack", v, sz, e] =>
    match v.int?, e with
    | some i, .atom en =>
      match Hexdump.pack i sz.nat? (if en = "le" then .little else .big) with
      | some bs => .list [.atom "ok", Sexp.ofBytes bs]
      | none => .list [.atom "err", .atom "Overflow"]
    | _, _ => .list [.atom "bad-args"]
  | .list [.atom "unpack", d, sz, e, sg] =>
    match d.hexBytes?, e with
    | some bs, .atom en =>
      match Hexdump.unpack bs sz.nat? (if en = "le" then .little else .big) (sg.nat? != some 0) with
      | some v => .list [.atom "ok", .atom (toString v)]
      | none => .list [.atom "err", .atom "ValueError"]
    | _, _ => .list [.atom "bad-args"]
  | .list [.atom "swap", v, sz] =>
    match v.int?, sz.nat? with
    | some i, some s =>
      match Hexdump.swap i s with
      | some w => .list [.atom "ok", .atom (toString w)]
      | none => .list [.atom "err", .atom "Error"]
    | _, _ => .list [.atom "bad-args"]
  -- (enumvals flag? consts ((name "expr" | name none) ...))
  | .list [.atom "enumvals", fl, consts, .list ms] =>
    let members : Option (List (String × Option String)) := ms.mapM fun (m : Sexp) => match m with
      | Sexp.list [n, Sexp.atom "none"] => n.string?.map (·, none)
      | Sexp.list [n, Sexp.str e] => n.string?.map (·, some e)
      | _ => none
    match pairs? consts, members with
    | some cs, some mem =>
      match Enum.enumValues (fl.nat? != some 0) cs mem with
      | .ok vals => .list (.atom "ok" :: vals.map fun (k, v) => .list [.str k, .atom (toString v)])
      | .error e => .list [.atom "err", .atom e.name]
    | _, _ => .list [.atom "bad-args"]
  -- (deref cfg T hexdata addr hasStream): dereference a pointer to T bound to the stream (or to no stream)
  | .list [.atom "deref", c, t, d, a, hs] =>
    match parseCfg c, parseTy t, d.hexBytes?, a.int? with
    | .ok cfg, .ok ty, some data, some addr =>
      let ptr : Pointer.Ptr := { addr := addr, stream := if hs.nat? == some 0 then none else some data, target := ty, cache := none }
      match Pointer.deref cfg ptr 0 with
      | .ok (v, ptr', _) =>
        -- second dereference must give the same
        match Pointer.deref cfg ptr' 7 with
        | .ok (v2, _, q) => .list [.atom "ok", valToSexp v, valToSexp v2, .atom (toString q)]
        | .error e => errSexp e
      | .error e => errSexp e
    | _, _, _, _ => .list [.atom "bad-args"]
  -- (unionhist cfg U hexdata ((k V) ...)): parse the union at 0, then apply the assignments; the state after every step
  | .list [.atom "unionhist", c, t, d, .list ops] =>
    match parseCfg c, parseTy t, d.hexBytes? with
    | .ok cfg, .ok (.union al fs), some data =>
      match (Ty.union al fs).size cfg with
      | none => .list [.atom "err", .atom "NotImplementedError"]
      | some sz =>
        let showSt (s : Union.UState) : Sexp :=
          .list [Sexp.ofBytes s.buf, .list (valsToSexp s.vals),
            match write cfg (.union al fs) (.union s.buf s.vals) 0 with
            | .ok bs => Sexp.ofBytes bs
            | .error e => errSexp e]
        match Union.parse cfg fs sz data 0 with
        | .error e => errSexp e
        | .ok (s0, _) =>
          let rec go (s : Union.UState) (ops : List Sexp) (acc : List Sexp) : List Sexp :=
            match ops with
            | [] => acc.reverse
            | Sexp.list [k, v] :: rest =>
              match k.nat?, parseVal v with
              | some kk, .ok vv =>
                match Union.assign cfg fs s kk vv with
                | .ok s' => go s' rest (showSt s' :: acc)
                | .error e => (errSexp e :: acc).reverse
              | _, _ => (Sexp.list [.atom "bad-op"] :: acc).reverse
            | _ => (Sexp.list [.atom "bad-op"] :: acc).reverse
          .list (.atom "ok" :: showSt s0 :: go s0 ops [])
    | _, _, _ => .list [.atom "bad-args"]
  -- (stripcomments "text")
  | .list [.atom "stripcomments", .str t] => .list [.atom "ok", .str (Parser.stripComments t)]
  -- (resolvein ((name target|type) ...) name)
  | .list [.atom "resolvein", .list tbl, n] =>
    let binds : Option (List (String × Parser.Bind)) := tbl.mapM fun (p : Sexp) => match p with
      | Sexp.list [k, Sexp.atom "type"] => k.string?.map (·, Parser.Bind.type 0)
      | Sexp.list [k, Sexp.str t] => k.string?.map (·, Parser.Bind.alias t)
      | _ => none
    match binds, n.string? with
    | some b, some name =>
      match Parser.resolveB b 10 name with
      | some _ => .list [.atom "ok"]
      | none => .list [.atom "err", .atom "ResolveError"]
    | _, _ => .list [.atom "bad-args"]
  | _ => .list [.atom "bad-op"]

partial def loop (h out : IO.FS.Stream) : IO Unit := do
  let line ← h.getLine
  if line.isEmpty then return ()
  let l := (line.dropEndWhile (fun c => c = '\n' || c = '\r')).toString
  match Sexp.parse l with
  | some s => out.putStrLn (toString (handle s))
  | none => out.putStrLn "(bad-line)"
  loop h out

def main : IO Unit := do
  let out ← IO.getStdout
  loop (← IO.getStdin) out
  out.flush
