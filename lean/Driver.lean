import CstructModel.Sexp
import CstructModel.Expr
open Cstruct

def pairs? (s : Sexp) : Option (List (String × Int)) :=
  match s with
  | .list l => l.mapM fun p => match p with
    | .list [k, v] => do some ((← k.string?), (← v.int?))
    | _ => none
  | _ => none

/-- sizeof table: `((name size) | (name err ClassName))*` -/
def sizeofTable? (s : Sexp) : Option (List (String × Except Expr.EErr Int)) :=
  match s with
  | .list l => l.mapM fun p => match p with
    | .list [k, .atom "dynamic"] => do some ((← k.string?), .error .typeErr)
    | .list [k, v] => do some ((← k.string?), .ok (← v.int?))
    | _ => none
  | _ => none

def mkEnv (ctx consts : List (String × Int)) (tbl : List (String × Except Expr.EErr Int)) : Expr.Env :=
  { ctx := ctx, consts := consts,
    sizeof := fun n => match tbl.find? (·.1 = n) with | some (_, r) => r | none => .error .resolve }

def exprResult : Except Expr.EErr Int → Sexp
  | .ok v => .list [.atom "ok", .atom (toString v)]
  | .error e => .list [.atom "err", .atom e.name]

def handle (s : Sexp) : Sexp :=
  match s with
  -- (tokenize "text")
  | .list [.atom "tokenize", .str t] =>
    match Expr.tokenize t with
    | .ok ts => .list (.atom "ok" :: ts.map .str)
    | .error e => .list [.atom "err", .atom e.name]
  -- (expr "text" ctx consts sizeofs ctx2): construct, evaluate with ctx, evaluate again with ctx2
  | .list [.atom "expr", .str t, ctx, consts, szs, ctx2] =>
    match pairs? ctx, pairs? consts, sizeofTable? szs, pairs? ctx2 with
    | some ctx, some consts, some tbl, some ctx2 =>
      match Expr.Obj.new t with
      | .error e => .list [.atom "err", .atom e.name]
      | .ok o =>
        let (o1, r1) := o.evaluate (mkEnv ctx consts tbl)
        let (o2, r2) := o1.evaluate (mkEnv ctx2 consts tbl)
        .list [.atom "res", exprResult r1, exprResult r2, .list (o2.tokens.map .str)]
    | _, _, _, _ => .list [.atom "bad-args"]
  | _ => .list [.atom "bad-op"]

partial def loop (h out : IO.FS.Stream) : IO Unit := do
  let line ← h.getLine
  if line.isEmpty then return ()
  let l := (line.dropEndWhile (fun c => c = '\n' || c = '\r')).toString
  match Sexp.parse l with
  | some s => out.putStrLn (toString (handle s))
  | none => out.putStrLn "(bad-line)"
  loop h out

def main : IO Unit := do
  let out ← IO.getStdout
  loop (← IO.getStdin) out
  out.flush
