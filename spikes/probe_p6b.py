from dissect.cstruct import cstruct
def tr(f):
    try: return f()
    except Exception as ex: return f"EXC {type(ex).__name__}: {ex}"
for d in ["flag F : uint16 { a, b, c = 0x10, d };", "flag F : uint16 { a, b, y = 1 };", "flag F : uint16 { a, b, e = 3, f };", "flag F : uint16 { z = 0, a, b };", "flag F : uint16 { a = 4, b, c = 1, d };", "flag F: uint8 { a = 0x80, b };"]:
    cs = cstruct(); cs.load(d)
    print(d, dict(cs.F.__members__))
    for v in (0, 1, 2, 3, 4, 0x13, 0xff, 0xffff):
        r = tr(lambda: cs.F(v)); 
        print("   ", v, r, (r.value, cs.F.dumps(r)) if not isinstance(r, str) else "", tr(lambda: cs.F(v.to_bytes(2,'little')) == cs.F(v)))
