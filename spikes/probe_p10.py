from dissect.cstruct import cstruct, dumpstruct
def tr(f):
    try: return f()
    except Exception as ex: return f"EXC {type(ex).__name__}: {ex}"
for comp in (False, True):
    cs = cstruct(); cs.load("struct V { uint8 a; void v; uint8 b; };", compiled=comp)
    o = cs.V(b"\x01\x02"); print(comp, o, o._sizes, repr(tr(lambda: dumpstruct(o, output="string")))[:80])
# union in struct, anonymous
cs = cstruct(); cs.load("struct W { uint8 a; union { uint16 x; uint8 y; }; struct { uint8 p; } n; uint8 e[2]; };")
o = cs.W(b"\x01\x02\x03\x04\x05\x06"); print(o, o._sizes); print(tr(lambda: dumpstruct(o, output="string", color=False)))
print(repr(tr(lambda: dumpstruct(o, output="string"))))
