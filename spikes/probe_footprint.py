"""Throw-away prototype of the shared-state write footprint extraction (DESIGN 5.1, Gen/Footprint)."""
import ast, pathlib, sys
ROOT = pathlib.Path("/repo/dissect/cstruct")
FILES = ["expression.py", "bitbuffer.py", "compiler.py", "types/base.py", "types/structure.py", "types/packed.py", "types/int.py", "types/char.py",
         "types/wchar.py", "types/leb128.py", "types/enum.py", "types/flag.py", "types/pointer.py", "types/void.py"]
MUT = {"append", "extend", "pop", "insert", "remove", "clear", "update", "setdefault", "popitem", "sort", "reverse", "add", "discard"}
def root_name(n):
    while isinstance(n, (ast.Attribute, ast.Subscript, ast.Call)):
        n = n.value if not isinstance(n, ast.Call) else n.func
    return n.id if isinstance(n, ast.Name) else None
def chain(n):
    parts = []
    while isinstance(n, (ast.Attribute, ast.Subscript)):
        parts.append(n.attr if isinstance(n, ast.Attribute) else "[]"); n = n.value
    if isinstance(n, ast.Name): parts.append(n.id)
    return ".".join(reversed(parts))
for f in FILES:
    tree = ast.parse((ROOT / f).read_text())
    for cls in [n for n in ast.walk(tree) if isinstance(n, ast.ClassDef)] + [tree]:
        for fn in [n for n in (cls.body if hasattr(cls, "body") else []) if isinstance(n, ast.FunctionDef)]:
            params = [a.arg for a in fn.args.args]
            recv = params[0] if params and isinstance(cls, ast.ClassDef) else None
            locals_ = set()
            for n in ast.walk(fn):
                if isinstance(n, (ast.Assign, ast.AnnAssign, ast.AugAssign, ast.NamedExpr)):
                    tg = n.targets if isinstance(n, ast.Assign) else [n.target]
                    for t in tg:
                        if isinstance(t, ast.Name): locals_.add(t.id)
            out = []
            for n in ast.walk(fn):
                tgts = []
                if isinstance(n, ast.Assign): tgts = n.targets
                elif isinstance(n, (ast.AugAssign, ast.AnnAssign)): tgts = [n.target]
                for t in tgts:
                    for tt in (t.elts if isinstance(t, ast.Tuple) else [t]):
                        if isinstance(tt, (ast.Attribute, ast.Subscript)):
                            r = root_name(tt)
                            kind = "recv" if r == recv else ("param" if r in params else ("local" if r in locals_ else "global"))
                            out.append((n.lineno, "store", chain(tt), kind))
                if isinstance(n, ast.Call) and isinstance(n.func, ast.Attribute) and n.func.attr in MUT:
                    r = root_name(n.func.value)
                    if isinstance(n.func.value, (ast.Attribute, ast.Subscript)):
                        kind = "recv" if r == recv else ("param" if r in params else ("local" if r in locals_ else "global"))
                        out.append((n.lineno, n.func.attr, chain(n.func.value), kind))
                if isinstance(n, ast.Call) and isinstance(n.func, ast.Name) and n.func.id in ("setattr",) or (isinstance(n, ast.Call) and isinstance(n.func, ast.Attribute) and n.func.attr == "__setattr__"):
                    out.append((n.lineno, "setattr", ast.unparse(n)[:60], "?"))
                if isinstance(n, (ast.Global, ast.Nonlocal)): out.append((n.lineno, "global/nonlocal", ",".join(n.names), "-"))
            decos = [ast.unparse(d) for d in fn.decorator_list]
            if out or any("cache" in d for d in decos):
                print(f"{f}:{getattr(cls, 'name', '<module>')}.{fn.name} recv={recv} decorators={decos}")
                for o in out: print("     ", o)
