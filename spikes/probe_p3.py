import io, traceback, ast
from dissect.cstruct import cstruct, Expression, dumpstruct, hexdump
def sec(t): print("\n#####", t)
def tr(f):
    try: return f()
    except Exception as ex: return f"EXC {type(ex).__name__}: {ex}"

sec("C13 star spacing")
for d in ["struct S { char **a; };", "struct S { char * *a; };", "struct S { char* * a; };", "struct S { char ** a; };", "struct S { char\n*a; };"]:
    cs = cstruct(); r = tr(lambda: cs.load(d)); print(repr(d), r if isinstance(r,str) else cs.S.fields["a"].type.__name__)

sec("C13 comments")
for d in ["struct S { uint8 a; /* x */ uint8 b; };", "struct S { uint8 a; // it's\n uint8 b; };", "struct S { uint8 /* c */ a /* d */ ; uint8 b /*e*/ : /*f*/ 3; };",
          "struct /*a*/ S /*b*/ { uint8 a; } /*c*/ ;", "typedef /*x*/ struct { uint8 a; } /*y*/ T1 /*z*/ , T2;", "enum /*a*/ E /*b*/ : /*c*/ uint8 /*d*/ { A /*e*/ = /*f*/ 1, /*g*/ B } /*h*/ ;\nstruct S { E a; };",
          "#define A 1 /* c */\nstruct S { uint8 a[A]; };", "#define A 1 // c\nstruct S { uint8 a[A]; };", "struct S { uint8 a[/*c*/2]; };", "struct S { uint8 a [2]; };", "struct S { uint8 a[2] [3]; };",
          "struct S { unsigned /*c*/ int a; };", "struct S { unsigned\nint a; };", "struct S{uint8 a;};", "struct S { uint8 a:3; uint8 b : 5; uint8 c\n:\n8; };", "struct S { uint8 a; }\n;", 
          "struct S { struct { uint8 a; } /*x*/ ; };", "struct S { struct { uint8 a; } x /*x*/ [2] ; };", "struct S { uint8 a; } ; // trailing", "/* lead */ struct S { uint8 a; };"]:
    cs = cstruct(); r = tr(lambda: cs.load(d))
    print(repr(d), "->", r if isinstance(r,str) else {n:[(f._name, f.type.__name__, f.bits) for f in t.__fields__] for n,t in cs.typedefs.items() if hasattr(t,"__fields__")}, {k:v for k,v in cs.consts.items()} or "")

sec("C13 alias")
cs = cstruct(); cs.load("typedef uint32 A; typedef A B; typedef B C;"); print(cs.A is cs.uint32, cs.C is cs.uint32)
print(tr(lambda: cs.load("typedef uint16 A;")), tr(lambda: cs.load("typedef uint32 A;") and "ok"))
cs = cstruct(); cs.add_type("x", "y"); cs.add_type("y", "x"); print(tr(lambda: cs.resolve("x")), tr(lambda: cs.resolve("nope")))
cs = cstruct(); print(tr(lambda: cs.load("struct S { foo a; };")))
