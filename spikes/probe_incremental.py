"""Throw-away probe for C18: one-shot vs incrementally built structures."""
import io, random, sys, collections
from dissect.cstruct import cstruct, compiler
from dissect.cstruct.types.structure import Field
sys.path.insert(0, "/verif/spikes")
from probe_random_diff import gen_fields, counter, PRE, canon

def sig(T):
    return (T.size, T.alignment, T.dynamic, T.__compiled__, tuple((f._name, f.offset, f.bits, f.alignment) for f in T.__fields__), tuple(T.fields), tuple(T.lookup))

def main(seed, iters):
    rnd = random.Random(seed); buckets = collections.Counter(); ex = {}
    for it in range(iters):
        d = PRE + "struct T { " + " ".join(gen_fields(rnd, 1, counter())) + " };"
        for align in (False, True):
            for comp in (False, True):
                cs = cstruct()
                try: cs.load(d, compiled=comp, align=align)
                except Exception: continue
                base = [(f.name, f.type, f.bits) for f in cs.T.__fields__]
                one = cs._make_struct("O", [Field(n, t, b) for n, t, b in base], align=align)
                if comp: one = compiler.compile(one)
                inc = cs._make_struct("I", [], align=align)
                if comp: inc = compiler.compile(inc)
                i = 0
                try:
                    while i < len(base):
                        k = rnd.randint(1, 3)
                        if k == 1:
                            inc.add_field(*base[i]); i += 1
                        else:
                            with inc.start_update():
                                for n, t, b in base[i:i + k]: inc.add_field(n, t, b)
                            i += k
                except Exception as e:
                    buckets[f"inc-exc:{type(e).__name__}:{str(e)[:40]}"] += 1; ex.setdefault(f"inc-exc:{type(e).__name__}:{str(e)[:40]}", (d, align, comp)); continue
                key = None
                if sig(one)[:5] != sig(inc)[:5] or sig(cs.T)[:5] != sig(one)[:5]:
                    key = "sig"
                else:
                    data = bytes(rnd.randrange(256) if rnd.random() < .5 else 0 for _ in range(300))
                    rs = []
                    for T in (one, inc, cs.T):
                        try:
                            f = io.BytesIO(data); v = T(f); rs.append((canon(v)[1:], f.tell(), v.dumps()))
                        except Exception as e:
                            rs.append(("exc", type(e).__name__))
                    if not (rs[0] == rs[1] == rs[2]): key = "behaviour"
                if key:
                    buckets[key] += 1
                    if key not in ex or len(d) < len(ex[key][0]): ex[key] = (d, align, comp, sig(one)[:5], sig(inc)[:5], sig(cs.T)[:5])
    print(buckets)
    for k, v in ex.items(): print(k, "\n   ", *[str(x)[:300] for x in v], sep="\n    ")
main(int(sys.argv[1]), int(sys.argv[2]))
