import io
from dissect.cstruct import cstruct
def tr(f):
    try: return f()
    except Exception as ex: return f"EXC {type(ex).__name__}: {ex}"
for d, al in [("struct T { uint32 a; char b; };", False), ("struct T { uint8 a; char b; };", False), ("struct T { uint8 a; uint16 b; };", True), ("struct T { uint32 a; char b[2]; };", False), ("struct T { char b; uint32 a; };", False),
              ("struct T { struct { uint8 x; } s; uint32 b; };", True), ("struct T { uint8 x:3; uint32 b; };", True), ("struct T { uint8 a[3]; uint32 b; };", True), ("struct T { struct { uint8 x; } s[1]; uint32 b; };", True)]:
    for comp in (False, True):
        cs = cstruct(); cs.load(d, compiled=comp, align=al)
        f = io.BytesIO(bytes(range(1, 30))); r = tr(lambda: cs.T(f))
        print(d, "align" if al else "", comp, cs.T.__compiled__, r, f.tell())
