import io
from dissect.cstruct import cstruct
def tr(f):
    try: return f()
    except Exception as ex: return f"EXC {type(ex).__name__}: {ex}"
for comp in (False, True):
    cs = cstruct(); cs.load("struct T { int8 f1 : 3; double f2; };", compiled=comp, align=True)
    data = bytes(range(1, 40))
    v = cs.T(data); out = v.dumps(); v2 = cs.T(out)
    print(comp, cs.T.size, [(f._name, f.offset) for f in cs.T.__fields__], v, out.hex(), v2)
    if comp: print(cs.T._read.__func__.__source__)
for comp in (False, True):
    cs = cstruct(); cs.load("struct T { uint8 a; uint16 b[0]; };", compiled=comp)
    print(comp, cs.T.__compiled__, tr(lambda: cs.T(b"\x01\x02\x03")))
    if comp: print(cs.T._read.__func__.__source__)
for comp in (False, True):
  for align in (False, True):
    cs = cstruct(); cs.load("struct T { char f0[]; uint8 f1[]; uint8 f2; uint48 f3; };", compiled=comp, align=align)
    data = b"ab\x00\x01\x02\x00" + bytes(range(10, 40))
    f = io.BytesIO(data); v = cs.T(f); used = f.tell(); out = v.dumps()
    print(comp, align, v, used, len(out), out.hex(), tr(lambda: cs.T(out)))
