import io, traceback, ast, itertools, ctypes
from dissect.cstruct import cstruct, Expression
def sec(t): print("\n#####", t)
def tr(f):
    try: return f()
    except Exception as ex: return f"EXC {type(ex).__name__}: {ex}"

sec("C09 offset independence")
d = """struct I { uint8 a; uint16 b; };
struct S { uint8 a; uint32 b; I i[2]; union { uint16 x; uint8 y[3]; } u; uint8 t:3; uint8 v:5; uint8 n; uint16 arr[n]; char s[]; I j; };"""
data = bytes([1, 2,3,4,5, 6,7,8, 9,10,11, 12,13,14, 0xAB, 2, 20,21,22,23, 65,66,0, 1,2,3]) + bytes([3,1,4,1,5,9,2,6,5,3,5,8,9,7,9,3,2,3,8,4,6,2,6,4,3,3,8,3,2,7,9,5,0,2,8,8,4,1,9,7,1,6,9,3,9,9,3,7,5,1,0])*8
for align in (False, True):
  for comp in (False, True):
    cs = cstruct(); cs.load(d, compiled=comp, align=align)
    base = cs.S(data); 
    f = io.BytesIO(data); cs.S(f); used = f.tell()
    res = []
    for p in (0, 1, 3, 4, 8, 16):
        f = io.BytesIO(b"\xEE"*p + data)
        f.seek(p)
        r = tr(lambda: cs.S(f))
        res.append((p, r == base if not isinstance(r,str) else r, f.tell() - p))
    print(align, comp, used, res)

sec("C06 bitfields")
for endian in "<>":
  for comp in (False, True):
    cs = cstruct(endian=endian)
    cs.load("struct B { uint16 a:3; uint16 b:5; uint16 c:8; uint8 d:1; uint32 e:31; uint32 f:1; uint32 g:1; uint8 h; uint16 i:4; uint32 j:4; };", compiled=comp)
    v = cs.B(bytes(range(0x81, 0x81+20)))
    print(endian, comp, cs.B.size, v, v.dumps().hex())
print(tr(lambda: cstruct().load("struct B { uint8 a:5; uint8 b:5; };")))
print(tr(lambda: cstruct().load("struct B { uint8 a:9; };")))
print(tr(lambda: cstruct().load("struct B { uint8 a:0; uint8 b:8; };") and "ok"))

sec("C07 arrays")
cs = cstruct()
cs.load("struct E { uint8 a; uint8 b; }; enum En : uint8 { Z=0, A=1 }; struct D { uint8 a[2][3]; };")
print(cs.D(bytes(range(6))).a, cs.D.fields['a'].type.__name__)
for T, data in [(cs.uint16, b"\x01\x00\x02\x00\x00\x00\x09"), (cs.char, b"ab\x00c"), (cs.wchar, b"a\x00b\x00\x00\x00c"), (cs.En, b"\x01\x05\x00\x07"), (cs.uleb128, b"\x81\x01\x05\x00\x07"), (cs.E, b"\x01\x00\x00\x02\x00\x00\x09"), (cs.int24, b"\x01\x00\x00\x00\x00\x00\x09"), (cs.float, b"\x00\x00\x80\x3f\x00\x00\x00\x00\x01")]:
    f = io.BytesIO(data); v = tr(lambda: T[None]._read(f)); print(T.__name__, v, f.tell(), tr(lambda: T[None].dumps(v)))
from dissect.cstruct.types.base import EOF
cs.load("struct X { uint16 a[EOF]; }; struct Y { uint8 n; uint8 a[n - 3]; uint8 z; }; struct W { char c[EOF]; }; struct V { E e[EOF]; }; struct Q { wchar w[EOF]; }; struct R { int24 w[EOF]; };")
print(tr(lambda: cs.X(b"\x01\x00\x02\x00")), tr(lambda: cs.X(b"\x01\x00\x02")), cs.Y(b"\x01\x07"), tr(lambda: cs.V(b"\x01\x00\x02")), tr(lambda: cs.Q(b"a\x00b")), tr(lambda: cs.R(b"a\x00b1")))
print(tr(lambda: cs.uint8[3].dumps([1,2])), tr(lambda: cs.char[3].dumps(b"ab")), tr(lambda: cs.E[2].dumps([cs.E(a=1)])), tr(lambda: cs.uint8[2][2].dumps([[1,2],[3]])))
