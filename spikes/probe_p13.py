from dissect.cstruct import cstruct
def tr(f):
    try: return f()
    except Exception as ex: return f"EXC {type(ex).__name__}: {ex}"
# C17 odd field names
for nm in ["self", "cls", "any", "hash", "__class__", "_values", "_sizes", "dumps", "size", "fields", "type", "class", "None", "other"]:
    cs = cstruct()
    r = tr(lambda: cs.load(f"struct S {{ uint8 {nm}; uint8 z; }};"))
    if isinstance(r, str): print(nm, "LOAD", r); continue
    S = cs.S
    a = tr(lambda: S(b"\x01\x02")); b = tr(lambda: S(**{nm: 1, "z": 2})); 
    print(nm, "|parse:", tr(lambda: repr(a)), "|kw:", tr(lambda: repr(b)), "|eq:", tr(lambda: a == b), "|hash:", tr(lambda: hash(a) == hash(b)), "|bool:", tr(lambda: bool(S())), "|dumps:", tr(lambda: a.dumps()))
