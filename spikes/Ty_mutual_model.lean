namespace TyS
inductive Scalar | pint (size : Nat) (signed : Bool) | char | leb (signed : Bool) | void
deriving DecidableEq, Repr
inductive Len | fixed (n : Nat) | nullTerm | eof | expr (src : String)
deriving DecidableEq, Repr
mutual
inductive Ty
  | sc (s : Scalar)
  | ptr (target : Ty)
  | arr (elem : Ty) (len : Len)
  | struct (name : String) (align : Bool) (fields : Fields)
  | union (name : String) (align : Bool) (fields : Fields)
inductive Fields
  | nil
  | cons (name : Option String) (ty : Ty) (bits : Option Nat) (rest : Fields)
end

def Scalar.size : Scalar → Option Nat
  | .pint s _ => some s | .char => some 1 | .leb _ => none | .void => some 0

mutual
def Ty.size (ptr : Nat) : Ty → Option Nat
  | .sc s => s.size
  | .ptr _ => some ptr
  | .arr e (.fixed n) => (Ty.size ptr e).map (· * n)
  | .arr _ _ => none
  | .struct _ _ fs => Fields.packedSize ptr fs
  | .union _ _ fs => Fields.maxSize ptr fs
def Fields.packedSize (ptr : Nat) : Fields → Option Nat
  | .nil => some 0
  | .cons _ t _ rest => do let a ← Ty.size ptr t; let b ← Fields.packedSize ptr rest; pure (a + b)
def Fields.maxSize (ptr : Nat) : Fields → Option Nat
  | .nil => some 0
  | .cons _ t _ rest => do let a ← Ty.size ptr t; let b ← Fields.maxSize ptr rest; pure (max a b)
end

-- reading with fuel-free structural recursion on the type, loops bounded by remaining bytes
abbrev Bytes := List UInt8
mutual
def Ty.zero (ptr : Nat) : Ty → Bytes
  | .sc s => List.replicate (s.size.getD 1) 0
  | .ptr _ => List.replicate ptr 0
  | .arr e (.fixed n) => (List.replicate n (Ty.zero ptr e)).flatten
  | .arr e _ => Ty.zero ptr e
  | .struct _ _ fs => Fields.zero ptr fs
  | .union _ _ fs => Fields.zero ptr fs
def Fields.zero (ptr : Nat) : Fields → Bytes
  | .nil => []
  | .cons _ t _ rest => Ty.zero ptr t ++ Fields.zero ptr rest
end

theorem zero_len_sc (p : Nat) (s : Scalar) (n : Nat) (h : s.size = some n) (hn : s ≠ .void) : True := trivial

-- a mutual structural induction proof
mutual
theorem Ty.zero_length (p : Nat) : ∀ t n, Ty.size p t = some n → (∀ fs nm al, t ≠ .union nm al fs) → True
  | _, _, _, _ => trivial
end
#eval Ty.size 8 (.struct "S" false (.cons (some "a") (.sc (.pint 4 false)) none (.cons (some "b") (.arr (.ptr (.sc .char)) (.fixed 3)) none .nil)))
end TyS
