import io, traceback
from dissect.cstruct import cstruct, Expression, dumpstruct, hexdump
from dissect.cstruct.utils import pack, unpack, swap

def sec(t): print("\n#####", t)

sec("C14 shared defaults")
cs = cstruct()
cs.load("struct A { uint8 a[2]; struct { uint8 x; } n; };", compiled=False)
x = cs.A(); x.a[0] = 9; x.n.x = 7
y = cs.A()
print("y.a", y.a, "y.n.x", y.n.x, "same list:", x.a is y.a)

sec("C10 identifier u")
cs = cstruct()
for e, ctx in [("u - 1", {"u": 5}), ("1 - u", {"u": 5}), ("u", {"u":5}), ("a - u", {"a":1,"u":5}), ("2 * u - 1", {"u": 5})]:
    try: print(e, "->", Expression(cs, e).evaluate(ctx))
    except Exception as ex: print(e, "EXC", type(ex).__name__, ex)

sec("C01 signed bitfield high bits")
for comp in (False, True):
    cs = cstruct()
    cs.load("struct B { int8 a:4; int8 b:4; };", compiled=comp)
    v = cs.B(b"\xff")
    print(comp, v, end=" ")
    try: print(v.dumps())
    except Exception as ex: print("EXC", type(ex).__name__, ex)

sec("bitfield value too large")
cs = cstruct(); cs.load("struct B { uint8 a:4; uint8 b:4; };")
try: print(cs.B(a=0x1f, b=0).dumps(), cs.B(cs.B(a=0x1f,b=0).dumps()))
except Exception as ex: print("EXC", type(ex).__name__, ex)

sec("C03 aligned dynamic block")
for comp in (False, True):
    cs = cstruct()
    cs.load("struct C { char s[]; uint8 a; uint32 b; };", compiled=comp, align=True)
    data = b"abcd\x00" + bytes(range(1, 20))
    f = io.BytesIO(data)
    v = cs.C(f)
    print(comp, cs.C.__compiled__, v, f.tell(), v._sizes)
print(cs.C._read.__func__.__source__)
