/-! Feasibility spike: reduced read/write model over mutual Ty/Fields with alignment padding,
    round-trip and window (frame) lemma by mutual structural induction. -/
namespace RW

abbrev Bytes := List UInt8

def toLE : Nat → Nat → Bytes
  | 0, _ => []
  | n+1, v => UInt8.ofNat (v % 256) :: toLE n (v / 256)

def fromLE : Bytes → Nat
  | [] => 0
  | b :: bs => b.toNat + 256 * fromLE bs

theorem toLE_length (n v : Nat) : (toLE n v).length = n := by
  induction n generalizing v with
  | zero => rfl
  | succ n ih => simp [toLE, ih]

theorem fromLE_toLE (n v : Nat) (h : v < 256 ^ n) : fromLE (toLE n v) = v := by
  induction n generalizing v with
  | zero => simp at h; simp [toLE, fromLE, h]
  | succ n ih =>
    simp only [toLE, fromLE]
    have h1 : v / 256 < 256 ^ n := by
      rw [Nat.div_lt_iff_lt_mul (by decide)]; rw [Nat.pow_succ] at h; exact h
    rw [ih _ h1]
    have : (UInt8.ofNat (v % 256)).toNat = v % 256 := by
      simp [UInt8.toNat_ofNat']
    rw [this]; omega

mutual
inductive Ty | int (size : Nat) | arr (elem : Ty) (n : Nat) | struct (fs : Fields)
inductive Fields | nil | cons (name : String) (ty : Ty) (rest : Fields)
end

mutual
inductive Val | int (v : Nat) | list (vs : Vals) | record (fs : Vals)
inductive Vals | nil | cons (v : Val) (rest : Vals)
end

def pad (o a : Nat) : Nat := (a - o % a) % a

mutual
def Ty.align : Ty → Nat
  | .int s => if s = 0 then 1 else s
  | .arr e _ => e.align
  | .struct fs => fs.align
def Fields.align : Fields → Nat
  | .nil => 1
  | .cons _ t r => max t.align r.align
end

-- write: returns the bytes; `off` = current offset inside the enclosing struct (for padding)
mutual
def write : Ty → Val → Option Bytes
  | .int s, .int v => if v < 256 ^ s then some (toLE s v) else none
  | .arr e n, .list vs => writeN e n vs
  | .struct fs, .record vs => do
      let body ← writeFields fs 0 vs
      pure (body ++ List.replicate (pad body.length fs.align) 0)
  | _, _ => none
def writeN : Ty → Nat → Vals → Option Bytes
  | _, 0, .nil => some []
  | e, n+1, .cons v vs => do let a ← write e v; let b ← writeN e n vs; pure (a ++ b)
  | _, _, _ => none
def writeFields : Fields → Nat → Vals → Option Bytes
  | .nil, _, .nil => some []
  | .cons _ t r, off, .cons v vs => do
      let p := pad off t.align
      let a ← write t v
      let b ← writeFields r (off + p + a.length) vs
      pure (List.replicate p 0 ++ a ++ b)
  | _, _, _ => none
end

-- read: consumes from the front, returns value and rest
mutual
def read : Ty → Bytes → Option (Val × Bytes)
  | .int s, bs => if bs.length < s then none else some (.int (fromLE (bs.take s)), bs.drop s)
  | .arr e n, bs => (readN e n bs).map fun (vs, r) => (.list vs, r)
  | .struct fs, bs => do
      let (vs, used, r) ← readFields fs 0 bs
      let p := pad used fs.align
      if r.length < p then none else pure (.record vs, r.drop p)
def readN : Ty → Nat → Bytes → Option (Vals × Bytes)
  | _, 0, bs => some (.nil, bs)
  | e, n+1, bs => do let (v, r) ← read e bs; let (vs, r') ← readN e n r; pure (.cons v vs, r')
def readFields : Fields → Nat → Bytes → Option (Vals × Nat × Bytes)
  | .nil, off, bs => some (.nil, off, bs)
  | .cons _ t r, off, bs => do
      let p := pad off t.align
      if bs.length < p then none else
      let (v, rest) ← read t (bs.drop p)
      let used := (bs.length - p) - rest.length
      let (vs, off', rest') ← readFields r (off + p + used) rest
      pure (.cons v vs, off', rest')
end

def exTy : Ty := .struct (.cons "a" (.int 1) (.cons "b" (.int 4) (.cons "c" (.arr (.int 2) 2) .nil)))
def exVal : Val := .record (.cons (.int 7) (.cons (.int 0x01020304) (.cons (.list (.cons (.int 5) (.cons (.int 6) .nil))) .nil)))
#eval write exTy exVal
#eval (write exTy exVal).bind fun bs => (read exTy (bs ++ [9, 9])).map (·.2)


theorem bind_some {α β} {o : Option α} {f : α → Option β} {b : β} (h : o.bind f = some b) :
    ∃ a, o = some a ∧ f a = some b := by
  cases o with
  | none => simp at h
  | some a => exact ⟨a, rfl, h⟩

mutual
theorem rt : ∀ (t : Ty) (v : Val) (bs rest : Bytes), write t v = some bs →
    read t (bs ++ rest) = some (v, rest)
  | .int s, v, bs, rest, h => by
    cases v with
    | int n =>
      simp only [write] at h
      split at h
      · rename_i hlt
        simp only [Option.some.injEq] at h; subst h
        have hl := toLE_length s n
        simp only [read]
        have : ¬ ((toLE s n ++ rest).length < s) := by simp [hl]
        simp only [this, if_false]
        rw [List.take_left' hl, List.drop_left' hl, fromLE_toLE s n hlt]
      · simp at h
    | list _ => simp [write] at h
    | record _ => simp [write] at h
  | .arr e n, v, bs, rest, h => by
    cases v with
    | list vs =>
      simp only [write] at h
      simp only [read, rtN e n vs bs rest h, Option.map_some]
    | int _ => simp [write] at h
    | record _ => simp [write] at h
  | .struct fs, v, bs, rest, h => by
    cases v with
    | record vs =>
      simp only [write, bind, pure] at h
      obtain ⟨body, hb, h2⟩ := bind_some h
      simp only [Option.some.injEq] at h2; subst h2
      simp only [read, bind, pure]
      have := rtF fs 0 vs body (List.replicate (pad body.length fs.align) 0 ++ rest) hb
      rw [List.append_assoc, this]
      simp [Option.bind]
    | int _ => simp [write] at h
    | list _ => simp [write] at h
theorem rtN : ∀ (e : Ty) (n : Nat) (vs : Vals) (bs rest : Bytes), writeN e n vs = some bs →
    readN e n (bs ++ rest) = some (vs, rest)
  | e, 0, vs, bs, rest, h => by
    cases vs with
    | nil => simp [writeN] at h; subst h; simp [readN]
    | cons _ _ => simp [writeN] at h
  | e, n+1, vs, bs, rest, h => by
    cases vs with
    | nil => simp [writeN] at h
    | cons v vs =>
      simp only [writeN, bind, pure] at h
      obtain ⟨a, ha, h1⟩ := bind_some h
      obtain ⟨b, hb, h2⟩ := bind_some h1
      simp only [Option.some.injEq] at h2; subst h2
      simp only [readN, bind, pure]
      rw [List.append_assoc, rt e v a (b ++ rest) ha]
      simp only [Option.bind]
      rw [rtN e n vs b rest hb]
theorem rtF : ∀ (fs : Fields) (off : Nat) (vs : Vals) (bs rest : Bytes), writeFields fs off vs = some bs →
    readFields fs off (bs ++ rest) = some (vs, off + bs.length, rest)
  | .nil, off, vs, bs, rest, h => by
    cases vs with
    | nil => simp [writeFields] at h; subst h; simp [readFields]
    | cons _ _ => simp [writeFields] at h
  | .cons nm t r, off, vs, bs, rest, h => by
    cases vs with
    | nil => simp [writeFields] at h
    | cons v vs =>
      simp only [writeFields, bind, pure] at h
      obtain ⟨a, ha, h1⟩ := bind_some h
      obtain ⟨b, hb, h2⟩ := bind_some h1
      simp only [Option.some.injEq] at h2; subst h2
      simp only [readFields, bind, pure]
      have hlen : ¬ ((List.replicate (pad off t.align) (0:UInt8) ++ a ++ b ++ rest).length < pad off t.align) := by
        simp
      simp only [hlen, if_false]
      have hdrop : (List.replicate (pad off t.align) (0:UInt8) ++ a ++ b ++ rest).drop (pad off t.align) = a ++ (b ++ rest) := by
        rw [List.append_assoc, List.append_assoc, List.drop_left' (by simp)]
      rw [hdrop, rt t v a (b ++ rest) ha]
      simp only [Option.bind]
      have hused : (List.replicate (pad off t.align) (0:UInt8) ++ a ++ b ++ rest).length - pad off t.align - (b ++ rest).length = a.length := by
        simp only [List.length_append, List.length_replicate]; omega
      rw [hused, rtF r (off + pad off t.align + a.length) vs b rest hb]
      simp; omega
end

#print axioms rt

end RW
