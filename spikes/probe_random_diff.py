"""Throw-away randomized differential probe used while writing DESIGN.md.

Generates random structure definitions (as trees rendered to C text), loads them compiled and
interpreted, packed and aligned, little and big endian, and checks on random bytes:
  C03  compiled == interpreted (value, _sizes on byte-occupying fields, consumed)
  C01  T(dumps(v)) == v and consumed == len(dumps(v))
  C02  len(dumps(parse(x))) == consumed
  C08  every cut point raises EOFError or returns the same value
Failures are bucketed by a coarse signature so that distinct behaviours can be counted.
"""
from __future__ import annotations

import collections
import io
import random
import sys
import traceback

from dissect.cstruct import cstruct

SCALARS = ["uint8", "int8", "uint16", "int16", "uint32", "int32", "uint64", "int64", "uint24", "int24",
           "uint48", "int128", "char", "wchar", "float", "double", "float16"]
BITTYPES = ["uint8", "uint16", "uint32", "uint64", "E8", "F16"]
PRE = "enum E8 : uint8 { A = 1, B, C = 7 };\nflag F16 : uint16 { X, Y, Z = 0x100 };\n"


def gen_fields(rnd, depth, names, allow_dyn=True):
    n = rnd.randint(1, 6)
    out = []
    int_fields = []
    i = 0
    while i < n:
        nm = f"f{next(names)}"
        k = rnd.random()
        if k < 0.30:
            t = rnd.choice(SCALARS)
            out.append(f"{t} {nm};")
            if t in ("uint8",):
                int_fields.append(nm)
        elif k < 0.42:
            t = rnd.choice(SCALARS + ["E8", "F16"])
            dims = "".join(f"[{rnd.randint(0, 3)}]" for _ in range(rnd.randint(1, 2)))
            out.append(f"{t} {nm}{dims};")
        elif k < 0.57:
            t = rnd.choice(BITTYPES)
            width = {"uint8": 8, "int8": 8, "E8": 8, "uint16": 16, "int16": 16, "F16": 16, "uint32": 32, "int32": 32, "uint64": 64}[t]
            left = width
            for _ in range(rnd.randint(1, 4)):
                if left == 0:
                    break
                b = rnd.randint(1, min(left, 9))
                out.append(f"{t} f{next(names)} : {b};")
                left -= b
        elif k < 0.67 and depth > 0:
            inner = gen_fields(rnd, depth - 1, names, allow_dyn=False)
            kind = rnd.choice(["struct", "struct", "union"])
            arr = rnd.choice(["", "", "[2]"])
            anon = rnd.random() < 0.25 and not arr
            out.append(f"{kind} {{ {' '.join(inner)} }}{'' if anon else ' ' + nm + arr};")
        elif k < 0.75:
            out.append(f"{rnd.choice(['uint8', 'uint32', 'char', 'E8'])} *{nm};")
        elif k < 0.80:
            out.append(f"E8 {nm};")
        elif k < 0.84:
            out.append(f"void {nm};")
        elif allow_dyn and k < 0.92:
            if int_fields and rnd.random() < 0.6:
                ref = rnd.choice(int_fields)
                expr = rnd.choice([f"{ref} & 3", f"({ref} & 1) + 1", f"{ref} % 4", f"{ref} & 3 - 1"])
                out.append(f"{rnd.choice(['uint8', 'uint16', 'char', 'wchar', 'uint24', 'E8'])} {nm}[{expr}];")
            else:
                out.append(f"uint8 {nm}; ")
                int_fields.append(nm)
        elif allow_dyn and k < 0.97:
            out.append(f"{rnd.choice(['char', 'wchar', 'uint16', 'uint8', 'uleb128', 'E8', 'int24'])} {nm}[];")
        elif allow_dyn:
            out.append(f"{rnd.choice(['uleb128', 'ileb128'])} {nm};")
        else:
            out.append(f"uint8 {nm};")
        i += 1
    return out


def counter():
    i = 0
    while True:
        yield i
        i += 1


def canon(v):
    from dissect.cstruct import Structure, Pointer
    from enum import Enum
    import struct as _s
    if isinstance(v, Structure):
        return ("rec", tuple((f._name, canon(getattr(v, f._name))) for f in v.__class__.__fields__))
    if isinstance(v, Pointer):
        return ("ptr", int(v))
    if isinstance(v, Enum):
        return ("enum", v.value)
    if isinstance(v, float):
        return ("flt", _s.pack("<d", v))
    if isinstance(v, list):
        return ("list", tuple(canon(x) for x in v))
    if isinstance(v, int):
        return ("int", int(v))
    if isinstance(v, bytes):
        return ("bytes", bytes(v))
    if isinstance(v, str):
        return ("str", str(v))
    return ("other", repr(type(v)))


def has_nan(c):
    import math, struct as _s
    if isinstance(c, tuple):
        if len(c) == 2 and c[0] == "flt":
            return math.isnan(_s.unpack("<d", c[1])[0])
        return any(has_nan(x) for x in c)
    return False


def main(seed, iters):
    rnd = random.Random(seed)
    buckets = collections.Counter()
    examples = {}

    def report(kind, d, cfg, detail):
        key = kind
        buckets[key] += 1
        if key not in examples or len(d) < len(examples[key][0]):
            examples[key] = (d, cfg, detail)

    for it in range(iters):
        names = counter()
        d = PRE + "struct T { " + " ".join(gen_fields(rnd, 2, names)) + " };"
        data = bytes(rnd.choice([0, 0, 1, 2, 3, 0x7F, 0x80, 0xFF, rnd.randrange(256)]) for _ in range(400))
        for endian in "<>":
            for align in (False, True):
                res = {}
                for comp in (False, True):
                    cfg = (endian, align, comp)
                    try:
                        cs = cstruct(endian=endian)
                        cs.load(d, compiled=comp, align=align)
                    except Exception as e:
                        res[comp] = ("LOADERR", type(e).__name__)
                        report(f"load:{type(e).__name__}:{str(e)[:40]}", d, cfg, "")
                        continue
                    T = cs.T
                    f = io.BytesIO(data)
                    try:
                        v = T(f)
                        used = f.tell()
                        res[comp] = ("ok", canon(v), used, {k: s for k, s in v._sizes.items() if s})
                    except Exception as e:
                        res[comp] = ("err", type(e).__name__)
                        continue
                    if has_nan(res[comp][1]):
                        continue
                    # C01/C02
                    try:
                        out = v.dumps()
                    except Exception as e:
                        report(f"dumps:{type(e).__name__}:{str(e)[:50]}", d, cfg, "")
                        continue
                    if len(out) != used:
                        report("C02:len(dumps)!=consumed", d, cfg, (len(out), used))
                    try:
                        f2 = io.BytesIO(out)
                        v2 = T(f2)
                        if canon(v2) != canon(v) or f2.tell() != len(out):
                            report("C01:roundtrip-differs", d, cfg, (str(v)[:200], str(v2)[:200]))
                    except Exception as e:
                        report(f"C01:reparse:{type(e).__name__}", d, cfg, str(e)[:80])
                    # C08 cut points (sample)
                    for k in sorted(set([0, 1, used // 2, used - 1]) & set(range(used))):
                        try:
                            vk = T(data[:k])
                            if canon(vk) != canon(v):
                                report("C08:fabricated", d, cfg, k)
                        except EOFError:
                            pass
                        except Exception as e:
                            report(f"C08:other-exc:{type(e).__name__}", d, cfg, (k, str(e)[:60]))
                if False in res and True in res and res[False] != res[True]:
                    a, b = res[False], res[True]
                    if a[0] == b[0] == "ok":
                        what = "value" if a[1] != b[1] else ("consumed" if a[2] != b[2] else "sizes")
                    else:
                        what = f"{a[0]}/{b[0]}:{a[1] if a[0] != 'ok' else ''}/{b[1] if b[0] != 'ok' else ''}"
                    report(f"C03:{what}", d, (endian, align), (str(a)[:300], str(b)[:300]))
    print("seed", seed, "iters", iters)
    for k, n in buckets.most_common():
        print(f"{n:6d}  {k}")
        d, cfg, detail = examples[k]
        print("        ", cfg, d.replace(PRE, "").strip()[:400])
        print("        ", str(detail)[:400])


if __name__ == "__main__":
    main(int(sys.argv[1]) if len(sys.argv) > 1 else 0, int(sys.argv[2]) if len(sys.argv) > 2 else 300)
