import sys, threading, io
from dissect.cstruct import cstruct
import dissect.cstruct.expression as E
cs = cstruct(); cs.load("struct S { uint8 n; uint8 m; uint8 a[n * 2 + m]; };", compiled=False)
d1 = bytes([1, 1]) + bytes(range(10)); d2 = bytes([2, 3]) + bytes(range(20))
seq = (cs.S(d1), cs.S(d2))
# controlled scheduler: threads yield at every traced line in expression.py; schedule given as list of thread ids
class Sched:
    def __init__(self, schedule):
        self.schedule = list(schedule); self.cv = threading.Condition(); self.turn = None; self.done = set(); self.pos = 0
    def advance(self):
        # pick next runnable from the schedule, else any not done
        while self.pos < len(self.schedule) and self.schedule[self.pos] in self.done: self.pos += 1
        if self.pos < len(self.schedule): self.turn = self.schedule[self.pos]; self.pos += 1
        else:
            rest = [t for t in (0, 1) if t not in self.done]; self.turn = rest[0] if rest else None
    def wait_turn(self, tid):
        with self.cv:
            while self.turn != tid: self.cv.wait()
    def yield_(self, tid):
        with self.cv:
            self.advance(); self.cv.notify_all()
            while self.turn != tid: self.cv.wait()
    def finish(self, tid):
        with self.cv:
            self.done.add(tid); self.advance(); self.cv.notify_all()
def run(schedule):
    s = Sched(schedule); res = [None, None]
    def worker(tid, data):
        def tracer(frame, event, arg):
            if frame.f_code.co_filename != E.__file__: return None
            if event == "line": s.yield_(tid)
            return tracer
        s.wait_turn(tid)
        sys.settrace(tracer)
        try: res[tid] = cs.S(data)
        except Exception as ex: res[tid] = f"EXC {type(ex).__name__}: {ex}"
        finally:
            sys.settrace(None); s.finish(tid)
    ts = [threading.Thread(target=worker, args=(i, d)) for i, d in enumerate((d1, d2))]
    with s.cv: s.advance()
    for t in ts: t.start()
    for t in ts: t.join()
    return res
import itertools, random
rnd = random.Random(0); bad = 0
for it in range(300):
    sched = [rnd.randint(0, 1) for _ in range(120)]
    r = run(sched)
    if not (r[0] == seq[0] and r[1] == seq[1]):
        bad += 1
        if bad <= 3: print("schedule", "".join(map(str, sched[:60])), "->", r)
print("bad", bad, "of 300")
