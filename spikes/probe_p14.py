import io
from dissect.cstruct import cstruct
def tr(f):
    try: return f()
    except Exception as ex: return f"EXC {type(ex).__name__}: {ex}"
for d in ["struct T { uint8 a; uint32 b[0]; };", "struct T { uint8 a; uint16 b:4; };"]:
  for comp in (False, True):
    cs = cstruct(); cs.load(d, compiled=comp, align=True)
    for n in (1, 2, 4):
        f = io.BytesIO(bytes(range(1, 1+n))); print(d, comp, n, cs.T.size, tr(lambda: cs.T(f)), f.tell())
