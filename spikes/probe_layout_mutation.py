"""Throw-away probe for C13: insert blanks/newlines/comments at C token boundaries (outside [...] and #define lines)."""
import random, re, sys, collections, io
from dissect.cstruct import cstruct
sys.path.insert(0, "/verif/spikes")
from probe_random_diff import gen_fields, counter, canon
PRE = "#define N 3\nenum E8 : uint8 { A = 1, B, C = 7 };\nflag F16 : uint16 { X, Y, Z = 0x100 };\ntypedef struct { uint8 q; uint16 r; } TD, TD2;\ntypedef TD *PTD;\ntypedef uint32 U32A;\ntypedef U32A U32B;\n"
TOK = re.compile(r"#define[^\n]*\n|[A-Za-z_][A-Za-z0-9_]*|0[xX][0-9a-fA-F]+|\d+|<<|>>|[{}\[\]();:,*=+\-/%&|^~]|\s+")
def toks(text):
    out = []; pos = 0
    while pos < len(text):
        m = TOK.match(text, pos); assert m, text[pos:pos+20]; out.append(m.group()); pos = m.end()
    return out
def sig(cs):
    r = []
    for n, t in cs.typedefs.items():
        t = cs.resolve(t)
        if hasattr(t, "__fields__") and not n.startswith("__anonymous"):
            def fs(T): return tuple((f._name if not f._name.startswith("__anonymous") else "anon", fs(f.type) if hasattr(f.type, "__fields__") else re.sub(r"__anonymous_\d+__", "anon", f.type.__name__), f.bits, f.offset) for f in T.__fields__)
            r.append((n, t.size, t.alignment, fs(t)))
        elif hasattr(t, "__members__"): r.append((n, tuple((k, v.value) for k, v in t.__members__.items()), t.type.__name__))
    return (sorted(r), sorted((k, repr(v)) for k, v in cs.consts.items()))
def main(seed, iters):
    rnd = random.Random(seed); bad = collections.Counter(); ex = {}
    for it in range(iters):
        d = PRE + "struct T { " + " ".join(gen_fields(rnd, 2, counter())) + " TD td; PTD p; U32B u; uint8 arr[N]; char **pp; };\n"
        try: base = sig(cstruct().load(d))
        except Exception: continue
        ts = toks(d)
        for _ in range(6):
            out = []; depth = 0; in_enum = False
            for i, t in enumerate(ts):
                out.append(t)
                if t in ("enum", "flag"): in_enum = True
                if t == "}": in_enum = False
                if t == "[": depth += 1
                if t == "]": depth -= 1
                nxt = ts[i + 1] if i + 1 < len(ts) else ""
                if depth == 0 and not t.startswith("#define") and nxt != "[" and not (t == "*" and nxt == "*") and rnd.random() < 0.15:
                    ins = rnd.choice([" ", "\n", "\t", " /* c */ ", " // x\n", "\n\n", "/* it's */", " /* multi\nline */ "])
                    # a comment/blank may not be inserted inside what C considers one token: we only insert between tokens,
                    # but must keep identifiers apart: inserting never joins tokens, so any insertion is legal C.
                    if in_enum and "\n" in ins: ins = " /* e */ "
                    out.append(ins)
            m = "".join(out)
            try: got = sig(cstruct().load(m))
            except Exception as e: got = f"EXC {type(e).__name__}: {str(e)[:50]}"
            if got != base:
                k = got[:40] if isinstance(got, str) else "different-types"
                bad[k] += 1
                if k not in ex or len(m) < len(ex[k][0]):
                    dd = [(a, b) for a, b in zip(base[0], got[0]) if a != b][:2] if not isinstance(got, str) else got
                    ex[k] = (m, dd, [x for x in base[1] if x not in got[1]] if not isinstance(got, str) else "")
    print(dict(bad))
    for k, v in ex.items(): print("----", k); print(v[0][len(PRE)-80:][:500]); print(str(v[1])[:1500]); print(v[2])
main(int(sys.argv[1]), int(sys.argv[2]))
