import io, traceback, ast, itertools
from dissect.cstruct import cstruct, Expression
def sec(t): print("\n#####", t)
def tr(f):
    try: return f()
    except Exception as ex: return f"EXC {type(ex).__name__}: {ex}"

sec("C08 truncation sweep")
defs = {
 "S1": "struct S1 { uint8 a; uint16 b; uint32 c[2]; char d[3]; wchar e[2]; int24 f; };",
 "S2": "struct S2 { uint8 n; uint16 b[n]; char s[]; uleb128 l; };",
 "S3": "struct S3 { uint8 a:4; uint8 b:4; uint16 c:3; uint16 d:13; uint8 e; };",
 "U1": "union U1 { uint32 a; uint8 b[3]; };",
 "S4": "struct S4 { uint8 a; union { uint16 x; uint8 y; } u; uint8 z; };",
 "S5": "struct S5 { uint8 a; uint32 b; uint8 c; };",
 "S6": "struct S6 { uint8 a; void v; uint8 c[0]; };",
}
for align in (False, True):
  for comp in (False, True):
    cs = cstruct(); 
    for d in defs.values(): cs.load(d, compiled=comp, align=align)
    for name in defs:
        T = getattr(cs, name)
        full = bytes([1,2,3,4,5,6,7,8,9,0,0x85,1])+bytes(range(13,60))
        f = io.BytesIO(full); v = T(f); used = f.tell()
        bad = []
        for k in range(used):
            r = tr(lambda: T(full[:k]))
            if not (isinstance(r, str) and r.startswith("EXC EOFError")):
                same = (not isinstance(r,str)) and r == v
                bad.append((k, "same" if same else str(r)[:60]))
        print(align, comp, name, "used", used, "size", T.size, "non-EOF cuts:", bad)
