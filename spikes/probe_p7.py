import io, random, ctypes
from dissect.cstruct import cstruct
def tr(f):
    try: return f()
    except Exception as ex: return f"EXC {type(ex).__name__}: {ex}"
prims = {"int8": ctypes.c_int8, "uint8": ctypes.c_uint8, "int16": ctypes.c_int16, "uint16": ctypes.c_uint16, "int32": ctypes.c_int32, "uint32": ctypes.c_uint32, "int64": ctypes.c_int64, "uint64": ctypes.c_uint64, "float": ctypes.c_float, "double": ctypes.c_double, "char": ctypes.c_char}
rnd = random.Random(1)
cnt = 0
def gen(depth, idx):
    """returns (cdef_lines, ctypes class, name)"""
    n = rnd.randint(1, 5); lines = []; cf = []
    for i in range(n):
        k = rnd.random()
        if k < 0.6 or depth == 0:
            t = rnd.choice(list(prims)); dims = []
            if rnd.random() < 0.3: dims = [rnd.randint(1, 3) for _ in range(rnd.randint(1, 2))]
            ct = prims[t]
            for dd in reversed(dims): ct = ct * dd
            lines.append(f"{t} f{i}" + "".join(f"[{x}]" for x in dims) + ";"); cf.append((f"f{i}", ct))
        elif k < 0.8:
            sl, sc = gen(depth - 1, f"{idx}_{i}"); kw = "struct"
            arr = rnd.choice([None, 2])
            lines.append(kw + " { " + " ".join(sl) + " } " + f"f{i}" + (f"[{arr}]" if arr else "") + ";"); cf.append((f"f{i}", sc * arr if arr else sc))
        else:
            sl, sc = gen(depth - 1, f"{idx}_{i}", ) ; 
            U = type("U", (ctypes.Union,), {"_fields_": sc._fields_})
            lines.append("union { " + " ".join(sl) + " } " + f"f{i};"); cf.append((f"f{i}", U))
    C = type("S", (ctypes.Structure,), {"_fields_": cf})
    return lines, C
bad = 0
for it in range(3000):
    lines, C = gen(2, "r")
    d = "struct T { " + " ".join(lines) + " };"
    cs = cstruct(); cs.load(d, align=True)
    offs = [(f.name, f.offset) for f in cs.T.__fields__]
    coffs = [(n, getattr(C, n).offset) for n, _ in C._fields_]
    if cs.T.size != ctypes.sizeof(C) or cs.T.alignment != ctypes.alignment(C) or offs != coffs:
        bad += 1
        if bad < 5: print(d, cs.T.size, ctypes.sizeof(C), cs.T.alignment, ctypes.alignment(C), offs, coffs)
print("mismatches", bad)
