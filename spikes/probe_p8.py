import io, struct
from dissect.cstruct import cstruct
def tr(f):
    try: return f()
    except Exception as ex: return f"EXC {type(ex).__name__}: {ex}"
cs = cstruct()
cs.load("struct S { uint16 a; int24 b; wchar w[2]; uint32 c:4; uint32 d:28; float f; uint16 arr[2]; uint8* p; };")
data = bytes(range(1, 40))
for e in "<>!<":
    cs.endian = e
    v = cs.S(data); print(e, cs.S.__compiled__, v, v.dumps() == data[:len(v.dumps())], len(v.dumps()))
print(cs.uleb128(b"\x80\x00"), cs.uleb128.dumps(0), cs.ileb128(b"\x7f"), cs.ileb128(b"\xff\x7f"), cs.ileb128.dumps(-1), cs.ileb128.dumps(-65), cs.ileb128(b"\xbf\x7f"), cs.ileb128.dumps(64), cs.ileb128.dumps(63), tr(lambda: cs.uleb128.dumps(-1)))
print(tr(lambda: cs.uint8.dumps(256)), tr(lambda: cs.int24.dumps(2**23)), tr(lambda: cs.uint8.dumps(-1)), tr(lambda: cs.uint8.dumps(1.5)), tr(lambda: cs.char.dumps(300)), tr(lambda: cs.char.dumps(b"ab")), tr(lambda: cs.wchar.dumps("ab")), tr(lambda: cs.wchar.dumps("\U0001F600")))
cs = cstruct(pointer="uint16"); cs.load("struct P { char *s; uint8 x; };")
print(tr(lambda: cs.P(s=70000, x=1).dumps()), cs.P(b"\x03\x00\x07abc\x00").s.dereference())
# wchar surrogates
cs = cstruct(); print(tr(lambda: cs.wchar(b"\x00\xd8")), tr(lambda: cs.wchar[2](b"\x3d\xd8\x00\xde")), tr(lambda: len(cs.wchar[2](b"\x3d\xd8\x00\xde"))), tr(lambda: cs.wchar[2].dumps(cs.wchar[2](b"\x3d\xd8\x00\xde"))))
print(tr(lambda: cs.float(b"\x01\x00\xc0\x7f")), tr(lambda: cs.float.dumps(cs.float(b"\x01\x00\xc0\x7f")).hex()), tr(lambda: cs.float(b"\x01\x00\xa0\x7f")), tr(lambda: cs.float.dumps(cs.float(b"\x01\x00\xa0\x7f")).hex()), cs.float16(b"\x01\x7e"), cs.float16.dumps(cs.float16(b"\x01\x7e")).hex())
