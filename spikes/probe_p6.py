import io, traceback, ast, itertools, ctypes
from dissect.cstruct import cstruct, Expression
from dissect.cstruct.types.structure import Field
def sec(t): print("\n#####", t)
def tr(f):
    try: return f()
    except Exception as ex: return f"EXC {type(ex).__name__}: {ex}"

sec("C12 enums")
cs = cstruct()
cs.load("""enum E : int8 { A, B = 5, C, D = B + C, F = 5, G };
flag Fl : uint16 { a, b, c = 0x10, d };
enum E2 : uint8 { A = 1 };
struct S { E e; Fl f; E arr[2]; E x:4; E y:4; };""")
print(dict(cs.E.__members__), dict(cs.Fl.__members__))
print(cs.E(b"\xff"), cs.E(b"\xff").value, cs.E.dumps(cs.E(-1)), cs.E(5), cs.E(5) == cs.E.B, cs.E(5) == cs.E.F, cs.E.B == cs.E.F, hash(cs.E(5)) == hash(cs.E(5)), cs.E(77) == cs.E(77), hash(cs.E(77)) == hash(cs.E(77)))
print(cs.E.A == cs.E2.A, cs.E.B == 5, cs.E2.A == 1, cs.E2.A == cs.E.A, cs.E2(1) == cs.E(1))
print(cs.Fl(b"\xff\xff"), cs.Fl(b"\xff\xff").value, cs.Fl.dumps(cs.Fl(0xffff)), cs.Fl(0) , cs.Fl(0x13).value, hash(cs.Fl(0x13)) == hash(cs.Fl(0x13)))
s = cs.S(b"\x05\x13\x00\x06\xfe\x27"); print(s, s.dumps())
print(tr(lambda: cs.E.dumps(cs.E(200))), tr(lambda: cs.E.dumps(5)))

sec("C17 struct values")
cs = cstruct(); cs.load("struct A { uint8 a; uint16 b; char c[2]; }; struct B { uint8 a; uint16 b; char c[2]; }; struct N { uint8 x; struct { uint8 p; uint8 q; }; A n; };")
a1 = cs.A(1, 2, b"xy"); a2 = cs.A(a=1, b=2, c=b"xy"); d = cs.A(); d.a=1; d.b=2; d.c=b"xy"
print(a1 == a2 == d, hash(a1) == hash(a2), a1 == cs.B(1,2,b"xy"), bool(cs.A()), bool(cs.A(b=1)), cs.A().dumps(), cs.A(b=7).dumps())
n = cs.N(); print(n, bool(n), n.dumps()); n.p = 5; print(n, n.dumps(), bool(n)); n2 = cs.N(x=0); n2.n.b = 9; print(n2.dumps(), cs.N().dumps())

sec("C18 incremental")
for comp in (False, True):
  for align in (False, True):
    cs = cstruct(); cs.load("struct O { uint8 a; uint32 b; uint16 c:3; uint16 d:13; uint8 n; uint8 arr[n]; uint32 t; };", compiled=comp, align=align)
    cs2 = cstruct()
    I = cs2._make_struct("O", [], align=align)
    if comp:
        from dissect.cstruct import compiler; compiler.compile(I)
    for nm, ty, bits in [("a", cs2.uint8, None), ("b", cs2.uint32, None), ("c", cs2.uint16, 3), ("d", cs2.uint16, 13), ("n", cs2.uint8, None), ("arr", cs2.uint8[Expression(cs2, "n")], None), ("t", cs2.uint32, None)]:
        I.add_field(nm, ty, bits)
    data = bytes([1,2,3,4,5,6,7,8,9,10,11,12,2,14,15,16,17,18,19,20,21,22,23,24,25,26,27,28,29,30])
    O = cs.O
    sig = lambda T: (T.size, T.alignment, T.dynamic, T.__compiled__, [(f._name, f.offset, f.bits) for f in T.__fields__])
    print(comp, align, sig(O) == sig(I), tr(lambda: repr(O(data)) == repr(I(data))), tr(lambda: O(data).dumps() == I(data).dumps()))
    if sig(O) != sig(I): print(sig(O)); print(sig(I))
