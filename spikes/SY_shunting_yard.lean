/-! Feasibility spike: shunting-yard evaluator of expression.py vs. stratified C grammar. -/
namespace SY

inductive BinOp | or | xor | and | shl | shr | add | sub | mul | div | mod
deriving DecidableEq, Repr

def BinOp.prec : BinOp → Nat
  | .or => 0 | .xor => 1 | .and => 2 | .shl => 3 | .shr => 3
  | .add => 4 | .sub => 4 | .mul => 5 | .div => 5 | .mod => 5

inductive UnOp | neg | not deriving DecidableEq, Repr

inductive Tok | num (n : Int) | bin (o : BinOp) | un (o : UnOp) | lp | rp
deriving DecidableEq, Repr

inductive SItem | bin (o : BinOp) | un (o : UnOp) | lp
deriving DecidableEq, Repr

def SItem.prec : SItem → Nat
  | .bin o => o.prec | .un _ => 6 | .lp => 0

def binop : BinOp → Int → Int → Option Int
  | .or, a, b => some (a + b) | .xor, a, b => some (a + b) | .and, a, b => some (a + b)
  | .shl, a, b => if 0 ≤ b then some (a <<< b.toNat) else none
  | .shr, a, b => if 0 ≤ b then some (a >>> b.toNat) else none
  | .add, a, b => some (a + b) | .sub, a, b => some (a - b) | .mul, a, b => some (a * b)
  | .div, a, b => if b = 0 then none else some (Int.fdiv a b)
  | .mod, a, b => if b = 0 then none else some (Int.fmod a b)

def unop : UnOp → Int → Int
  | .neg, a => -a | .not, a => ~~~a

/-- the `while stack and stack[-1] != "(" and prec(stack[-1]) >= prec(cur)` loop, with
`evaluate_exp` inlined so that the recursion is structural on the stack. -/
def flush (p : Nat) : List SItem → List Int → Option (List SItem × List Int)
  | [], q => some ([], q)
  | .lp :: st, q => some (.lp :: st, q)
  | .un o :: st, q =>
    if 6 ≥ p then
      match q with
      | r :: q' => flush p st (unop o r :: q')
      | [] => none
    else some (.un o :: st, q)
  | .bin o :: st, q =>
    if o.prec ≥ p then
      match q with
      | r :: l :: q' =>
        match binop o l r with
        | some v => flush p st (v :: q')
        | none => none
      | _ => none
    else some (.bin o :: st, q)

/-- the `")"` branch: evaluate until "(" and pop it; empty stack is an error -/
def closeParen : List SItem → List Int → Option (List SItem × List Int)
  | [], _ => none
  | .lp :: st, q => some (st, q)
  | .un o :: st, q =>
      match q with
      | r :: q' => closeParen st (unop o r :: q')
      | [] => none
  | .bin o :: st, q =>
      match q with
      | r :: l :: q' =>
        match binop o l r with
        | some v => closeParen st (v :: q')
        | none => none
      | _ => none

/-- final `while len(stack) != 0` loop -/
def drain : List SItem → List Int → Option (List Int)
  | [], q => some q
  | .lp :: _, _ => none
  | .un o :: st, q =>
      match q with
      | r :: q' => drain st (unop o r :: q')
      | [] => none
  | .bin o :: st, q =>
      match q with
      | r :: l :: q' =>
        match binop o l r with
        | some v => drain st (v :: q')
        | none => none
      | _ => none

structure St where
  prev : Option Tok
  st : List SItem
  q : List Int

def isNum : Option Tok → Bool | some (.num _) => true | _ => false
def isLp : Option Tok → Bool | some .lp => true | _ => false

def step (s : St) (t : Tok) : Option St :=
  match t with
  | .num n => some { prev := some t, st := s.st, q := n :: s.q }
  | .un o => some { prev := some t, st := .un o :: s.st, q := s.q }
  | .bin o =>
    match flush o.prec s.st s.q with
    | some (st', q') => some { prev := some t, st := .bin o :: st', q := q' }
    | none => none
  | .lp => if isNum s.prev then none else some { prev := some t, st := .lp :: s.st, q := s.q }
  | .rp =>
    if isLp s.prev then none else
    match closeParen s.st s.q with
    | some (st', q') => some { prev := some t, st := st', q := q' }
    | none => none

def run : List Tok → St → Option St
  | [], s => some s
  | t :: ts, s => match step s t with | some s' => run ts s' | none => none

def eval (ts : List Tok) : Option Int :=
  match run ts { prev := none, st := [], q := [] } with
  | some s => match drain s.st s.q with | some [v] => some v | _ => none
  | none => none

inductive Expr | num (n : Int) | un (o : UnOp) (e : Expr) | bin (o : BinOp) (l r : Expr)

def denote : Expr → Option Int
  | .num n => some n
  | .un o e => (denote e).map (unop o)
  | .bin o l r => do let a ← denote l; let b ← denote r; binop o a b

/-- Stratified C grammar: levels 0..5 = binary (by precedence, left assoc), 6 = unary prefix, 7 = primary. -/
inductive D : Nat → List Tok → Expr → Prop
  | num (n) : D 7 [.num n] (.num n)
  | paren {ts e} : D 0 ts e → D 7 (.lp :: ts ++ [.rp]) e
  | un {ts e} (o) : D 6 ts e → D 6 (.un o :: ts) (.un o e)
  | up {k ts e} : k ≤ 6 → D (k+1) ts e → D k ts e
  | bin {k ts1 ts2 e1 e2} (o : BinOp) : o.prec = k → D k ts1 e1 → D (k+1) ts2 e2 →
      D k (ts1 ++ .bin o :: ts2) (.bin o e1 e2)

#eval eval [.num 1, .bin .add, .num 2, .bin .mul, .un .neg, .num 3]
#eval eval [.lp, .num 1, .bin .add, .num 2, .rp, .bin .mul, .un .neg, .num 3]
#eval eval [.num 2, .bin .sub, .num 3, .bin .add, .num 4]


/-! ### Correctness proof -/

def collapse : List SItem → List Int → Option (List Int)
  | [], q => some q
  | .lp :: _, _ => none
  | .un o :: st, r :: q => collapse st (unop o r :: q)
  | .un _ :: _, [] => none
  | .bin o :: st, r :: l :: q =>
      match binop o l r with
      | some v => collapse st (v :: q)
      | none => none
  | .bin _ :: _, [] => none
  | .bin _ :: _, [_] => none

theorem collapse_append (a b : List SItem) (q q' : List Int) (h : collapse a q = some q') :
    collapse (a ++ b) q = collapse b q' := by
  induction a generalizing q with
  | nil => simp [collapse] at h; simp [h]
  | cons it a ih =>
    cases it with
    | lp => simp [collapse] at h
    | un o =>
      cases q with
      | nil => simp [collapse] at h
      | cons r q => simp only [List.cons_append, collapse] at h ⊢; exact ih _ h
    | bin o =>
      match q with
      | [] => simp [collapse] at h
      | [_] => simp [collapse] at h
      | r :: l :: q =>
        simp only [List.cons_append, collapse] at h ⊢
        cases hb : binop o l r with
        | none => simp [hb] at h
        | some v => simp only [hb] at h ⊢; exact ih _ h

theorem flush_append (p : Nat) (pend st : List SItem) (qa q' : List Int)
    (hp : ∀ it ∈ pend, p ≤ it.prec) (h : collapse pend qa = some q') :
    flush p (pend ++ st) qa = flush p st q' := by
  induction pend generalizing qa with
  | nil => simp [collapse] at h; simp [h]
  | cons it pend ih =>
    have hit := hp it (by simp)
    have hp' : ∀ it ∈ pend, p ≤ it.prec := fun x hx => hp x (by simp [hx])
    cases it with
    | lp => simp [collapse] at h
    | un o =>
      cases qa with
      | nil => simp [collapse] at h
      | cons r q =>
        simp only [List.cons_append, collapse, flush] at h ⊢
        have : 6 ≥ p := hit
        simp only [this, if_true]
        exact ih _ hp' h
    | bin o =>
      match qa with
      | [] => simp [collapse] at h
      | [_] => simp [collapse] at h
      | r :: l :: q =>
        simp only [List.cons_append, collapse, flush] at h ⊢
        have : o.prec ≥ p := hit
        simp only [this, if_true]
        cases hb : binop o l r with
        | none => simp [hb] at h
        | some v => simp only [hb] at h ⊢; exact ih _ hp' h

theorem closeParen_append (pend st : List SItem) (qa q' : List Int)
    (h : collapse pend qa = some q') :
    closeParen (pend ++ st) qa = closeParen st q' := by
  induction pend generalizing qa with
  | nil => simp [collapse] at h; simp [h]
  | cons it pend ih =>
    cases it with
    | lp => simp [collapse] at h
    | un o =>
      cases qa with
      | nil => simp [collapse] at h
      | cons r q => simp only [List.cons_append, collapse, closeParen] at h ⊢; exact ih _ h
    | bin o =>
      match qa with
      | [] => simp [collapse] at h
      | [_] => simp [collapse] at h
      | r :: l :: q =>
        simp only [List.cons_append, collapse, closeParen] at h ⊢
        cases hb : binop o l r with
        | none => simp [hb] at h
        | some v => simp only [hb] at h ⊢; exact ih _ h

theorem drain_eq_collapse (pend : List SItem) (qa q' : List Int)
    (h : collapse pend qa = some q') : drain pend qa = some q' := by
  induction pend generalizing qa with
  | nil => simp [collapse] at h; simp [drain, h]
  | cons it pend ih =>
    cases it with
    | lp => simp [collapse] at h
    | un o =>
      cases qa with
      | nil => simp [collapse] at h
      | cons r q => simp only [collapse, drain] at h ⊢; exact ih _ h
    | bin o =>
      match qa with
      | [] => simp [collapse] at h
      | [_] => simp [collapse] at h
      | r :: l :: q =>
        simp only [collapse, drain] at h ⊢
        cases hb : binop o l r with
        | none => simp [hb] at h
        | some v => simp only [hb] at h ⊢; exact ih _ h

/-- context condition: the operator just below a level-`k` expression binds weaker than `k` -/
def ctxOk (k : Nat) : List SItem → Prop
  | [] => True
  | it :: _ => k ≤ 5 → (it = .lp ∨ it.prec < k)

theorem flush_stop (k : Nat) (hk : k ≤ 5) (st : List SItem) (q : List Int) (h : ctxOk k st) :
    flush k st q = some (st, q) := by
  cases st with
  | nil => simp [flush]
  | cons it st =>
    rcases h hk with rfl | hlt
    · simp [flush]
    · cases it with
      | lp => simp [flush]
      | un o => simp [SItem.prec] at hlt; omega
      | bin o =>
        simp only [SItem.prec] at hlt
        have : ¬ (o.prec ≥ k) := by omega
        simp [flush, this]

theorem run_append (a b : List Tok) (s : St) :
    run (a ++ b) s = (run a s).bind (run b) := by
  induction a generalizing s with
  | nil => simp [run]
  | cons t a ih =>
    simp only [List.cons_append, run]
    cases step s t with
    | none => simp
    | some s' => simpa using ih s'

def endsOk : Option Tok → Prop
  | some (.num _) => True
  | some .rp => True
  | _ => False

theorem main {k ts e} (hD : D k ts e) : ∀ v, denote e = some v → ∀ prev st q,
    isNum prev = false → ctxOk k st →
    ∃ prev' pend qa, run ts ⟨prev, st, q⟩ = some ⟨prev', pend ++ st, qa⟩ ∧ endsOk prev' ∧
      (∀ it ∈ pend, k ≤ it.prec) ∧ collapse pend qa = some (v :: q) := by
  induction hD with
  | num n =>
    intro v hv prev st q _ _
    simp [denote] at hv; subst hv
    exact ⟨some (.num n), [], n :: q, by simp [run, step], trivial, by simp, by simp [collapse]⟩
  | @paren ts e hd ih =>
    intro v hv prev st q hprev _
    obtain ⟨prev', pend, qa, hrun, hends, _, hcol⟩ := ih v hv (some .lp) (.lp :: st) q rfl (by simp [ctxOk])
    refine ⟨some .rp, [], v :: q, ?_, trivial, by simp, by simp [collapse]⟩
    have hnl : isLp prev' = false := by
      cases prev' with
      | none => rfl
      | some t => cases t <;> simp_all [isLp, endsOk]
    show run (.lp :: (ts ++ [.rp])) _ = _
    simp only [run, step, hprev, Bool.false_eq_true, if_false]
    rw [run_append, hrun]
    simp only [Option.bind, run, step, hnl, Bool.false_eq_true, if_false]
    rw [closeParen_append pend (.lp :: st) qa (v :: q) hcol]
    simp [closeParen]
  | @un ts e o hd ih =>
    intro v hv prev st q _ _
    simp only [denote, Option.map_eq_some_iff] at hv
    obtain ⟨v', hv', rfl⟩ := hv
    obtain ⟨prev', pend, qa, hrun, hends, hprec, hcol⟩ := ih v' hv' (some (.un o)) (.un o :: st) q rfl (by simp [ctxOk])
    refine ⟨prev', pend ++ [.un o], qa, ?_, hends, ?_, ?_⟩
    · simp only [run, step]; rw [hrun]; simp
    · intro it hit
      simp only [List.mem_append, List.mem_singleton] at hit
      rcases hit with h | rfl
      · exact hprec it h
      · simp [SItem.prec]
    · rw [collapse_append pend [.un o] qa (v' :: q) hcol]; simp [collapse]
  | @up k ts e hk hd ih =>
    intro v hv prev st q hprev hctx
    have hctx' : ctxOk (k+1) st := by
      cases st with
      | nil => trivial
      | cons it st =>
        intro hk5
        rcases hctx (by omega) with h | h
        · exact Or.inl h
        · exact Or.inr (by omega)
    obtain ⟨prev', pend, qa, hrun, hends, hprec, hcol⟩ := ih v hv prev st q hprev hctx'
    exact ⟨prev', pend, qa, hrun, hends, fun it hit => by have := hprec it hit; omega, hcol⟩
  | @bin k ts1 ts2 e1 e2 o hk hd1 hd2 ih1 ih2 =>
    intro v hv prev st q hprev hctx
    have hk5 : k ≤ 5 := by subst hk; cases o <;> simp [BinOp.prec]
    simp only [denote, bind, Option.bind] at hv
    cases ha : denote e1 with
    | none => simp [ha] at hv
    | some a =>
      cases hb : denote e2 with
      | none => simp [ha, hb] at hv
      | some b =>
        simp only [ha, hb] at hv
        obtain ⟨prev1, pend1, qa1, hrun1, hends1, hprec1, hcol1⟩ := ih1 a ha prev st q hprev hctx
        have hctx2 : ctxOk (k+1) (.bin o :: st) := by
          intro _; right; simp [SItem.prec, hk]
        obtain ⟨prev2, pend2, qa2, hrun2, hends2, hprec2, hcol2⟩ :=
          ih2 b hb (some (.bin o)) (.bin o :: st) (a :: q) rfl hctx2
        refine ⟨prev2, pend2 ++ [.bin o], qa2, ?_, hends2, ?_, ?_⟩
        · rw [run_append, hrun1]
          simp only [Option.bind, run, step]
          rw [hk, flush_append k pend1 st qa1 (a :: q) hprec1 hcol1, flush_stop k hk5 st (a :: q) hctx]
          simp only []
          rw [hrun2]; simp
        · intro it hit
          simp only [List.mem_append, List.mem_singleton] at hit
          rcases hit with h | rfl
          · have := hprec2 it h; omega
          · simp [SItem.prec, hk]
        · rw [collapse_append pend2 [.bin o] qa2 (b :: a :: q) hcol2]; simp [collapse, hv]

/-- C10 core: every token sequence of the stratified grammar evaluates to the value of its parse tree. -/
theorem eval_correct {ts e v} (hD : D 0 ts e) (hv : denote e = some v) : eval ts = some v := by
  obtain ⟨prev', pend, qa, hrun, _, _, hcol⟩ := main hD v hv none [] [] rfl trivial
  simp only [eval, hrun, List.append_nil]
  rw [drain_eq_collapse pend qa [v] hcol]

#print axioms eval_correct

end SY
