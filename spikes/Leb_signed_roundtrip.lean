/-! Feasibility spike: signed LEB128 as in leb128.py over unbounded Int, round-trip. -/
namespace Leb

/-- `_write` for signed: emits bytes as Nat < 256. `data & 0x7f` = data % 128, `data >> 7` = data / 128 (floor). -/
def writeS (d : Int) : List Nat :=
  let byte := (d % 128).toNat
  let d' := d / 128
  if (d' = 0 ∧ byte < 64) ∨ (d' = -1 ∧ 64 ≤ byte) then [byte]
  else (128 + byte) :: writeS d'
termination_by d.natAbs
decreasing_by
  rename_i h
  simp only [not_or, not_and, Nat.not_lt, Nat.not_le] at h
  omega

/-- `_read` in its recursive form: value of the remaining bytes, given as (low 7 bits) + 128 * rest, with sign extension on the last byte. -/
def readS : List Nat → Option (Int × List Nat)
  | [] => none
  | b :: bs =>
    if b < 128 then
      some (if 64 ≤ b then (b : Int) - 128 else (b : Int), bs)
    else
      match readS bs with
      | some (v, r) => some (((b - 128 : Nat) : Int) + 128 * v, r)
      | none => none

theorem roundtrip (d : Int) (rest : List Nat) : readS (writeS d ++ rest) = some (d, rest) := by
  fun_induction writeS d with
  | case1 d byte d' hstop =>
    simp only [List.cons_append, List.nil_append, readS]
    have hb : byte < 128 := by omega
    simp only [hb, if_true]
    congr 1
    rcases hstop with ⟨h0, hlt⟩ | ⟨h1, hge⟩
    · have : ¬ (64 ≤ byte) := by omega
      simp only [this, if_false]; congr 1; omega
    · simp only [hge, if_true]; congr 1; omega
  | case2 d byte d' hgo ih =>
    simp only [List.cons_append, readS]
    have hb : ¬ (128 + byte < 128) := by omega
    simp only [hb, if_false, ih]
    simp only [Option.some.injEq, Prod.mk.injEq, and_true]
    omega

#print axioms roundtrip
#eval writeS (-65)
#eval writeS 64
#eval writeS (-1)
end Leb
