"""Throw-away probe for C11: union coherence under assignment histories."""
import io, random, sys, collections
from dissect.cstruct import cstruct, Structure
sys.path.insert(0, "/verif/spikes")
from probe_random_diff import canon
MEM = ["uint8 {n};", "uint16 {n};", "uint32 {n};", "uint64 {n};", "int32 {n};", "uint24 {n};", "char {n}[4];", "uint8 {n}[5];", "uint16 {n}[2];",
       "struct {{ uint8 a{n}; uint16 b{n}; }} {n};", "struct {{ uint32 a{n}; uint32 b{n}; }} {n};", "struct {{ uint16 a{n}; struct {{ uint8 c{n}; uint8 d{n}; }} e{n}; }} {n};",
       "struct {{ uint32 p{n}; uint16 q{n}; }};", "E8 {n};"]
def main(seed, iters):
    rnd = random.Random(seed); buckets = collections.Counter(); ex = {}
    def rep(k, *a):
        buckets[k] += 1
        if k not in ex: ex[k] = a
    for it in range(iters):
        ms = [rnd.choice(MEM).format(n=f"m{i}") for i in range(rnd.randint(1, 4))]
        d = "enum E8 : uint8 { A = 1 };\nunion U { " + " ".join(ms) + " };"
        for align in (False, True):
            cs = cstruct()
            try: cs.load(d, align=align)
            except Exception as e: rep(f"load:{type(e).__name__}", d); continue
            U = cs.U
            data = bytes(rnd.randrange(1, 256) for _ in range(U.size))
            u = U(data)
            def dmask(T, base, m):
                if issubclass(T, Structure):
                    for ff in T.__fields__: dmask(ff.type, base + (ff.offset or 0), m)
                else:
                    for i in range(T.size): m[base + i] = 1
            mask = [0] * U.size
            for f in U.__fields__: dmask(f.type, f.offset or 0, mask)
            def unwrap(v):
                return v.__target__ if hasattr(v, "__target__") else v
            def ccanon(v):
                v = unwrap(v)
                if isinstance(v, Structure):
                    return ("rec", tuple((ff._name, ccanon(getattr(v, ff._name))) for ff in v.__class__.__fields__))
                return canon(v)
            def check(tag, expect_buf):
                # every member equals parse of its type from the buffer at its offset
                for f in U.__fields__:
                    want = canon(f.type(expect_buf[(f.offset or 0):]))
                    got = ccanon(getattr(u, f._name)); want = ccanon(f.type(expect_buf[(f.offset or 0):]))
                    if want != got: rep(f"{tag}:member-incoherent", d, align, f._name, want, got)
                out = u.dumps()
                if len(out) != U.size: rep(f"{tag}:dump-len", d, align)
                elif any(m and a != b for m, a, b in zip(mask, out, expect_buf)): rep(f"{tag}:dump-bytes", d, align, expect_buf.hex(), out.hex())
            check("parse", data)
            buf = bytearray(data)
            for step in range(rnd.randint(1, 4)):
                f = rnd.choice(U.__fields__)
                if issubclass(f.type, Structure):
                    # assign a leaf through the nested structure
                    tgt = getattr(u, f._name); sf = rnd.choice(f.type.__fields__)
                    if issubclass(sf.type, Structure) or not issubclass(sf.type, int): continue
                    val = rnd.randrange(1 << (8 * sf.type.size))
                    setattr(tgt, sf._name, val)
                    off = (f.offset or 0) + sf.offset
                    buf[off:off + sf.type.size] = val.to_bytes(sf.type.size, "little")
                elif issubclass(f.type, int) and f.type.size and not hasattr(f.type, "__members__"):
                    lo = -(1 << (8 * f.type.size - 1)) if getattr(f.type, "packchar", "B").islower() and f.type.__name__.startswith("int") else 0
                    val = rnd.randrange(lo, lo + (1 << (8 * f.type.size)))
                    setattr(u, f._name, val)
                    buf[(f.offset or 0):(f.offset or 0) + f.type.size] = val.to_bytes(f.type.size, "little", signed=val < 0)
                else:
                    continue
                check("assign", bytes(buf))
    print(buckets)
    for k, v in ex.items(): print(k, *[str(x)[:300] for x in v], sep="\n    ")
main(int(sys.argv[1]), int(sys.argv[2]))
