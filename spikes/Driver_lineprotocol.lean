import Sp.SY
open SY
def parseTok (s : String) : Option Tok :=
  match s with
  | "(" => some .lp | ")" => some .rp | "+" => some (.bin .add) | "-" => some (.bin .sub) | "*" => some (.bin .mul)
  | "/" => some (.bin .div) | "%" => some (.bin .mod) | "u" => some (.un .neg) | "~" => some (.un .not)
  | _ => s.toInt?.map .num
partial def loop (h : IO.FS.Stream) (out : IO.FS.Stream) : IO Unit := do
  let line ← h.getLine
  if line.isEmpty then return ()
  let toks := (line.trimAscii.toString.splitOn " ").filterMap parseTok
  out.putStrLn (match eval toks with | some v => toString v | none => "err")
  loop h out
def main : IO Unit := do loop (← IO.getStdin) (← IO.getStdout)
