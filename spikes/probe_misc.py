"""Throw-away probes: C09 input kinds / call forms / offsets, C16 pointers, C12 enum declarations."""
import io, random, sys, collections, mmap
from dissect.cstruct import cstruct
from dissect.cstruct.exceptions import NullPointerDereference
sys.path.insert(0, "/verif/spikes")
from probe_random_diff import gen_fields, counter, PRE, canon
def tr(f):
    try: return f()
    except Exception as ex: return f"EXC {type(ex).__name__}"
class FileLike:
    def __init__(self, b): self._b = io.BytesIO(b)
    def read(self, n=-1): return self._b.read(n)
    def seek(self, *a): return self._b.seek(*a)
    def tell(self): return self._b.tell()
def c09(seed, n):
    rnd = random.Random(seed); bad = collections.Counter(); ex = {}
    for _ in range(n):
        d = PRE + "struct T { " + " ".join(gen_fields(rnd, 2, counter())) + " };"
        if "int8 f" in d and ":" in d: pass
        for align in (False, True):
          for comp in (False, True):
            cs = cstruct()
            try: cs.load(d, compiled=comp, align=align)
            except Exception: continue
            T = cs.T; data = bytes(rnd.choice([0, 1, 2, 3, 0x7f, 0x80, 0xff, rnd.randrange(256)]) for _ in range(300))
            f = io.BytesIO(data)
            try: v = T(f)
            except Exception: continue
            used = f.tell(); base = canon(v)
            forms = {"call-bytes": lambda: T(data), "call-bytearray": lambda: T(bytearray(data)), "call-memoryview": lambda: T(memoryview(data)), "read-bytes": lambda: T.read(data),
                     "reads": lambda: T.reads(data), "read-stream": lambda: T.read(io.BytesIO(data)), "cs.read": lambda: cs.read("T", data), "cs.read-stream": lambda: cs.read("T", io.BytesIO(data)), "filelike": lambda: T(FileLike(data))}
            for k, fn in forms.items():
                r = tr(fn)
                if isinstance(r, str) or canon(r) != base: bad[f"form:{k}"] += 1; ex.setdefault(f"form:{k}", (d, align, comp, str(r)[:100]))
            al = T.alignment or 1
            for p in (al, 3 * al, 16 * al + al):
                g = io.BytesIO(bytes(rnd.randrange(256) for _ in range(p)) + data[:used] + bytes(rnd.randrange(256) for _ in range(5)))
                g.seek(p); r = tr(lambda: T(g))
                # EOF arrays depend on what follows; skip defs with [EOF]; (generator has none)
                if isinstance(r, str) or canon(r) != base or g.tell() != p + used:
                    bad["offset"] += 1; ex.setdefault("offset", (d, align, comp, p, str(r)[:200], g.tell() - p, used))
    print("C09", dict(bad)); [print("   ", k, *[str(x)[:400] for x in v]) for k, v in ex.items()]
def c16(seed, n):
    rnd = random.Random(seed); bad = collections.Counter(); ex = {}
    for _ in range(n):
        pt = rnd.choice(["uint8", "uint16", "uint32", "uint64"]); endian = rnd.choice("<>"); comp = rnd.random() < .5
        cs = cstruct(endian=endian, pointer=pt)
        cs.load("struct I { uint8 a; uint16 b; }; struct P { uint8 pre; uint8 *p1; char *s; I *pi; uint8 **pp; uint8 post; };", compiled=comp)
        psz = cs.pointer.size; size = 2 + 4 * psz
        body = bytearray(rnd.randrange(1, 256) for _ in range(200)); body[150] = 0
        addrs = [rnd.randrange(size, min(120, 256 ** psz)) for _ in range(4)]
        if rnd.random() < .2: addrs[rnd.randrange(4)] = 0
        hdr = bytes([7]) + b"".join(a.to_bytes(psz, "little" if endian == "<" else "big") for a in addrs) + bytes([9])
        data = hdr + bytes(body[len(hdr):])
        f = io.BytesIO(data); v = cs.P(f)
        if f.tell() != size or len(cs.P) != size: bad["size"] += 1
        for nm, a, tgt in zip(["p1", "s", "pi", "pp"], addrs, ["u8", "str", "I", "pp"]):
            p = getattr(v, nm)
            if int(p) != a: bad["addr"] += 1; ex.setdefault("addr", (pt, endian, comp, nm, int(p), a))
            pos = f.tell(); r = tr(lambda: p.dereference()); r2 = tr(lambda: p.dereference())
            if f.tell() != pos: bad["moved"] += 1
            if a == 0:
                if r != "EXC NullPointerDereference": bad["null"] += 1
                continue
            want = {"u8": lambda: data[a], "str": lambda: data[a:data.index(0, a)], "I": lambda: canon(cs.I(data[a:])), "pp": lambda: int.from_bytes(data[a:a + psz], "little" if endian == "<" else "big")}[tgt]()
            got = canon(r) if tgt == "I" else (int(r) if tgt in ("u8", "pp") and not isinstance(r, str) else r)
            if got != want: bad[f"deref:{tgt}"] += 1; ex.setdefault(f"deref:{tgt}", (pt, endian, comp, a, want, got))
            if not isinstance(r, str) and r is not r2 and canon(r) != canon(r2): bad["unstable"] += 1
            q = p + 3
            if type(q) is not type(p) or int(q) != a + 3 or q._stream is not p._stream: bad["arith"] += 1
        if v.dumps() != data[:size]: bad["dump"] += 1
    print("C16", dict(bad)); [print("   ", k, v) for k, v in ex.items()]
def c12(seed, n):
    rnd = random.Random(seed); bad = collections.Counter(); ex = {}
    for _ in range(n):
        base = rnd.choice(["uint8", "int8", "uint16", "int16", "uint32", "int64", "uint24"]); kind = rnd.choice(["enum", "flag"])
        names = [f"M{i}" for i in range(rnd.randint(1, 6))]; decl = []; exp = {}; nxt = 0 if kind == "enum" else 1
        for nm in names:
            k = rnd.random()
            if k < .5: val = nxt; decl.append(nm)
            elif k < .8 or not exp:
                val = rnd.choice([0, 1, 2, 3, 4, 5, 8, 0x10, 0x40, 100]); decl.append(f"{nm} = {rnd.choice([str(val), hex(val)])}")
            else:
                ref = rnd.choice(list(exp)); val = exp[ref] + 1; decl.append(f"{nm} = {ref} + 1")
            exp[nm] = val; nxt = val + 1 if kind == "enum" else 2 ** (val.bit_length())
        d = f"{kind} E : {base} {{ {', '.join(decl)} }};\nenum O : {base} {{ Z = 1 }};\nstruct S {{ E e; E arr[2]; }};"
        cs = cstruct()
        try: cs.load(d)
        except Exception as x: bad[f"load:{type(x).__name__}"] += 1; ex.setdefault(f"load:{type(x).__name__}", (d, str(x)[:80])); continue
        got = {k: v.value for k, v in cs.E.__members__.items()}
        if got != exp: bad["numbering"] += 1; ex.setdefault("numbering", (d, exp, got))
        sz = cs.E.size; signed = base.startswith("int")
        for _ in range(12):
            raw = bytes(rnd.choice([0, 1, 2, 3, 0x7f, 0x80, 0xff, rnd.randrange(256)]) for _ in range(sz))
            want = int.from_bytes(raw, "little", signed=signed)
            r = tr(lambda: cs.E(raw))
            if isinstance(r, str): bad[f"parse:{r}"] += 1; ex.setdefault(f"parse:{r}", (d, raw)); continue
            if r.value != want or int(r) != want: bad["value"] += 1
            if tr(lambda: cs.E.dumps(r)) != raw: bad["dump"] += 1; ex.setdefault("dump", (d, raw, tr(lambda: cs.E.dumps(r))))
            r2 = cs.E(raw)
            if not (r == r2 and hash(r) == hash(r2) and r == want): bad["eq/hash"] += 1
            if r == cs.O(want) and True: bad["cross-class-eq"] += 1
    print("C12", dict(bad)); [print("   ", k, *[str(x)[:300] for x in v]) for k, v in ex.items()]
s = int(sys.argv[1]); c09(s, 120); c16(s, 300); c12(s, 400)
