"""Throw-away probes: C10 random expressions vs an independent tree evaluator; C19 hexdump/palette/pack/swap."""
import random, re, sys, collections
from dissect.cstruct import cstruct, Expression
from dissect.cstruct.utils import hexdump, pack, unpack, swap, COLOR_NORMAL

BIN = {"|": (0, lambda a, b: a | b), "^": (1, lambda a, b: a ^ b), "&": (2, lambda a, b: a & b), "<<": (3, lambda a, b: a << b), ">>": (3, lambda a, b: a >> b),
       "+": (4, lambda a, b: a + b), "-": (4, lambda a, b: a - b), "*": (5, lambda a, b: a * b), "/": (5, lambda a, b: a // b), "%": (5, lambda a, b: a % b)}
def gen(rnd, d):
    k = rnd.random()
    if d == 0 or k < 0.3:
        if rnd.random() < 0.2: return ("id", rnd.choice(["A", "B", "n", "x1", "_y"]))
        v = rnd.choice([0, 1, 2, 3, 7, 8, 10, 63, 255, 4096]); return ("num", v, rnd.choice(["d", "x", "o", "b", "dU", "dl", "xull"]))
    if k < 0.45: return ("un", rnd.choice("-~"), gen(rnd, d - 1))
    op = rnd.choice(list(BIN)); return ("bin", op, gen(rnd, d - 1), gen(rnd, d - 1))
ENV = {"A": 8, "B": 13, "n": 3, "x1": 0, "_y": 5}
def ev(t):
    if t[0] == "num": return t[1]
    if t[0] == "id": return ENV[t[1]]
    if t[0] == "un": return -ev(t[2]) if t[1] == "-" else ~ev(t[2])
    a, b = ev(t[2]), ev(t[3])
    if t[1] in ("<<", ">>") and (b < 0 or b > 64): raise ZeroDivisionError
    return BIN[t[1]][1](a, b)
def lvl(t): return 7 if t[0] in ("num", "id") else 6 if t[0] == "un" else BIN[t[1]][0]
def render(rnd, t, need):
    sp = lambda: rnd.choice(["", " ", "  ", "\t"])
    if t[0] == "num":
        v, f = t[1], t[2]
        body = {"d": str(v), "x": hex(v), "o": ("0" + oct(v)[2:]) if v else "0", "b": bin(v)}[f[0]] + f[1:]
        s = body
    elif t[0] == "id": s = t[1]
    elif t[0] == "un": s = t[1] + sp() + render(rnd, t[2], 6)
    else:
        l = BIN[t[1]][0]; s = render(rnd, t[2], l) + sp() + t[1] + sp() + render(rnd, t[3], l + 1)
    if lvl(t) < need or rnd.random() < 0.1: s = "(" + sp() + s + sp() + ")"
    return s
def c10(seed, n):
    rnd = random.Random(seed); cs = cstruct(); cs.consts.update({"A": 8, "B": 13}); bad = collections.Counter(); ex = {}
    for _ in range(n):
        t = gen(rnd, rnd.randint(1, 4)); txt = render(rnd, t, 0)
        try: want = ev(t)
        except ZeroDivisionError: continue
        e = Expression(cs, txt)
        for ctx in ({"n": 3, "x1": 0, "_y": 5},) * 2:
            try: got = e.evaluate(ctx)
            except Exception as x: got = f"EXC {type(x).__name__}: {x}"
            if got != want:
                bad[str(got)[:30] if isinstance(got, str) else "value"] += 1; ex.setdefault(str(got)[:30] if isinstance(got, str) else "value", (txt, want, got))
    print("C10", n, dict(bad)); [print("   ", k, v) for k, v in ex.items()]
def strip(s): return re.sub(r"\x1b\[[0-9;]*m", "", s)
def c19(seed, n):
    rnd = random.Random(seed); bad = collections.Counter(); ex = {}
    cols = ["\033[1;41m\033[1;37m", "\033[1;42m\033[1;37m", "\033[1;31m"]
    for _ in range(n):
        data = bytes(rnd.randrange(256) for _ in range(rnd.choice([0, 1, 15, 16, 17, 31, 32, 33, rnd.randint(0, 70)])))
        pal = []; tot = 0
        while tot < len(data) + rnd.choice([0, 0, 3]) and rnd.random() < 0.9:
            k = rnd.choice([0, 0, 1, 2, 5, 16, 17]); pal.append((k, rnd.choice(cols))); tot += k
        off = rnd.choice([0, 0x10, 0x1234]); plain = hexdump(data, offset=off, output="string")
        try: col = hexdump(data, pal, offset=off, output="string")
        except Exception as x: bad[f"EXC {type(x).__name__}"] += 1; ex.setdefault(f"EXC {type(x).__name__}", (data, pal)); continue
        ps, cs_ = [l.rstrip() for l in plain.split("\n")], [l.rstrip() for l in strip(col).split("\n")]
        if ps != cs_: bad["colour-not-cosmetic"] += 1; ex.setdefault("colour-not-cosmetic", (data, pal, plain, col))
        # lossless
        got = b""
        for i, l in enumerate(plain.split("\n") if plain else []):
            if int(l[:8], 16) != off + 16 * i: bad["offset"] += 1
            got += bytes.fromhex(l[10:59].replace(" ", ""))
        if got != data: bad["lossy"] += 1; ex.setdefault("lossy", (data, plain))
    for _ in range(n):
        bits = rnd.choice([8, 16, 24, 32, 64]); v = rnd.randrange(1 << bits); e = rnd.choice(["little", "big", "<", ">", "!", "network"])
        if unpack(pack(v, bits, e), bits, e) != v: bad["pack/unpack"] += 1
        sv = v - (1 << (bits - 1))
        if unpack(pack(sv, bits, e), bits, e, sign=True) != sv: bad["pack/unpack-signed"] += 1; ex.setdefault("pack/unpack-signed", (sv, bits, e))
        if bits in (16, 32, 64) and swap(swap(v, bits), bits) != v: bad["swap"] += 1
    print("C19", n, dict(bad)); [print("   ", k, str(v)[:600]) for k, v in ex.items()]
c10(int(sys.argv[1]), 4000); c19(int(sys.argv[1]), 3000)
