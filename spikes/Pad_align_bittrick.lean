namespace Pad

/-- Python's `&` on unbounded ints (two's complement), defined without Mathlib. -/
def land : Int → Int → Int
  | .ofNat m, .ofNat n => ((m &&& n : Nat) : Int)
  | .ofNat m, .negSucc n => ((Nat.bitwise (fun a b => a && !b) m n : Nat) : Int)
  | .negSucc m, .ofNat n => ((Nat.bitwise (fun a b => a && !b) n m : Nat) : Int)
  | .negSucc m, .negSucc n => .negSucc (m ||| n)

/-- `-offset & (alignment - 1)` exactly as written in structure.py -/
def pyPad (o a : Nat) : Int := land (-(o : Int)) ((a : Int) - 1)

def pad (o a : Nat) : Nat := (a - o % a) % a

theorem ldiff_mask (k m : Nat) :
    Nat.bitwise (fun a b => a && !b) (2^k - 1) m = 2^k - 1 - m % 2^k := by
  apply Nat.eq_of_testBit_eq
  intro i
  rw [Nat.testBit_bitwise (by rfl)]
  have h1 : 2^k - 1 - m % 2^k = 2^k - (m % 2^k + 1) := by omega
  rw [h1, Nat.testBit_two_pow_sub_succ (Nat.mod_lt _ (Nat.two_pow_pos k)), Nat.testBit_two_pow_sub_one,
    Nat.testBit_mod_two_pow]
  by_cases h : i < k <;> simp [h]

theorem land_zero_left (x : Int) : land 0 x = 0 := by
  cases x with
  | ofNat n => show land (Int.ofNat 0) (Int.ofNat n) = 0; simp [land]
  | negSucc n => show land (Int.ofNat 0) (Int.negSucc n) = 0; simp [land, Nat.bitwise]

theorem pyPad_eq (o k : Nat) : pyPad o (2^k) = (pad o (2^k) : Nat) := by
  unfold pyPad pad
  have hpos : 0 < 2^k := Nat.two_pow_pos k
  generalize ha : 2^k = a at hpos
  have h2 : ((a : Nat) : Int) - 1 = Int.ofNat (a - 1) := by
    show _ = ((a - 1 : Nat) : Int); omega
  cases o with
  | zero => simp [land_zero_left]
  | succ m =>
    have h1 : -(((m + 1 : Nat)) : Int) = Int.negSucc m := by rfl
    rw [h1, h2]
    simp only [land]
    rw [← ha, ldiff_mask, ha]
    congr 1
    have hr := Nat.mod_lt m hpos
    have hm := Nat.div_add_mod m a
    by_cases hc : m % a + 1 < a
    · have h3 : (m + 1) % a = m % a + 1 := by
        have : m + 1 = a * (m / a) + (m % a + 1) := by omega
        rw [this, Nat.mul_comm, Nat.mul_add_mod_of_lt hc]
      rw [h3]
      have hlt : a - (m % a + 1) < a := by omega
      rw [Nat.mod_eq_of_lt hlt]; omega
    · have hr1 : m % a + 1 = a := by omega
      have h3 : (m + 1) % a = 0 := by
        have : m + 1 = a * (m / a + 1) := by rw [Nat.mul_add, Nat.mul_one]; omega
        rw [this, Nat.mul_mod_right]
      rw [h3, Nat.sub_zero, Nat.mod_self]; omega

#print axioms pyPad_eq
end Pad
