import io, traceback, ast
from dissect.cstruct import cstruct, Expression, dumpstruct, hexdump
from dissect.cstruct.utils import pack, unpack, swap
from dissect.cstruct.tools.stubgen import generate_cstruct_stub

def sec(t): print("\n#####", t)
def tr(f):
    try: return f()
    except Exception as ex: return f"EXC {type(ex).__name__}: {ex}"

sec("C11 union anonymous struct largest")
cs = cstruct(); cs.load("union U { struct { uint32 a; uint32 b; }; uint32 c; };")
u = cs.U(bytes(range(1,9)))
print(u, len(cs.U), u.dumps())
cs = cstruct(); cs.load("union U2 { struct { uint32 a; uint32 b; } s; uint32 c; };")
u = cs.U2(bytes(range(1,9))); print(u, u.dumps())
u.c = 0xAABBCCDD; print(u, u.dumps())
u.s.b = 0x11223344; print(u, u.dumps())

sec("C11 union with padded member aligned")
cs = cstruct(); cs.load("union U3 { struct { uint8 a; uint32 b; } s; uint8 c[8]; };", align=True)
u = cs.U3(bytes(range(1,9))); print(u, u.dumps(), cs.U3.size, cs.U3.alignment)
cs = cstruct(); cs.load("union U4 { struct { uint8 a; uint32 b; } s; uint8 c[6]; };", align=True)
u = cs.U4(bytes(range(1,9))); print(u, u.dumps(), cs.U4.size, cs.U4.alignment)

sec("C16 pointer in union deref")
cs = cstruct(pointer="uint8"); cs.load("union UP { uint8 *p; uint8 raw; }; struct SP { uint8 pad[4]; UP u; uint8 tgt[8]; };")
data = bytes([0,0,0,0, 6, 0xAA,0xBB,0xCC,0xDD,0xEE,0xFF,0x11,0x22])
s = cs.SP(data); print(s, tr(lambda: s.u.p.dereference()), "expected data[6]=", hex(data[6]))

sec("C16 compiled pointer with Int pointer type")
for comp in (False, True):
    cs = cstruct(pointer="uint24"); cs.load("struct P { uint8 *p; uint8 x; };", compiled=comp)
    print(comp, cs.P.__compiled__, tr(lambda: cs.P(b"\x04\x00\x00\x07\x99")), tr(lambda: cs.P(b"123\x07\x99")))
    print(comp, tr(lambda: cs.P(b"\x04\x00\x00\x07\x99").p.dereference()))

sec("C19 dumpstruct bitfields")
cs = cstruct(); cs.load("struct B { uint8 a:4; uint8 b:4; uint16 c; };")
print(tr(lambda: dumpstruct(cs.B(b"\x12\x34\x56"), output="string")))
print(tr(lambda: dumpstruct(cs.B(b"\x12\x34\x56"), output="string", color=False)))
print("pack(-129):", tr(lambda: pack(-129)), "pack(0):", pack(0), "swap(swap(-1,16),16)", swap(swap(-1,16),16), "swap(1,12)", tr(lambda: swap(1,12)))

sec("C20 stubgen")
for d in ["enum { A, B };", "typedef uint32 *PTR;", "typedef char NAME[16];", "#define X 1.5\n#define Y (1+\n", "struct S { enum E2 : uint8 { Q } e; };" , "typedef struct { uint8 a; } T1, T2;", "struct S { struct { uint8 a; } x[2]; };", "#define class 3\n"]:
    cs = cstruct(); r = tr(lambda: cs.load(d))
    if isinstance(r, str): print(repr(d), "LOAD", r); continue
    s = tr(lambda: generate_cstruct_stub(cs))
    ok = tr(lambda: ast.parse(s) and "valid")
    print(repr(d), "->", ok); print(s)
