"""C08 family (round 7): CALL FORMS x FEW-MEMBER AGGREGATES - every cut of a valid input through every way the library offers
to hand bytes to a type.

The other C08 probes feed every cut point through ONE call form (T(io.BytesIO(cut))).  The library has several, and they do
not share one code path: the metaclass __call__ of a type looks at its argument and decides between reading a stream,
wrapping a buffer in a stream and CONSTRUCTING a value.  The documented construction shortcut: a char / char[N] type - and a
structure or union whose ONLY member is a char / char[N] - called with a `bytes` object of EXACTLY the size of the type takes
the bytes as the value without parsing (there value construction and parsing agree: the probe checks that they do).  Every
other length, and every other argument type, must parse - and a parse of a shortened input must not fabricate.

What is generated (all driven by the PRNG handed in):

  aggregates   struct / union T with 1 (most), 2 or 3 members (the multi-member ones are the controls).  A lone member is
               mostly bytes-like: char, unsigned char, char[N] (N = 0..17), char[N][M], wchar / wchar_t, wchar[N], uint8 / int8 /
               BYTE / signed char [N], null-terminated char[] / wchar[] / uint8[] (structures only); otherwise a number, float, enum,
               pointer, array of those, a lone bit-field (char : 8, uint8 : 3, uint16 : 9) or a nested / anonymous / array-of
               aggregate that has few members itself.  The first rounds walk through a directed list (DIRECTED) so that every seed
               meets every lone-member shape as struct and as union.  Every definition under {<, >} x {packed, aligned} x
               {interpreted, compiled} (a sample per definition), with `struct W { T inner; }` loaded next to it.
  bare types   the types themselves, without an aggregate around them: cs.char, cs.char[N], cs.wchar[N], cs.uint8[N], numbers,
               floats, enums, LEB128, 2-d and null-terminated arrays of them (the scalar __call__ has a shortcut of the same kind).
  inputs       accepted by T(io.BytesIO(.)), value / extent / data mask confirmed by the reference parser (refimpl), plus 0..3
               bytes that follow the encoding.
  call forms   T(x)  T.read(x)  cs.read('T', x)  with x = bytes | bytearray | memoryview | instance of a bytes subclass |
               io.BytesIO | io.BufferedReader;  T.reads(x) with the four buffer kinds;  T[1](x)[0] and W(x).inner with bytes and
               io.BytesIO.  x holds data[:k] for EVERY k from 0 to the end of the encoding, and the whole input.

Oracle (the property, per (definition, configuration, input, k, call form)):
  * k at or before the last data-carrying byte (reference data mask; bare types: every byte carries data): the call must raise
    EOFError.  A returned value is fabricated data - whatever it looks like; another exception class is reported as well.
  * k behind the last data byte but before the end of the encoding (tail padding of aligned structures, unused bytes of a
    bit-field unit): EOFError, or exactly the value of the complete input.
  * k at or behind the end of the encoding: the call must return the value of the complete input (all call forms agree on a
    complete input - that includes the construction shortcut at exactly the size) and a stream argument must stand at the end
    of the encoding.  An exception here is a violation, not a harness crash.
  * after the failing calls of a cut the complete input parses as before (no residue).
The definitions also go through the props module's `cuts_and_faults` (every cut with the Lean model beside it, every read call
faulted), with the reference's last data byte.

Not generated here (documented, not silenced): to-end-of-stream arrays (aside by the property), dynamically sized members
inside unions (harness/v7_c08.py has those), bit-fields on int24 in aligned mode (finding F23).
"""
from __future__ import annotations

import io
import itertools

from . import defs, impl, refimpl
from .structprops import load, real_parse, rand_bytes

CHARS = ["char", "char", "char", "unsigned char"]
WIDES = ["wchar", "wchar", "wchar_t"]
BYTEINTS = ["uint8", "int8", "BYTE", "signed char", "u1"]
NUMBERS = ["uint16", "int16", "uint32", "int32", "uint64", "int64", "uint24", "int24", "uint48", "int128", "WORD", "DWORD",
           "unsigned int", "float16", "float", "double"]
LENGTHS = [1, 1, 2, 2, 3, 4, 4, 5, 7, 8, 8, 9, 12, 16, 17]


class BytesSub(bytes):
    """an instance of a subclass of bytes (isinstance(x, bytes) holds)"""


def F(ty, name="v", bits=None):
    return {"name": name, "ty": ty, "bits": bits}


def arr(ty, n):
    return ("arr", ty, ("fixed", n) if n is not None else ("null",))


def bytes_like(rnd, dyn_ok):
    r = rnd.random()
    n = rnd.choice(LENGTHS)
    if r < 0.16:
        return ("sc", rnd.choice(CHARS))
    if r < 0.52:
        return arr(("sc", rnd.choice(CHARS)), n)
    if r < 0.54:
        return arr(("sc", "char"), 0)
    if r < 0.60:
        return arr(arr(("sc", "char"), rnd.randint(1, 4)), rnd.randint(1, 3))
    if r < 0.65:
        return ("sc", rnd.choice(WIDES))
    if r < 0.77:
        return arr(("sc", rnd.choice(WIDES)), min(n, 8))
    if r < 0.90 or not dyn_ok:
        return arr(("sc", rnd.choice(BYTEINTS)), n)
    return arr(("sc", rnd.choice(["char", "char", "wchar", "uint8"])), None)


def other(rnd, depth, names):
    r = rnd.random()
    if r < 0.40:
        return ("sc", rnd.choice(NUMBERS + BYTEINTS))
    if r < 0.52:
        return ("enum", rnd.choice(list(defs.ENUMS)))
    if r < 0.64:
        return arr(("sc", rnd.choice(NUMBERS)), rnd.randint(1, 3))
    if r < 0.70:
        return arr(("enum", rnd.choice(list(defs.ENUMS))), rnd.randint(1, 3))
    if r < 0.76:
        return ("ptr", ("sc", rnd.choice(["char", "uint8", "uint32"])))
    if depth > 0:
        return nested(rnd, depth, names)
    return ("sc", rnd.choice(NUMBERS))


def nested(rnd, depth, names):
    kind = "union" if rnd.random() < 0.3 else "struct"
    return (kind, members(rnd, kind, rnd.choice([1, 1, 1, 2]), depth - 1, names, dyn_ok=False))


def members(rnd, kind, n, depth, names, dyn_ok):
    out = []
    for i in range(n):
        last = i == n - 1
        r = rnd.random()
        dyn = dyn_ok and last and kind == "struct"
        if n == 1:
            if r < 0.68:
                out.append(F(bytes_like(rnd, dyn), next(names)))
            elif r < 0.80 and depth > 0:
                t = nested(rnd, depth, names)
                q = rnd.random()
                if q < 0.3:
                    out.append(F(t, None))
                elif q < 0.5:
                    out.append(F(arr(t, rnd.randint(1, 2)), next(names)))
                else:
                    out.append(F(t, next(names)))
            elif r < 0.86 and kind == "struct":
                ty, b = rnd.choice([(("sc", "char"), 8), (("sc", "char"), 3), (("sc", "uint8"), 3), (("sc", "uint16"), 9), (("sc", "uint32"), 32), (("enum", "E8"), 8)])
                out.append(F(ty, next(names), b))
            else:
                out.append(F(other(rnd, 0, names), next(names)))
        else:
            if r < (0.6 if i == 0 else 0.4):
                out.append(F(bytes_like(rnd, dyn), next(names)))
            else:
                t = other(rnd, depth, names)
                anon = t[0] in ("struct", "union") and rnd.random() < 0.3
                out.append(F(t, None if anon else next(names)))
    return out


def namegen():
    for i in itertools.count(1):
        yield f"m{i}"


def gen_tree(rnd):
    kind = "union" if rnd.random() < 0.3 else "struct"
    n = rnd.choice([1, 1, 1, 1, 1, 1, 2, 2, 2, 3])
    return (kind, members(rnd, kind, n, rnd.choice([1, 1, 2]), namegen(), dyn_ok=True))


C, UC, W8, U8 = ("sc", "char"), ("sc", "unsigned char"), ("sc", "wchar"), ("sc", "uint8")
DIRECTED_MEMBERS = [
    [F(C)], [F(arr(C, 1))], [F(arr(C, 2))], [F(arr(C, 8))], [F(arr(C, 17))], [F(arr(UC, 3))], [F(UC)], [F(arr(C, 0))],
    [F(arr(arr(C, 2), 2))], [F(W8)], [F(arr(W8, 2))], [F(arr(("sc", "wchar_t"), 5))], [F(arr(U8, 4))], [F(arr(("sc", "int8"), 3))],
    [F(arr(("sc", "BYTE"), 8))], [F(("struct", [F(arr(C, 4), "i")]))], [F(("struct", [F(arr(C, 4), "i")]), None)], [F(("union", [F(arr(C, 6), "i")]))],
    [F(arr(("struct", [F(C, "i")]), 2))], [F(("sc", "uint32"))], [F(("enum", "E8"))], [F(("ptr", C))],
    [F(arr(C, 2), "a"), F(arr(C, 2), "b")], [F(arr(C, 4), "a"), F(U8, "b")], [F(C, "a"), F(("sc", "uint32"), "b")], [F(arr(C, 8), "a"), F(("sc", "uint16"), "b"), F(C, "c")],
]
DIRECTED = [(k, m) for m in DIRECTED_MEMBERS for k in ("struct", "union")] + \
    [("struct", [F(arr(C, None))]), ("struct", [F(arr(W8, None))]), ("struct", [F(arr(U8, None))]), ("struct", [F(C, "v", 8)]), ("struct", [F(U8, "v", 3)]),
     ("struct", [F(("sc", "uint16"), "v", 9)]), ("struct", [F(U8, "n"), F(arr(C, None), "s")])]


# ------------------------------------------------------------------------------------------------ arguments and call forms

def _buffered(b):
    return io.BufferedReader(io.BytesIO(bytes(b)))


# (label, factory, source text for the repro, is a stream)
ARGS = [
    ("bytes", bytes, "bytes.fromhex({h!r})", False),
    ("bytearray", bytearray, "bytearray.fromhex({h!r})", False),
    ("memoryview", lambda b: memoryview(bytes(b)), "memoryview(bytes.fromhex({h!r}))", False),
    ("bytes-subclass", BytesSub, "type('B', (bytes,), {{}})(bytes.fromhex({h!r}))", False),
    ("BytesIO", io.BytesIO, "io.BytesIO(bytes.fromhex({h!r}))", True),
    ("BufferedReader", _buffered, "io.BufferedReader(io.BytesIO(bytes.fromhex({h!r})))", True),
]
ALL = [a[0] for a in ARGS]
BUFFERS = [a[0] for a in ARGS if not a[3]]
# (label with {x}, callable(ctx, x), argument kinds, needs)
CALLS = [
    ("T({x})", lambda c, x: c["T"](x), ALL, None),
    ("T.read({x})", lambda c, x: c["T"].read(x), ALL, None),
    ("T.reads({x})", lambda c, x: c["T"].reads(x), BUFFERS, None),
    ("cs.read({name!r}, {x})", lambda c, x: c["cs"].read(c["name"], x), ALL, "name"),
    ("T[1]({x})[0]", lambda c, x: c["T"][1](x)[0], ["bytes", "BytesIO"], "array"),
    ("W({x}).inner", lambda c, x: c["W"](x).inner, ["bytes", "BytesIO"], "W"),
]


def forms(ctx):
    out = []
    for label, fn, kinds, needs in CALLS:
        if needs == "name" and not ctx.get("name"):
            continue
        if needs == "W" and ctx.get("W") is None:
            continue
        if needs == "array" and not ctx.get("array", True):
            continue
        for a in ARGS:
            if a[0] in kinds:
                out.append((label, fn, a))
    return out


def attempt(fn, ctx, arg, payload):
    """-> ('ok', canonical value, stream position or None) | ('err', exception class name) | ('unreadable', text)"""
    x = arg[1](payload)
    try:
        v = fn(ctx, x)
    except Exception as e:  # noqa: BLE001
        return ("err", type(e).__name__)
    try:
        return ("ok", impl.canon(v), x.tell() if arg[3] else None)
    except Exception as e:  # noqa: BLE001
        return ("unreadable", f"{type(e).__name__}: {e}")


def probe(res, viol, ctx, data, full_val, end, last, key, case, *, residue=None):
    """every call form x every cut of one accepted input.  full_val / end: canonical value and extent of the complete input as
    T(io.BytesIO(data)) gives them; last: index of the last data-carrying byte or None (then a cut before `end` may raise or
    return the complete value); viol(what, case dict)."""
    fl = forms(ctx)
    ends = {}
    nbad = 0

    def bad(what, k, label, arg):
        nonlocal nbad
        nbad += 1
        if nbad > 6:   # one definition, one defect: a handful of witnesses is enough
            return
        h = bytes(data[:k]).hex()
        call = label.format(x=arg[2].format(h=h), name=ctx.get("name"))
        viol(f"{call}: {what}", dict(case, call=call, cut=k, data=bytes(data).hex(), argument=arg[0],
                                      repro=case.get("repro", "") + f"; import io; print(repr({call}))"))

    # the complete input through every form: the value of the complete input, and where a stream stands afterwards
    for label, fn, arg in fl:
        o = attempt(fn, ctx, arg, data)
        res.count((*key, label, arg[0], "complete"), False)
        if o[0] != "ok":
            bad(f"the complete input ({len(data)} bytes, encoding ends at {end}) " + ("raises " + o[1] if o[0] == "err" else "returns an object that cannot be read: " + o[1]),
                len(data), label, arg)
            ends[(label, arg[0])] = None
            continue
        if not impl.same_val(full_val, o[1], ignore_union_buf=True):
            bad(f"the complete input returns {str(o[1])[:160]}; T(io.BytesIO(...)) gives {str(full_val)[:160]}", len(data), label, arg)
        if arg[3]:
            ends[(label, arg[0])] = o[2]
            if label.startswith("T") and "[1]" not in label and o[2] != end:
                bad(f"the stream stands at {o[2]} after the complete input, the encoding ends at {end}", len(data), label, arg)
    for k in range(0, end + 1):
        cut = data[:k]
        failed = False
        for label, fn, arg in fl:
            if ends.get((label, arg[0]), 0) is None:
                continue
            # W and T[1] may end later than T (their own tail padding): between the two ends either outcome is fine
            own_end = max(end, ends.get((label, arg[0])) or ends.get((label, "BytesIO")) or end)
            o = attempt(fn, ctx, arg, cut)
            res.count((*key, label, arg[0], k), k < end)
            if o[0] == "unreadable":
                bad(f"input cut to {k} of {end} bytes returns an object that cannot be read: {o[1]}", k, label, arg)
                continue
            if o[0] == "err":
                failed = True
                if k >= own_end:
                    bad(f"{k} bytes hold the complete encoding ({end} bytes) but the call raises {o[1]}", k, label, arg)
                elif o[1] != "EOFError":
                    bad(f"input cut to {k} of {end} bytes raises {o[1]}, not EOFError", k, label, arg)
                else:
                    res.feat("callform:cut raises EOFError")
                continue
            same = impl.same_val(full_val, o[1], ignore_union_buf=True)
            if k < end and last is not None and k <= last:
                bad(f"input cut to {k} of {end} bytes (last data-carrying byte: index {last}) returns {str(o[1])[:160]} instead of raising EOFError "
                    f"(the complete input gives {str(full_val)[:160]})", k, label, arg)
            elif not same:
                bad(f"input cut to {k} of {end} bytes returns {str(o[1])[:160]}; the complete input gives {str(full_val)[:160]}", k, label, arg)
            elif k < end:
                res.feat("callform:cut behind the last data byte returns the complete value")
            elif k == end:
                if arg[3] and label.startswith("T") and "[1]" not in label and o[2] != end:
                    bad(f"the stream stands at {o[2]} after the parse, the encoding ends at {end}", k, label, arg)
                res.feat("callform:exactly the encoding:" + arg[0])
        if failed and residue is not None:
            why = residue()
            if why:
                bad(f"after the failed calls on the input cut to {k} bytes {why} (residue)", k, "T({x})", ARGS[4])
    return nbad


# ------------------------------------------------------------------------------------------------ inputs

def candidates(rnd, size, n):
    dyn = size is None
    for _ in range(n):
        m = size if not dyn else rnd.choice([2, 3, 5, 8, 12])
        r = rnd.random()
        if r < 0.45:
            body = bytes(rnd.choice(b"ABCDEFGHabcxyz0123 ._\x01\x7f") for _ in range(m))
        elif r < 0.6:
            body = bytes(rnd.choice([0, 0x41, 0x42, 0x20, 1]) for _ in range(m))
        else:
            body = rand_bytes(rnd, m)
        if dyn:
            body = body + bytes(4)
        yield body


def parse_plain(T, data):
    """-> ('ok', canonical value, end) | ('err', class): T(io.BytesIO(data)), the form every other probe uses"""
    s = io.BytesIO(data)
    try:
        v = T(s)
        return ("ok", impl.canon(v), s.tell())
    except Exception as e:  # noqa: BLE001
        return ("err", type(e).__name__)


def accepted_input(rnd, parse, size, tries=6):
    """-> (data, full) with full = parse(data) = ('ok', value, end), data = one encoding + 0..3 following bytes; or None"""
    for cand in candidates(rnd, size, tries):
        w = parse(cand)
        if w[0] != "ok":
            continue
        extra = rnd.choice([0, 0, 1, 3])
        data = cand[: w[2]] + bytes(rnd.choice(b"\x00Z\xff\x41") for _ in range(extra))
        full = parse(data)
        if full[0] == "ok" and full[2] == w[2] and impl.same_val(w[1], full[1]):
            return data, full
    return None


# ------------------------------------------------------------------------------------------------ the two sub-families

def kind_of(tree):
    fs = tree[1]
    if len(fs) != 1:
        return f"{tree[0]} with {len(fs)} members (control)"
    f = fs[0]
    t = f["ty"]
    dims = 0
    while t[0] == "arr":
        dims += 1
        dyn = t[2][0] != "fixed"
        t = t[1]
        if dyn:
            return f"{tree[0]} with a lone null-terminated array"
    if f["bits"]:
        return f"{tree[0]} with a lone bit-field"
    if t[0] == "sc" and refimpl.ALIAS.get(t[1], t[1]) == "char":
        return f"{tree[0]} with a lone char" + (" array" if dims == 1 else " array (2-d)" if dims else "")
    if t[0] == "sc" and refimpl.ALIAS.get(t[1], t[1]) == "wchar":
        return f"{tree[0]} with a lone wchar" + (" array" if dims else "")
    if t[0] == "sc" and dims and refimpl.ALIAS.get(t[1], t[1]) in ("uint8", "int8"):
        return f"{tree[0]} with a lone byte-integer array"
    if t[0] in ("struct", "union"):
        return f"{tree[0]} with a lone nested aggregate"
    return f"{tree[0]} with a lone other member"


def aggregates(env, eng, res, rnd, cuts_and_faults):
    tier = env["tier"]
    rounds = 150 if tier == "quick" else 2500
    configs = list(itertools.product("<>", (False, True), (False, True)))
    for it in range(rounds):
        tree = DIRECTED[it] if it < len(DIRECTED) else gen_tree(rnd)
        tree = (tree[0], [dict(f) for f in tree[1]])
        for endian, align, compiled in rnd.sample(configs, 2 if tier == "quick" else 4):
            pointer = rnd.choice(["uint64", "uint32", "uint16"])
            L, err = load(tree, endian=endian, align=align, compiled=compiled, pointer=pointer)
            if L is None:
                # every definition of this family is plain C; one that cannot be loaded cannot be parsed either
                eng.report(f"definition rejected: {type(err).__name__}: {err}", {"definition": defs.render_struct("T", tree), "endian": endian, "align": align, "compiled": compiled}, [])
                continue
            T = L.T
            sigs = eng.sigs(L)
            W = None
            if tier != "quick" or rnd.random() < 0.4:   # (a load costs some milliseconds: the quick tier embeds a part of the definitions only)
                try:
                    L.cs.load("struct W { T inner; };", compiled=compiled, align=align)
                    W = L.cs.W
                except Exception as e:  # noqa: BLE001
                    eng.report(f"a structure that embeds T cannot be defined: {type(e).__name__}: {e}", eng.case_data(L), sigs)
            got = accepted_input(rnd, lambda d: real_parse(T, d)[0], T.size)
            if got is None:
                res.feat("callform:no accepted input")
                continue
            data, full = got
            end = full[2]
            cfg = refimpl.Cfg(endian, align, pointer, impl.CONSTS)
            last = None
            try:
                rv, rend, mask = refimpl.parse(tree, data, 0, cfg)
                if impl.same_val(full[1], rv) and rend == end:
                    last = max((i for i, m in enumerate(mask) if m), default=-1)
            except Exception:  # noqa: BLE001
                pass
            # which value an input denotes is C01 / C07's business; here only: cuts never fabricate
            res.feat("callform:inputs " + ("(value, extent and data mask as the reference parser gives them)" if last is not None else
                                           "(the reference differs: cuts are judged against the complete parse only)"))
            res.feat("callform:" + kind_of(tree))
            res.feat("callform:" + ("compiled" if compiled else "interpreted") + (", aligned" if align else ", packed"))
            ctx = {"T": T, "cs": L.cs, "name": "T", "W": W}
            case = eng.case_data(L)
            if W is not None:
                case["repro"] += f"; cs.load('struct W {{ T inner; }};', compiled={compiled}, align={align}); W=cs.W"

            def residue():
                again, _ = real_parse(T, data)
                if again[0] != "ok":
                    return f"the complete input no longer parses ({again[1]})"
                if not impl.same_val(full[1], again[1]) or again[2] != end:
                    return f"the complete input parses to {str(again[1])[:120]} (end {again[2]}), before: {str(full[1])[:120]} (end {end})"
                return None

            probe(res, lambda w, d: eng.report(w, d, sigs), ctx, data, full[1], end, last, (L.text, endian, align, compiled), case, residue=residue)
            if rnd.random() < (0.5 if tier == "quick" else 0.8):
                cuts_and_faults(eng, res, L, tree, data, full, sigs, endian=endian, align=align, compiled=compiled, last_data=last)
        if len(eng.lines) > 4000:
            eng.flush()
    eng.flush()


BARE_BASES = ["char", "char", "unsigned char", "wchar", "wchar_t", "uint8", "int8", "BYTE", "uint16", "int24", "uint32", "int64", "uint128",
              "float16", "float", "double", "E8", "F16", "E32", "E24", "uleb128", "ileb128"]


def bare_types(env, eng, res, rnd):
    tier = env["tier"]
    dc = impl.dc()
    for it in range(60 if tier == "quick" else 1500):
        endian = rnd.choice("<>")
        base = BARE_BASES[it % len(BARE_BASES)] if it < 2 * len(BARE_BASES) else rnd.choice(BARE_BASES)
        r = rnd.random()
        dims = [] if r < 0.3 else [rnd.choice(LENGTHS)] if r < 0.7 else [rnd.randint(1, 3), rnd.randint(1, 4)] if r < 0.8 else [None] if r < 0.95 else [0]
        if it < len(BARE_BASES):
            dims = [rnd.choice(LENGTHS)] if base in ("char", "unsigned char", "wchar", "wchar_t", "uint8", "int8", "BYTE") else []
        src = f"cs.resolve({base!r})" + "".join(f"[{d}]" for d in dims)
        case = {"type": base + "".join(f"[{'' if d is None else d}]" for d in dims), "endian": endian,
                "repro": f"from dissect.cstruct import cstruct; cs=cstruct(endian={endian!r}); cs.load({defs.PREAMBLE!r}); T={src}"}
        try:
            cs = dc.cstruct(endian=endian)
            cs.load(defs.PREAMBLE)
            T = cs.resolve(base)
            for d in dims:
                T = T[d]
        except Exception as e:  # noqa: BLE001
            eng.report(f"the type cannot be made: {type(e).__name__}: {e}", case, [])
            continue
        got = accepted_input(rnd, lambda d: parse_plain(T, d), T.size)
        if got is None:
            res.feat("callform:bare type: no accepted input")
            continue
        data, full = got
        end = full[2]
        res.feat("callform:bare type " + ("scalar" if not dims else "null-terminated array" if dims == [None] else "array"))
        ctx = {"T": T, "cs": cs, "name": base if not dims else None, "W": None, "array": False}
        # scalars and arrays of scalars have no padding: every byte up to the end carries data
        probe(res, lambda w, d: eng.report(w, d, []), ctx, data, full[1], end, end - 1, ("bare", base, tuple(dims), endian), case)


def run(env, eng, res, rnd, cuts_and_faults):
    aggregates(env, eng, res, rnd, cuts_and_faults)
    bare_types(env, eng, res, rnd)
