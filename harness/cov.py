"""Line coverage of the real library under a check (diagnostic, off by default).

VERIF_COVERAGE=<file.json> makes ./check record which lines of dissect/cstruct/*.py were executed (sys.monitoring, each
location reported once, then disabled: negligible cost).  tools/coverage.py runs all checks with it and lists the
executable lines no check reaches -- blind spots of the correspondence, not a verdict of any kind.
"""
from __future__ import annotations

import atexit
import json
import os
import sys

_hits: dict[str, set[int]] = {}


def start(path: str) -> None:
    mon = sys.monitoring
    tool = mon.COVERAGE_ID
    try:
        mon.use_tool_id(tool, "verifcov")
    except ValueError:
        return

    def on_line(code, line):
        fn = code.co_filename
        if "/dissect/cstruct/" in fn:
            _hits.setdefault(fn, set()).add(line)
        return mon.DISABLE

    mon.register_callback(tool, mon.events.LINE, on_line)
    mon.set_events(tool, mon.events.LINE)

    def dump():
        out = {}
        for fn, s in _hits.items():
            key = fn[fn.index("/dissect/cstruct/") + 1:]
            out.setdefault(key, set()).update(s)
        with open(path, "w") as fh:
            json.dump({k: sorted(v) for k, v in out.items()}, fh)

    atexit.register(dump)


if os.environ.get("VERIF_COVERAGE"):
    start(os.environ["VERIF_COVERAGE"])
