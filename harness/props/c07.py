"""C07 — array length semantics: fixed, expression, null-terminated and to-end-of-stream.

Directed product: element type x length form x reader mode, plus multi-dimensional arrays and expression lengths over
earlier fields and constants.  Oracles: the independent reference parser (element boundaries, terminator, max(0, expr),
C nesting order), the real dumps (terminator re-appended, size mismatch refused), the Lean model.

Definition sets (harness/s3_sets.py): several structures are loaded into ONE cstruct instance (one load call or one per
structure, optionally with a type re-registered in between) such that their array element types are different types with
the same name - locally tagged `struct entry {...} a[..]` with different bodies, a re-registered `entry`, the built-in
int48/uint48 pair - under every length form (expression, null-terminated, EOF, fixed, 2-dimensional); every structure of
the set is then held to the same laws as above (reference parser, dumps, size-mismatch refusal, model), in any order of use.
For aligned structures ending in x[EOF] the dump's tail padding is read back as elements: known finding F30 (classified by its
signature, printed as KNOWN-FINDING).

Mixed-form dimensions (harness/t2_arrays.py, family A): `<1-3 count fields>; ELEM a[d1][d2]([d3])` where every dimension draws its
own length form (fixed / expression over the earlier fields and constants / EOF, outermost or rarely inner / null-terminated
innermost), with constants defined after the structure on the same instance, some NAMED LIKE A FIELD (the field parsed before the
array wins) and some that are no field (the fall-back), 15 element kinds incl. a structure whose own count field is called like a
field of the enclosing structure; count values are chosen so that EOF dimensions have non-empty elements and bodies hold whole
rows; same laws (reference parser incl. consumed bytes, dumps, model); a parse that makes no progress is cut after 3 s and
reported as error class Hang.  The variant with the same-named constant defined BEFORE the structure is known finding F45 (classified by its signature)
(disabled, see run_mixed).

Partial-zero elements (family B): null-terminated arrays of 16 multi-byte element kinds (wchar, 2/3/4/6/8/16-byte integers, enums,
all-integer structures) at even and odd offsets, followed by further fields and a second null-terminated array, over inputs built
element by element so that zero bytes sit on both sides of element boundaries without forming a zero element (also single
non-zero-byte elements), 0-70 elements (around the 32/64 element marks), with, without and with a truncated terminator; the same
inputs also feed the null-terminated structures of the directed product and of the definition sets.

Count fields named like a special token (harness/v4_c07.py): `[m;] <count field>; [m;] ELEM a[<expression over it>]..; [tail;]` where the
count field is called `EOF` (the idiom of the library's test_eof: the field binds the name, so a[EOF] holds exactly as many elements
as the field says and is no to-end-of-stream array), `sizeof`, `NULL`, a type name, a definition keyword, an enum member / type
name, the structure's own name (ordinary names as control); count field of 1/2/4 bytes, signed, enum or a bit-field; the bare name or
an expression over it; a[c], a[c][k], a[k][c], a[c][c2], a[c][]; 26 element kinds incl. a structure with a count field of its own
that is called the same and one whose own a[EOF] is unbound (to-end-of-stream); with and without a field behind the array.  A
complete input is built per structure and configuration and CUT AT EVERY POSITION: where the input is too short for the announced
number of elements the parse must raise EOFError (never deliver a shorter array), in both reader modes; complete inputs (also
followed by further bytes) go through the same laws as everything else (reference parser, dumps, model).

Wrong-length values at every nesting level (harness/v9_c07.py): `[typedef ELEM row_t[k];] struct T { [m;] n; [m;] ELEM a[d1][d2]([d3][d4]); [tail;] }`
with 2-4 dimensions of mixed length forms (at least one fixed, mostly an inner one), 34 element kinds incl. structures that hold
rows / grids / nested structures of their own; the array type spelled as declarator, typedef'd rows (one or two typedefs deep), API
construction (cs.uint16[3][2], _make_array, _make_struct + compile) or via loadfile; T on its own, as a member of O, as the element of
`T ts[2]`, or no structure at all (the array type is the top-level type).  A well-formed value - decoded from a generated input by
the reference parser, constructed as plain lists / tuples by keyword, positional or attribute construction, or the library's own
parsed value - has to dump to exactly the input's bytes (C order) and parse back; then ONE fixed-size array node of the value, at
ANY depth (rows of a[2][3], rows of rows, the r[k] of a structure element, the a of the T inside O), gets a different number of
elements - shorter, longer, empty, doubled, elements shifted to a sibling row so that the totals still fit, transposed, flattened,
two nodes at once; by list methods in place, by re-assigning the field, or constructed that way - and every enclosing value (the
node, its rows/arrays/structures, the top-level value) has to refuse to dump it with ArraySizeError through TYPE.dumps(v), v.dumps(),
TYPE.write(stream, v) and v.write(stream) (io.BytesIO and a real file); the top-level results also go to the model.

Dumps that fail must not change the value (harness/v10_c07.py): multi-step sequences on ONE array value with a fault in the middle -
build a value of `ELEM a[..]` (37 element kinds; fixed / expression / null-terminated / EOF, one or two dimensions; as the bare array
type spelled by the API, a typedef or taken from the structure, as a member of T, of T inside O, of the second element of `T ts[2]`;
plain list, tuple, the library's Array, the library's parsed value), make one element unwritable (out of range, negative uleb128,
wrong type, a bad member of a structure element or of its nested structure / row, a row of the wrong length) or dump into a stream
whose k-th write() raises OSError, dump 1-3 times through TYPE.dumps(v) / v.dumps() / TYPE.write / v.write (BytesIO, real file) on any
enclosing value: after every call - raised or not - the array is the same object with the same length and elements (the terminator
of x[] belongs to the bytes, never to the value) and so is the enclosing value; then the element is repaired in place and dumped
again: exactly the bytes of the value (independently encoded for packed layouts: one terminator behind x[], none in-band; equal to
the dump of a fresh equal value for all layouts), which parse back to the value with every following field in place; the final
dump of T goes to the model.
"""
from __future__ import annotations

import itertools

from .. import defs, impl, refimpl, s3_sets, t2_arrays, v4_c07, v9_c07, v10_c07
from ..common import Result, mkrng
from ..structprops import Engine, load, real_parse, rand_bytes

S = lambda n: ("sc", n)  # noqa: E731
ELEMS = {
    "uint8": S("uint8"), "int16": S("int16"), "uint32": S("uint32"), "int64": S("int64"), "uint24": S("uint24"), "int128": S("int128"),
    "char": S("char"), "wchar": S("wchar"), "float": S("float"), "double": S("double"), "E8": ("enum", "E8"), "F16": ("enum", "F16"),
    "E32": ("enum", "E32"), "uleb128": S("uleb128"), "ileb128": S("ileb128"), "ptr": ("ptr", S("uint8")), "void": S("void"),
    "struct": ("struct", [{"name": "x", "ty": S("uint8"), "bits": None}, {"name": "y", "ty": S("uint16"), "bits": None}]),
    "dynstruct": ("struct", [{"name": "n", "ty": S("uint8"), "bits": None}, {"name": "d", "ty": ("arr", S("uint8"), ("expr", "n & 3")), "bits": None}]),
    "row": ("arr", S("uint16"), ("fixed", 2)),
    "charrow": ("arr", S("char"), ("fixed", 3)),
}
NULLTERM_OK = ["uint8", "int16", "uint32", "int64", "uint24", "int128", "char", "wchar", "E8", "F16", "E32", "uleb128", "ileb128", "struct"]
EOF_OK = ["uint8", "int16", "uint32", "uint24", "char", "wchar", "E8", "struct", "float", "uleb128", "row"]
EXPRS = ["n", "n & 3", "n - 2", "(n & 1) + K2", "K2", "n * 2 - 3", "K0", "n % 3", "-n", "n >> 1", "2 * (n & 1)", "K2 - n"]


def make_trees(rnd, tier):
    out = []
    pre = [{"name": "n", "ty": S("uint8"), "bits": None}]
    post = [{"name": "tail", "ty": S("uint8"), "bits": None}]
    for en, et in ELEMS.items():
        for k in (0, 1, 2, 3):
            out.append(("fixed", en, ("struct", pre + [{"name": "a", "ty": ("arr", et, ("fixed", k)), "bits": None}] + post)))
        for ex in (EXPRS if tier == "thorough" else rnd.sample(EXPRS, 4)):
            out.append(("expr", en, ("struct", pre + [{"name": "a", "ty": ("arr", et, ("expr", ex)), "bits": None}] + post)))
        if en in NULLTERM_OK:
            out.append(("null", en, ("struct", pre + [{"name": "a", "ty": ("arr", et, ("null",)), "bits": None}] + post)))
        if en in EOF_OK:
            out.append(("eof", en, ("struct", pre + [{"name": "a", "ty": ("arr", et, ("eof",)), "bits": None}])))
        # multi-dimensional: a[2][3] is 2 rows of 3 (C order); inner dimension may be an expression
        if en not in ("dynstruct",):
            out.append(("multidim", en, ("struct", pre + [{"name": "a", "ty": ("arr", ("arr", et, ("fixed", 3)), ("fixed", 2)), "bits": None}] + post)))
            out.append(("multidim", en, ("struct", pre + [{"name": "a", "ty": ("arr", ("arr", et, ("expr", "n & 1")), ("fixed", 2)), "bits": None}] + post)))
            out.append(("multidim", en, ("struct", pre + [{"name": "a", "ty": ("arr", ("arr", ("arr", et, ("fixed", 1)), ("fixed", 2)), ("fixed", 2)), "bits": None}] + post)))
    return out


def make_input(rnd, form, tree=None, cfg=None):
    if form == "null" and tree is not None and cfg is not None and rnd.random() < 0.4:
        # partial-zero elements: zero bytes on both sides of element boundaries, no zero element before the terminator
        return t2_arrays.emit_input(rnd, tree, cfg)
    n0 = rnd.choice([0, 1, 2, 3, 4, 5, 7, 255, 128])
    body = rand_bytes(rnd, rnd.choice([6, 13, 30, 61]))
    if form == "null" and rnd.random() < 0.7:
        cut = rnd.randrange(0, len(body))
        body = bytes(b or 1 for b in body[:cut]) + bytes(18) + body[cut:]
    return bytes([n0]) + body


def check_case(eng, res, L, form, en, data, cfg, sigs, label=None, refparse=refimpl.parse):
    """all array-length laws on one (structure `n; a[..]; tail`, input): the parse agrees with the reference parser (number of
    elements, element boundaries, consumed bytes), dumps parses back (terminator re-appended), a fixed-size array with another
    number of elements is refused, the model agrees.  `a` is the field number L.arr_index (default 1).  `refparse`: the reference
    parser to use (v4_c07.ref_parse for inputs that may end before the position of an empty array)."""
    T, tree, compiled = L.T, L.tree, L.compiled
    try:
        with t2_arrays.time_limit(3.0):  # a to-end-of-stream loop that makes no progress is reported (error class Hang), not waited for
            want, obj = real_parse(T, data)
    except t2_arrays.Hang:
        want, obj = ("err", "Hang"), None
    try:
        rv, rend, _ = refparse(tree, data, 0, cfg)
        ref = ("ok", rv, rend)
    except refimpl.Short:
        ref = ("err", "EOFError")
    except refimpl.Bad:
        ref = ("err", "Bad")
    nelem = 0
    if want[0] == "ok":
        a = want[1][1 + getattr(L, "arr_index", 1)]
        nelem = (len(a) - 1) if a[0] in ("list", "wstr") else len(a[1])
    res.count((L.text, getattr(L, "name", "T"), L.endian, L.align, compiled, data), nelem >= 1)
    res.feat(label or f"{form}:{en}")
    cd = eng.case_data(L, data=data)
    if hasattr(L, "name"):
        cd["structure"] = L.name
        cd["repro"] = "from dissect.cstruct import cstruct\n" + L.text + f"\nT = cs.{L.name}"
    if want[0] == "ok":
        if impl.contains_nan(want[1]):
            return
        if ref[0] != "ok" or not impl.same_val(want[1], ref[1], ignore_union_buf=True) or want[2] != ref[2]:
            eng.report(f"parsed {str(want[1])[:220]} consuming {want[2]}; the array semantics give {str(ref)[:220]}", cd, sigs)
            return
        d = impl.dump(T, obj)
        if d[0] != "ok":
            eng.report(f"a parsed array cannot be dumped: {d[1]}", cd, sigs)
        else:
            dumped = d[1]
            # an aligned structure that ends in x[EOF]: dumps appends the structure's tail padding after the array, which a parse
            # reads as further elements (known finding F30): classified by that signature, not excused
            sigs_back = sigs + (["F30"] if (form == "eof" and L.align) else [])
            back, _ = real_parse(T, dumped + (b"" if form == "eof" else b"\x5a"))
            if back[0] != "ok" or not impl.same_val(want[1], back[1]) or back[2] != len(d[1]):
                eng.report(f"dumps does not parse back to the same array (terminator / element boundaries): {str(back)[:200]}", cd, sigs_back)
            eng.model_write(L, want[1], d, "array dumps", sigs)
        # a fixed-size array of non-character elements with another number of elements is refused
        # (also for elements without a static size - uleb128, dynamic structures: the code used to skip the check there, fixed F62)
        if form in ("fixed", "multidim") and en not in ("char", "wchar") and isinstance(obj.a, list):
            for delta in (+1, -1):
                o2 = T(data)
                arr = list(o2.a)
                if delta < 0 and not arr:
                    continue
                new = arr + [arr[0] if arr else T.fields["a"].type.type.__default__()] if delta > 0 else arr[:-1]
                try:
                    o2.a = new
                    r = impl.dump(T, o2)
                except Exception as e:  # noqa: BLE001
                    r = ("err", impl.err_class(e))
                res.feat("size-mismatch-probe")
                if r[0] == "ok":
                    eng.report(f"dumping a fixed-size array with {len(new)} instead of {len(arr)} elements was accepted", cd, sigs)
    elif ref[0] == "ok":
        eng.report(f"parse raises {want[1]} where the array semantics give {str(ref[1])[:200]}", cd, sigs + (["F32"] if form == "eof" else []))
    elif form == "eof" and want[1] != "EOFError" and ref[1] == "EOFError":
        eng.report(f"a partial trailing element of x[EOF] raises {want[1]}, not EOFError", cd, sigs + ["F32"])
    if not (form == "eof" and want[0] == "err"):
        eng.model_read(L, data, 0, want, "array read", sigs) if not compiled else None


def run_sets(env, eng, res, rnd):
    """definition sets: several structures in one cstruct instance whose (distinct) array element types share a name"""
    tier = env["tier"]
    for _ in range(70 if tier == "quick" else 1000):
        plan = s3_sets.make_plan(rnd)
        for endian, align, compiled in itertools.product("<>", (False, True), (False, True)):
            if rnd.random() < (0.6 if tier == "quick" else 0.3):
                continue
            try:
                LS = s3_sets.LoadedSet(plan, endian=endian, align=align, compiled=compiled)
            except Exception as e:  # noqa: BLE001
                res.feat("set-rejected:" + plan["kind"])
                eng.report(f"definition set rejected: {type(e).__name__}: {e}", {"steps": plan["steps"], "endian": endian, "align": align, "compiled": compiled}, [])
                continue
            res.feat("set:" + plan["kind"])
            res.feat(f"set-members:{len(LS.members)}")
            cfg = refimpl.Cfg(endian, align, "uint64", impl.CONSTS)
            order = list(LS.members)
            if rnd.random() < 0.5:
                rnd.shuffle(order)  # the order of use is independent of the order of definition
            for M in order:
                sigs = eng.sigs(M)
                for _i in range(3 if tier == "quick" else 6):
                    check_case(eng, res, M, "fixed" if M.form == "fixed" else M.form, "set:" + M.en, make_input(rnd, M.form, M.tree, cfg), cfg, sigs)
        if len(eng.lines) > 4000:
            eng.flush()
    eng.flush()


def run_mixed(env, eng, res, rnd):
    """multi-dimensional arrays whose dimensions mix the length forms; constants named like fields (t2_arrays family A)"""
    tier = env["tier"]
    for _ in range(260 if tier == "quick" else 4000):
        plan = t2_arrays.mixed_plan(rnd)
        forms, en = plan["forms"], plan["en"]
        form = "eof" if "eof" in forms else ("multidim" if all(f == "fixed" for f in forms) else "mixed")
        for endian, align, compiled in itertools.product("<>", (False, True), (False, True)):
            if rnd.random() < (0.65 if tier == "quick" else 0.4):
                continue
            try:
                L = t2_arrays.MixedView(plan, endian=endian, align=align, compiled=compiled)
            except Exception as e:  # noqa: BLE001
                res.feat("mixdim-rejected:" + "/".join(forms))
                eng.report(f"array definition rejected: {type(e).__name__}: {e}",
                           {"definition": defs.render_struct("T", plan["tree"]), "constants": plan["consts"], "endian": endian, "align": align, "compiled": compiled}, [])
                continue
            cfg = refimpl.Cfg(endian, align, "uint64", L.consts)
            # F30 concerns only the re-parse of a dump (check_case adds it there); the parse itself is never excused
            sigs = [x for x in eng.sigs(L) if x != "F30"]
            res.feat("mixdim:" + "/".join(forms))
            res.feat("mixdim-elem:" + en)
            if any(k in plan["names"] for k in plan["consts"]):
                res.feat("mixdim-constant-named-like-a-field")
            for _i in range(3 if tier == "quick" else 6):
                check_case(eng, res, L, form, en, t2_arrays.mixed_input(rnd, plan, cfg), cfg, sigs, label=f"mixdim-case:{form}")
        if len(eng.lines) > 4000:
            eng.flush()
    eng.flush()
    if True:  # known finding F45 (found by this probe): a constant with the name of a field that is defined BEFORE the structure is folded into the
        # array type when the definition is parsed (parser.py:_parse_field_type evaluates every count without a context), so the
        # field parsed before the array never gets a say: `#define cols 3` + `struct T { uint8 cols; uint8 a[cols]; uint8 tail; };`
        # parses 01 09 08 07 06 as a=[9, 8, 7], the property gives a=[9] (with the #define after the structure it does).
        for _ in range(60):
            plan = t2_arrays.mixed_plan(rnd, early=True)
            try:
                L = t2_arrays.MixedView(plan)
            except Exception as e:  # noqa: BLE001
                # an early constant makes the count a definition-time constant; a negative one is rejected when the structure is
                # defined (a negative array size is no C either): outside the property's domain
                res.feat("mixdim-early-constant:definition-rejected:" + type(e).__name__)
                continue
            cfg = refimpl.Cfg("<", False, "uint64", L.consts)
            check_case(eng, res, L, "eof" if "eof" in plan["forms"] else "mixed", plan["en"], t2_arrays.mixed_input(rnd, plan, cfg), cfg,
                       eng.sigs(L) + ["F45"], label="mixdim-case:early-constant")
        eng.flush()


def run_straddle(env, eng, res, rnd):
    """null-terminated arrays of multi-byte elements over partial-zero elements (t2_arrays family B)"""
    tier = env["tier"]
    for en, tree, ai in t2_arrays.straddle_trees(rnd, tier):
        for endian, align, compiled in itertools.product("<>", (False, True), (False, True)):
            if tier == "quick" and rnd.random() < 0.4:
                continue
            L, err = load(tree, endian=endian, align=align, compiled=compiled)
            if L is None:
                res.feat(f"definition-rejected:null:{en}")
                eng.report(f"array definition rejected: {type(err).__name__}: {err}", {"definition": defs.render_struct('T', tree)}, [])
                continue
            L.arr_index = ai
            cfg = refimpl.Cfg(endian, align, "uint64", impl.CONSTS)
            sigs = eng.sigs(L)
            for i in range(6 if tier == "quick" else 24):
                check_case(eng, res, L, "null", en, t2_arrays.emit_input(rnd, tree, cfg, long=(i % 6 == 5)), cfg, sigs, label=f"partial-zero:{en}")
        if len(eng.lines) > 4000:
            eng.flush()
    eng.flush()


def run_named(env, eng, res, rnd):
    """count fields named like a special token (EOF, sizeof, type names, keywords ...), inputs cut at every position (v4_c07)"""
    tier = env["tier"]
    for _ in range(150 if tier == "quick" else 1200):
        plan = v4_c07.named_plan(rnd)
        tree, cn, en, form = plan["tree"], plan["cn"], plan["en"], plan["form"]
        for endian, align, compiled in itertools.product("<>", (False, True), (False, True)):
            if rnd.random() < (0.6 if tier == "quick" else 0.35):
                continue
            L, err = load(tree, endian=endian, align=align, compiled=compiled)
            if L is None:
                res.feat(f"named-rejected:{cn}")
                eng.report(f"array definition with a count field called {cn} rejected: {type(err).__name__}: {err}",
                           {"definition": defs.render_struct('T', tree), "endian": endian, "align": align, "compiled": compiled}, [])
                continue
            L.arr_index = plan["arr_index"]
            cfg = refimpl.Cfg(endian, align, "uint64", impl.CONSTS)
            # F30 concerns only the re-parse of a dump (check_case adds it there); the parse itself is never excused
            sigs = [x for x in eng.sigs(L) if x != "F30"]
            res.feat(f"named:{plan['kind']}")
            res.feat(f"named-name:{cn}")
            res.feat(f"named-elem:{en}")
            res.feat(f"named-dims:{plan['dshape']}")
            res.feat(f"named-fields:{plan['shape']}" + ("+tail" if plan["tail"] else ""))
            for _i in range(1 if tier == "quick" else 2):
                full = v4_c07.named_full(rnd, plan, cfg)
                if full is None:
                    res.feat("named-no-input-drawn")
                    continue
                for label, data in v4_c07.named_inputs(rnd, full, tier):
                    try:
                        v4_c07.ref_parse(tree, data, 0, cfg)
                        short = False
                    except refimpl.Short:
                        short = True
                    except refimpl.Bad:
                        short = False
                    if not short:
                        check_case(eng, res, L, form, en, data, cfg, sigs, label=f"named-case:{plan['kind']}:{label}", refparse=v4_c07.ref_parse)
                        continue
                    # the input ends before the announced elements (or a field) do: EOFError, never a shorter array
                    try:
                        with t2_arrays.time_limit(3.0):
                            want, _obj = real_parse(L.T, data)
                    except t2_arrays.Hang:
                        want = ("err", "Hang")
                    except Exception as e:  # noqa: BLE001 - a value the harness cannot read back is no EOFError either
                        want = ("err", f"{type(e).__name__} while reading the parsed value back")
                    res.count((L.text, endian, align, compiled, data), True)
                    res.feat(f"named-case:{plan['kind']}:short")
                    if want != ("err", "EOFError"):
                        cd = eng.case_data(L, data=data, complete_input=full, count_field=cn)
                        got = f"succeeded with {str(want[1])[:200]} consuming {want[2]}" if want[0] == "ok" else f"raised {want[1]}"
                        eng.report(f"the input ({len(data)} of the {len(full)} bytes of a complete one) is too short for the elements the count field "
                                   f"{cn} announces: EOFError is due, the parse {got}", cd, sigs)
                    if not compiled and form != "eof":
                        eng.model_read(L, data, 0, want, "array read (short input)", sigs)
        if len(eng.lines) > 4000:
            eng.flush()
    eng.flush()


def run_spacing(env, eng, res, rnd):
    """blanks inside the brackets of an array declarator are not part of the length: `a[ EOF ]`, `a[\tn & 3 ]`, `a[ 2 ][ ]` must parse
    exactly like `a[EOF]`, `a[n & 3]`, `a[2][]` (same values, same consumed bytes) - found missing for EOF (fixed: F52)"""
    import re

    tier = env["tier"]
    trees = [t for t in make_trees(rnd, "quick")]
    rnd.shuffle(trees)
    for form, en, tree in trees[: (40 if tier == "quick" else 400)]:
        endian, align, compiled = rnd.choice("<>"), rnd.random() < 0.5, rnd.random() < 0.5
        L, err = load(tree, endian=endian, align=align, compiled=compiled)
        if L is None:
            continue
        pad = lambda: rnd.choice([" ", "  ", "\t", " \t ", ""])  # noqa: E731
        text2 = re.sub(r"\[([^\[\]]*)\]", lambda m: "[" + pad() + m.group(1) + pad() + "]", L.text)
        if text2 == L.text:
            continue
        res.feat(f"bracket-spacing:{form}")
        case = {"definition": L.text, "spaced": text2, "endian": endian, "align": align, "compiled": compiled}
        try:
            cs2 = impl.dc().cstruct(endian=endian, pointer="uint64")
            cs2.load(text2, compiled=compiled, align=align)
            T2 = cs2.T
        except Exception as e:  # noqa: BLE001
            eng.report(f"the definition with blanks inside the array brackets is rejected: {type(e).__name__}: {e}", case, [])
            continue
        cfg = refimpl.Cfg(endian, align, "uint64", impl.CONSTS)
        for _ in range(3):
            data = make_input(rnd, form, tree, cfg)
            a, b = real_parse(L.T, data, 0)[0], real_parse(T2, data, 0)[0]
            res.count(("spacing", L.text, text2, endian, align, compiled, data), True)
            same = a[0] == b[0] and (a[1:] == b[1:] if a[0] != "ok" else (impl.same_val(a[1], b[1]) and a[2] == b[2]))
            if not same:
                eng.report(f"blanks inside the array brackets change the parse: with blanks {str(b)[:200]}, without {str(a)[:200]}", dict(case, data=data.hex()), [])


def run(env) -> Result:
    res = Result()
    res.rule = ("directed product: 21 element types (packed ints, odd-width ints, char, wchar, floats, enum/flag, LEB128, pointer, void, fixed "
                "struct, dynamic struct, int row, char row) x {fixed 0..3, expression over an earlier field and constants, null-terminated, EOF, "
                "2- and 3-dimensional} x {<,>} x {packed, aligned} x {interpreted, compiled}; inputs biased so that terminators and small counts "
                "occur. Compared: real parse vs reference parser vs Lean model; dumps re-appends terminators; wrong-size fixed arrays are refused. "
                "Definition sets: 2-4 structures in one cstruct instance whose array element types are distinct but share their name (same-tag "
                "local structs/unions with different bodies, a re-registered type, int48/uint48) under every length form, same laws per structure. "
                "Mixed-form dimensions: 1-3 count fields, 1-3 dimensions each fixed/expression/EOF/null-terminated, late constants named like "
                "fields and constants that are no field, 15 element kinds. Partial-zero elements: null-terminated arrays of 16 multi-byte "
                "element kinds over inputs whose zero bytes straddle element boundaries, 0-70 elements, further fields behind. "
                "Count fields named like a special token: the count field of a[expr] is called EOF (40 %), sizeof, NULL, a type name, a keyword, "
                "an enum member/type name, the structure's name (24 names) or plainly; 7 count-field types (1/2/4 bytes, signed, enum, alias) and bit-fields; 5 dimension "
                "shapes; 26 element kinds; with/without a field behind; a complete input per structure and configuration, cut at every "
                "position: a short input must raise EOFError, never give a shorter array; complete inputs under all the laws above. "
                "Wrong-length values at every nesting level: 2-4 dimensions of mixed forms x 34 element kinds x {declarator, typedef'd rows, API "
                "construction, loadfile} x {T, T in O, T ts[2] in O, bare array type} x configurations; a well-formed value (reference-decoded; "
                "lists, tuples, kw/positional/attribute construction, parsed) dumps to the input's bytes through TYPE.dumps/v.dumps/TYPE.write/"
                "v.write (BytesIO, file) at every enclosing value; with one fixed-size node at any depth resized, shifted between sibling rows, "
                "transposed or flattened (in place, re-assigned or constructed) every enclosing value refuses every call form with ArraySizeError. "
                "Dumps that fail must not change the value: 37 element kinds x 11 dimension shapes (fixed/expression/null-terminated/EOF, 1-2 "
                "dimensions) x {bare array type by API / typedef / field type, T, T in O, T ts[2] in O} x configurations x {list, tuple, Array, "
                "parsed value} x {element out of range, negative uleb128, wrong type, bad nested member, row of wrong length, stream whose k-th "
                "write raises OSError, no fault}: after 1-3 dumps (TYPE.dumps/v.dumps/TYPE.write/v.write; BytesIO, file, failing stream; on every "
                "enclosing value) the array value is the same object with the same length and elements; after repairing the element in place the "
                "dump is exactly the bytes of the value (independent encoder; one terminator behind x[], none in-band) and parses back to it. "
                "distinct = (definition, config, input); non-trivial = the array has >= 1 element")
    eng = Engine(env, res, "C07")
    rnd = mkrng(env["seed"], "c07")
    tier = env["tier"]
    for form, en, tree in make_trees(rnd, tier):
        for endian, align, compiled in itertools.product("<>", (False, True), (False, True)):
            if tier == "quick" and rnd.random() < 0.5:
                continue
            L, err = load(tree, endian=endian, align=align, compiled=compiled)
            if L is None:
                res.feat(f"definition-rejected:{form}:{en}")
                if not (form == "null" and en not in NULLTERM_OK):
                    eng.report(f"array definition rejected: {type(err).__name__}: {err}", {"definition": defs.render_struct('T', tree)}, [])
                continue
            cfg = refimpl.Cfg(endian, align, "uint64", impl.CONSTS)
            sigs = eng.sigs(L)
            for _ in range(4 if tier == "quick" else 16):
                check_case(eng, res, L, form, en, make_input(rnd, form, tree, cfg), cfg, sigs)
        if len(eng.lines) > 4000:
            eng.flush()
    eng.flush()
    run_sets(env, eng, res, mkrng(env["seed"], "c07-sets"))
    run_mixed(env, eng, res, mkrng(env["seed"], "c07-mixed"))
    run_straddle(env, eng, res, mkrng(env["seed"], "c07-straddle"))
    run_named(env, eng, res, mkrng(env["seed"], "c07-named"))
    run_spacing(env, eng, res, mkrng(env["seed"], "c07-spacing"))
    eng.flush()
    v9_c07.run(env, eng, res, mkrng(env["seed"], "c07-shapes"))
    eng.flush()
    v10_c07.run(env, eng, res, mkrng(env["seed"], "c07-purity"))
    eng.flush()
    return res


def replay(body) -> int:
    print("replay:", body.get("what"))
    case = body.get("case", {})
    print(case.get("repro"))
    for k, v in case.items():
        if k not in ("repro", "definition"):
            print(f"  {k}: {v}")
    return 0
