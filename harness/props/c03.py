"""C03 — the compiled reader is observationally equivalent to the interpreted reader.

For every generated definition both readers are loaded from the same text; compared on every input and every cut point:
value, recorded sizes of byte-occupying fields, consumed bytes, layout (size/offsets/alignment); a definition the
generator cannot handle must fall back silently. The generated source (`_read.__func__.__source__`) is translated to a
plan and validated against the field list by the Lean model (translation validation, see srcplan.py), and the compiled
reader is compared with the Lean model of the interpreted reader.

Pointer probes: the pointer width is drawn from all seven widths, including the ones that are not struct-packable
(uint24/uint48/uint128) for which the generator has to fall back; a third family (c) runs every pointer-bearing field kind
(scalar pointer, pointer arrays of one and two dimensions, char/struct pointer arrays, pointer to pointer) alone, next to
non-pointer neighbours and in pairs under every pointer width.  Dereference probe: the pointer slots of each input are
planted with addresses (null, inside the buffer, last byte, one past the end, beyond, top of the address space) and what
every pointer member/element of the parsed value dereferences to (value, recursively, or the exception class) is compared
between the two readers.  Fallback probe: a structure class with a direct pointer member (through arrays) under a
non-packable pointer type is one the generator cannot handle, so its `__compiled__` flag must be off.

Endianness spellings (family (e), harness/v9_c03.py): directed runs of scalar members of differing sizes (increasing: uint8 then
uint32, uint16 then uint64, char then double; decreasing; zig-zag; with block-splitting members in between) and samples of the
definitions of families (a), (b), (c) are loaded on objects configured with every spelling the library accepts ('<', '>', '!',
'@', '=' and the words of ENDIANNESS_MAP) through the constructor (keyword / positional), by assigning cs.endian before the load
or by switching it after the load; both readers are compared on layout, value, sizes, consumed bytes, every cut point, and once
more through another public entry point (T(bytes), reads(bytearray), read(memoryview / BytesIO / real file), cs.T[2], member of
another structure); the compiled result is also checked against the Lean model under the byte order the spelling stands for.

Pointer types of every kind (family (f), harness/v10_c03.py): the configured pointer type is drawn from all 14 fixed-width integer
types (int8 .. int128 and uint8 .. uint128: signed AND unsigned, packable and arbitrary-width) and from their alias spellings
('long long', DWORD, int32_t, u8, ...), and reaches the object through the constructor (keyword / positional), by assignment
(cs.pointer = cs.int32 / cs.resolve(...) / a loaded typedef) on an object constructed with another type, or is re-assigned after
the load through another spelling of the same type; definitions (load / loadfile) with scalar pointers, pointer arrays of one and
two dimensions, pointers to pointers / structures, pointers in nested structures and structure arrays, between packable scalars
and block-splitting members; the pointer slots are planted with the edges of the representation (zero, all ones, top bit only,
top bit + 1, largest positive) and addresses around the buffer.  Both readers are compared on layout, value (pointers as
integers AND as what they dereference to), sizes, consumed bytes, every cut point and one more public entry point; every pointer
slot must hold int.from_bytes(slot, byte order, signed = signedness of the type) by the harness' own table of the types, and
the compiled result / layout / compile-or-fallback decision are compared with the Lean model under the base type name.
"""
from __future__ import annotations

import itertools

from .. import defs, impl, refimpl, s1_mixed, s2_ptr, srcplan, v9_c03, v10_c03
from ..common import A, Result, mkrng, sx
from ..structprops import Engine, load, real_parse, small_unit_bits, rand_bytes, has_eof


def alphabet_fields():
    """the 20-letter alphabet of field kinds used for the exhaustive short sequences"""
    S = lambda n: ("sc", n)  # noqa: E731
    return {
        "u8": lambda n: [{"name": n, "ty": S("uint8"), "bits": None}],
        "u16": lambda n: [{"name": n, "ty": S("uint16"), "bits": None}],
        "u32": lambda n: [{"name": n, "ty": S("uint32"), "bits": None}],
        "u64": lambda n: [{"name": n, "ty": S("uint64"), "bits": None}],
        "i24": lambda n: [{"name": n, "ty": S("int24"), "bits": None}],
        "ch": lambda n: [{"name": n, "ty": S("char"), "bits": None}],
        "bits8": lambda n: [{"name": n + "a", "ty": S("uint8"), "bits": 3}, {"name": n + "b", "ty": S("uint8"), "bits": 5}],
        "bits32": lambda n: [{"name": n + "a", "ty": S("uint32"), "bits": 7}, {"name": n + "b", "ty": ("enum", "E32"), "bits": 9}],
        # an enum / flag bit-field sharing its unit with a bit-field of its own base type (either order): one unit for the layout and
        # the bit buffer, so the generator's offset bookkeeping must count one unit as well
        "bitsE8": lambda n: [{"name": n + "a", "ty": ("enum", "E8"), "bits": 2}, {"name": n + "b", "ty": S("uint8"), "bits": 2}],
        "bitsF16": lambda n: [{"name": n + "a", "ty": S("uint16"), "bits": 4}, {"name": n + "b", "ty": ("enum", "F16"), "bits": 4}],
        "arr": lambda n: [{"name": n, "ty": ("arr", S("uint16"), ("fixed", 2)), "bits": None}],
        "carr": lambda n: [{"name": n, "ty": ("arr", S("char"), ("fixed", 3)), "bits": None}],
        "st": lambda n: [{"name": n, "ty": ("struct", [{"name": n + "x", "ty": S("uint8"), "bits": None}, {"name": n + "y", "ty": S("uint32"), "bits": None}]), "bits": None}],
        "sarr": lambda n: [{"name": n, "ty": ("arr", ("struct", [{"name": n + "x", "ty": S("uint16"), "bits": None}]), ("fixed", 2)), "bits": None}],
        "dyn": lambda n: [{"name": n, "ty": ("arr", S("uint8"), ("null",)), "bits": None}],
        "ptr": lambda n: [{"name": n, "ty": ("ptr", S("uint8")), "bits": None}],
        "parr": lambda n: [{"name": n, "ty": ("arr", ("ptr", S("uint16")), ("fixed", 2)), "bits": None}],
        "cparr": lambda n: [{"name": n, "ty": ("arr", ("ptr", S("char")), ("fixed", 2)), "bits": None}],
        "en": lambda n: [{"name": n, "ty": ("enum", "E8"), "bits": None}],
        "void": lambda n: [{"name": n, "ty": S("void"), "bits": None}],
        "wc": lambda n: [{"name": n, "ty": ("arr", S("wchar"), ("fixed", 1)), "bits": None}],
        "z": lambda n: [{"name": n, "ty": ("arr", S("uint32"), ("fixed", 0)), "bits": None}],
    }


def pointer_fields():
    """pointer-bearing field kinds of family (c) and their non-pointer neighbours"""
    S = lambda n: ("sc", n)  # noqa: E731
    ent = lambda n: ("struct", [{"name": n + "i", "ty": S("uint16"), "bits": None}, {"name": n + "g", "ty": S("uint16"), "bits": None}])  # noqa: E731
    alpha = alphabet_fields()
    ptrs = {
        "ptr": alpha["ptr"], "parr": alpha["parr"], "cparr": alpha["cparr"],
        "cptr": lambda n: [{"name": n, "ty": ("ptr", S("char")), "bits": None}],
        "pp": lambda n: [{"name": n, "ty": ("ptr", ("ptr", S("uint16"))), "bits": None}],
        "parr3": lambda n: [{"name": n, "ty": ("arr", ("ptr", S("uint32")), ("fixed", 3)), "bits": None}],
        "parr2d": lambda n: [{"name": n, "ty": ("arr", ("arr", ("ptr", S("uint16")), ("fixed", 2)), ("fixed", 2)), "bits": None}],
        "sparr": lambda n: [{"name": n, "ty": ("arr", ("ptr", ent(n)), ("fixed", 3)), "bits": None}],
        "pparr": lambda n: [{"name": n, "ty": ("arr", ("ptr", ("ptr", S("uint8"))), ("fixed", 2)), "bits": None}],
        "parr1": lambda n: [{"name": n, "ty": ("arr", ("ptr", ("enum", "E8")), ("fixed", 1)), "bits": None}],
        "stparr": lambda n: [{"name": n, "ty": ("struct", [{"name": n + "n", "ty": S("uint8"), "bits": None},
                                                           {"name": n + "q", "ty": ("arr", ("ptr", S("char")), ("fixed", 2)), "bits": None}]), "bits": None}],
    }
    near = {k: alpha[k] for k in ("u8", "u16", "i24", "bits8", "st", "dyn", "carr", "void")}
    return ptrs, near


def run(env) -> Result:
    res = Result()
    res.rule = ("(a) all sequences of up to 3 (quick: sampled; thorough: all up to 3 and sampled 4) field kinds over a 20-letter alphabet "
                "(scalars of each alignment class, bit-field runs of two storage types, packed/char/wchar/zero-length arrays, nested struct, struct "
                "array, dynamic array, pointer, pointer arrays, enum, void); (b) seeded random definition trees; each x {<,>} x {packed, aligned} x "
                "pointer width 8..128 (packable and not); (c) 11 pointer-bearing field kinds alone, before/after 8 neighbours and in pairs x all 7 "
                "pointer widths; inputs: random buffers with addresses planted into the pointer slots, then every cut point of one accepted "
                "buffer. Compared: compiled vs interpreted (value, sizes, consumed, layout, what every pointer dereferences to), __compiled__ vs "
                "fallback required, compiled vs Lean model of the interpreted reader, generated source vs plan validator; (e) endianness "
                "spellings: directed runs of scalar members of differing sizes (increasing / decreasing / zig-zag / random, with block-splitting "
                "members) and samples of (a), (b), (c) x every spelling {<, >, !, @, =, words of ENDIANNESS_MAP} x {constructor keyword, positional, "
                "cs.endian before load, switched after load} x {packed, aligned} x pointer width; random buffers, every cut point, and one more "
                "public entry point (bytes / bytearray / memoryview / BytesIO / file object / T[2] / member of a structure); compiled vs "
                "interpreted and compiled vs Lean model under the byte order the spelling stands for; (f) pointer types of every kind: "
                "generated pointer-bearing definitions (scalar pointers, pointer arrays 1-D / 2-D, pointers to pointers / structures, pointers in "
                "nested structures and structure arrays, next to packable scalars and block-splitting members) and the kinds of (c) x the 14 "
                "fixed-width integer types int8..int128 / uint8..uint128 and their alias spellings x {constructor keyword, positional, "
                "cs.pointer = cs.<type> / cs.resolve(..) / loaded typedef, re-assigned after load to the same type} x {load, loadfile} x {<,>} x "
                "{packed, aligned}; pointer slots planted with zero / all ones / top bit / top bit + 1 / largest positive / buffer addresses; "
                "every cut point; one more public entry point; compiled vs interpreted (value, what every pointer dereferences to, sizes, "
                "consumed, layout, fallback), every slot vs int.from_bytes(slot, order, signedness of the type), compiled vs Lean model. distinct = "
                "(definition, config, input); non-trivial = >= 2 fields")
    eng = Engine(env, res, "C03")
    rnd = mkrng(env["seed"], "c03")
    tier = env["tier"]
    alpha = alphabet_fields()
    keys = list(alpha)
    trees = []
    seqs = [(a,) for a in keys] + list(itertools.product(keys, keys))
    triples = list(itertools.product(keys, keys, keys))
    seqs += triples if tier == "thorough" else rnd.sample(triples, 350)
    if tier == "thorough":
        seqs += rnd.sample(list(itertools.product(keys, keys, keys, keys)), 6000)
    for seq in seqs:
        fields = []
        for i, k in enumerate(seq):
            fields += alpha[k](f"f{i}")
        trees.append(("struct", fields))
    for _ in range(250 if tier == "quick" else 8000):
        trees.append(defs.Gen(rnd, max_depth=rnd.choice([1, 2])).struct())
    nplans = [0]
    ncompiles = [0]

    made = []

    def probe(tree, endian, align, ptr):
        # memory hygiene of the harness: the library never frees a cstruct object on which a structure was defined (class ->
        # generated __init__ -> code object -> default values -> their classes -> the object -> its type table -> class); emptying
        # the type table of the two objects of a finished probe breaks that cycle (everything the queued model comparisons need
        # has been computed by then)
        try:
            probe1(tree, endian, align, ptr)
        finally:
            for L in made:
                try:
                    L.cs.typedefs.clear()
                except Exception:  # noqa: BLE001 - housekeeping only
                    pass
            made.clear()

    def probe1(tree, endian, align, ptr):
        Li, erri = load(tree, endian=endian, align=align, compiled=False, pointer=ptr)
        Lc, errc = load(tree, endian=endian, align=align, compiled=True, pointer=ptr)
        made.extend(L for L in (Li, Lc) if L is not None)
        sigs = ["F23"] if (align and small_unit_bits(tree)) else []
        if Li is None:
            if Lc is not None:
                eng.report(f"definition loads compiled but not interpreted ({type(erri).__name__})", eng.case_data(Lc), sigs)
            return
        if Lc is None:
            eng.report(f"definition loads interpreted but fails compiled instead of falling back: {type(errc).__name__}: {errc}", eng.case_data(Li), sigs)
            return
        Ti, Tc = Li.T, Lc.T
        for k, v in defs.features(tree).items():
            res.feat(k, v)
        res.feat("compiled-flag:" + str(Tc.__compiled__))
        res.feat("pointer-width:" + ptr)
        cd0 = eng.case_data(Lc)
        if not Tc.__compiled__:
            res.feat("fallback-to-interpreted")
        if Ti.__compiled__:
            eng.report("a definition loaded with compiled=False has a generated reader installed", eng.case_data(Li), sigs)
        # layout
        if (Ti.size, Ti.alignment, [f.offset for f in Ti.__fields__]) != (Tc.size, Tc.alignment, [f.offset for f in Tc.__fields__]):
            eng.report("compiled and interpreted classes have different size/alignment/offsets", cd0, sigs)
        # generated source -> plan, validated by the model
        psx = None
        if not Tc.__compiled__ and "F23" not in sigs:
            # the generator raised and the class fell back: the model of the compiler (Lean: Compiler.compile) must raise too
            def cb_fb(s, raw, meta):
                if s[0] != "fallback":
                    eng.disagree(f"the real compiler fell back to the interpreted reader, the Lean model of the compiler answers {raw[:200]}", meta, sigs)
            ncompiles[0] += 1
            eng.ask(sx([A("compile"), Lc.cfg_sexp(), Lc.ty_sexp()]), cb_fb, cd0)
        if Tc.__compiled__ and "F23" not in sigs:
            try:
                plan = srcplan.parse_source(Tc._read.__func__.__source__)
                nplans[0] += 1
                ok, why = srcplan.validate(plan, tree, Tc, refimpl.Cfg(endian, align, ptr, impl.CONSTS))
                if not ok:
                    eng.disagree(f"generated source does not validate against the field list: {why}", dict(cd0, source=Tc._read.__func__.__source__), sigs)
                # the verified validator (Lean: Compiler.planOK, theorem c03_plan_sound) on the same plan
                psx = srcplan.plan_sexp(plan)

                def cb_ok(s, raw, meta):
                    if s[0] != "ok":
                        eng.disagree(f"the Lean plan validator does not accept the generated source ({raw[:80]})", meta, sigs)
                eng.ask(sx([A("planok"), Lc.cfg_sexp(), Lc.ty_sexp(), psx]), cb_ok, dict(cd0, source=Tc._read.__func__.__source__))

                # the Lean model of the compiler (Compiler.compile, theorem c03_compile_validates) must emit exactly this plan
                def cb_cp(s, raw, meta, want="(ok " + sx(psx) + ")"):
                    if raw != want:
                        eng.disagree(f"the Lean model of the compiler emits {raw[:400]}, the plan of the generated source is {want[:400]}", meta, sigs)
                ncompiles[0] += 1
                eng.ask(sx([A("compile"), Lc.cfg_sexp(), Lc.ty_sexp()]), cb_cp, dict(cd0, source=Tc._read.__func__.__source__))
            except srcplan.Unknown as e:
                eng.disagree(f"generated source has a statement shape the plan translator does not know: {e}", dict(cd0, source=Tc._read.__func__.__source__), sigs)
        # behaviour
        size = Ti.size if Ti.size is not None else 40
        bufs = [rand_bytes(rnd, size + rnd.choice([0, 3, 9])) for _ in range(3)]
        slots = s2_ptr.pointer_slots(Ti)
        if slots:
            # addresses planted into the pointer slots, so that dereferencing reaches the buffer (and its edges)
            psz = Ti.cs.pointer.size
            bufs = [s2_ptr.plant(rnd, d + (rand_bytes(rnd, rnd.choice([0, 6, 24])) if len(d) >= size else b""), slots, psz, endian)[0] for d in bufs]
            res.feat("pointer-slots-planted", len(slots))
        accepted = None
        for data in bufs:
            wi, oi = real_parse(Ti, data)
            wc, oc = real_parse(Tc, data)
            res.count((Lc.text, endian, align, ptr, data), len(tree[1]) >= 2)
            cd = eng.case_data(Lc, data=data)
            if wi[0] == "ok" and wc[0] == "ok":
                if not impl.same_val(wi[1], wc[1]) or wi[2] != wc[2] or wi[3] != wc[3]:
                    eng.report(f"compiled gives {str(wc)[:300]}, interpreted gives {str(wi)[:300]}", cd, sigs)
                else:
                    # the value of a pointer member is what it points at: dereference every pointer of both results
                    di, dcm = s2_ptr.deref_observations(oi), s2_ptr.deref_observations(oc)
                    if di or dcm:
                        res.feat("deref-compared", len(di))
                    if len(di) != len(dcm):
                        eng.report(f"the compiled result holds {len(dcm)} pointers, the interpreted one {len(di)}", cd, sigs)
                    for (pa, aa, oa), (pb, ab, ob) in zip(di, dcm):
                        res.feat("deref-outcome:" + oa[0])
                        if (pa, aa) != (pb, ab) or not s2_ptr.same_outcome(oa, ob):
                            eng.report(f"dereferencing {pa[1:]} (address {aa}): the compiled reader's pointer gives {s2_ptr.show(ob)}, the interpreted "
                                       f"reader's gives {s2_ptr.show(oa)}", dict(cd, member=pa[1:], address=aa), sigs)
                            break
                accepted = accepted or data
            elif wi[0] != wc[0]:
                # one raises: allowed only on an input too short for the structure
                complete = Ti.size is not None and len(data) >= Ti.size
                if complete or (wi[0] == "err" and wi[1] != "EOFError") or (wc[0] == "err" and wc[1] != "EOFError"):
                    eng.report(f"compiled gives {str(wc)[:200]}, interpreted gives {str(wi)[:200]} on a complete input", cd, sigs)
                else:
                    res.feat("short-input:one-reader-raises")
            if "F23" not in sigs:
                eng.model_read(Lc, data, 0, wc if wc[0] == "ok" or wi[0] == "err" else wi, "compiled reader vs model of the interpreted reader",
                               sigs) if (wc[0] == wi[0]) else None
                if psx is not None:
                    # the model's execution of the plan (Compiler.exec) vs the real compiled reader
                    def cb_ex(s, raw, meta, want=wc):
                        if want[0] == "ok":
                            ok = s[0] == "ok" and impl.same_val(want[1], s[1]) and int(s[2]) == want[2] and \
                                sorted((str(k), int(v)) for k, v in s[3] if int(v)) == want[3]
                        else:
                            ok = s[0] == "err" and str(s[1]) == want[1]
                        if not ok:
                            eng.disagree(f"model execution of the plan gives {raw[:300]}, the compiled reader gives {str(want)[:300]}", meta, sigs)
                    eng.ask(sx([A("execplan"), Lc.cfg_sexp(), Lc.ty_sexp(), psx, data, 0]), cb_ex, cd)
        # fallback: a class the generator cannot handle (pointer member, pointer type not struct-packable) is not compiled
        need = s2_ptr.classes_needing_fallback(Tc)
        for path, cls in need:
            res.feat("fallback-required:unpackable-pointer")
            if cls.__compiled__:
                eng.report(f"{path} has pointer members and the pointer type {ptr} is not struct-packable, so the source generator cannot handle "
                           f"it, but it did not fall back to the interpreted reader (__compiled__ is True)", cd0, sigs)
        # every cut point of one accepted buffer
        if accepted is not None:
            full, _ = real_parse(Ti, accepted)
            for k in range(min(len(accepted), full[2] + 1)):
                cut = accepted[:k]
                wi, _ = real_parse(Ti, cut)
                wc, _ = real_parse(Tc, cut)
                res.count((Lc.text, endian, align, ptr, cut), False)
                if wi[0] == "ok" and wc[0] == "ok" and (not impl.same_val(wi[1], wc[1]) or wi[2] != wc[2]):
                    eng.report(f"cut at {k}: compiled gives {str(wc)[:200]}, interpreted gives {str(wi)[:200]}", eng.case_data(Lc, data=cut), sigs)
                for w in (wi, wc):
                    if w[0] == "err" and w[1] != "EOFError" and not has_eof(tree):
                        eng.report(f"cut at {k}: raises {w[1]} instead of EOFError", eng.case_data(Lc, data=cut), sigs)
        # endianness switched after compilation
        if rnd.random() < 0.15 and accepted is not None:
            other = ">" if endian == "<" else "<"
            Lc.cs.endian = other
            Li.cs.endian = other
            wi, _ = real_parse(Ti, accepted)
            wc, _ = real_parse(Tc, accepted)
            if wi[0] == wc[0] == "ok" and not impl.same_val(wi[1], wc[1]):
                eng.report("after switching endianness the compiled reader differs from the interpreted one", eng.case_data(Lc, data=accepted), sigs)
            res.feat("endian-switch")

    widths = s2_ptr.PACKED_PTRS + ["uint64"] + s2_ptr.UNPACKED_PTRS
    for tree in trees:
        for endian, align in itertools.product("<>", (False, True)):
            if tier == "quick" and rnd.random() < 0.5:
                continue
            probe(tree, endian, align, rnd.choice(widths))
        if len(eng.lines) > 4000:
            eng.flush()
    # (c) pointer-bearing definitions under every pointer width
    ptrs, near = pointer_fields()
    pseqs = [[(k, f)] for k, f in ptrs.items()]
    pairs = [[(k, f), (n, g)] for k, f in ptrs.items() for n, g in near.items()] + [[(n, g), (k, f)] for k, f in ptrs.items() for n, g in near.items()]
    pairs += [[(k, f), (k2, f2)] for k, f in ptrs.items() for k2, f2 in ptrs.items()]
    pseqs += pairs if tier == "thorough" else rnd.sample(pairs, 60)
    for seq in pseqs:
        fields = []
        for i, (_, mk) in enumerate(seq):
            fields += mk(f"f{i}")
        tree = ("struct", fields)
        for ptr in s2_ptr.ALL_PTRS:
            cfgs = list(itertools.product("<>", (False, True)))
            for endian, align in (cfgs if tier == "thorough" else rnd.sample(cfgs, 1)):
                res.feat("family-c:pointer-definitions")
                probe(tree, endian, align, ptr)
        if len(eng.lines) > 4000:
            eng.flush()
    # (d) mixed alignment modes and start positions: named sub-definitions loaded with their own `align` flag on one instance (both
    # readers), parsed from stream positions 0 and from aligned positions behind a prefix; the two readers must agree on value,
    # consumed bytes and recorded sizes wherever both return (the same definition, the same bytes, only the reader differs)
    mrnd = mkrng(env["seed"], "c03-mixed")
    for _ in range(180 if tier == "quick" else 5000):
        g = defs.Gen(mrnd, max_depth=mrnd.choice([1, 2, 2, 3]))
        pick = mrnd.random()
        if pick < 0.3:
            plan, tree2 = s1_mixed.directed_dynamic(mrnd, g)
        elif pick < 0.55:
            plan, tree2 = s1_mixed.directed_bits(mrnd, g)
            res.feat("family-d:directed-bit-fields")
        else:
            tree = s1_mixed.with_nested(mrnd, g, g.struct(), dyn_p=0.5)
            plan, tree2 = defs.hoist(tree, mrnd, p=0.7, top_align=mrnd.random() < 0.5, mixed=True)
        endian, ptr = mrnd.choice("<>"), mrnd.choice(["uint64", "uint32", "uint16", "uint8"])
        views = []
        for compiled in (False, True):
            sess = impl.Session(endian=endian, pointer=ptr)
            try:
                views.append((sess, s1_mixed.load_plan(sess, plan, compiled=compiled)))
            except Exception as e:  # noqa: BLE001
                views.append((sess, e))
        (si, Li), (sc_, Lc) = views
        if isinstance(Li, Exception) or isinstance(Lc, Exception):
            if isinstance(Li, Exception) != isinstance(Lc, Exception):
                eng.report(f"a mixed-alignment definition loads with one reader mode only: interpreted {Li!r}, compiled {Lc!r}", {"history": si.script()}, [])
            res.feat("family-d:definition-rejected")
            continue
        res.feat("family-d:mixed-alignment-definitions" + (":uniform" if not s1_mixed.is_mixed(plan) else ""))
        Ti, Tc = Li.T, Lc.T
        size = Ti.size if Ti.size is not None else 48
        salign = max(1, Ti.alignment or 1)
        for _i in range(3):
            body = rand_bytes(mrnd, size + mrnd.choice([0, 5, 20]))
            for pos in (0, salign, 3 * salign):
                data = bytes(mrnd.randrange(256) for _ in range(pos)) + body
                wi, _ = real_parse(Ti, data, pos)
                wc, _ = real_parse(Tc, data, pos)
                res.count(("mixed", si.script(), endian, ptr, pos, body), True)
                cd = s1_mixed.case_data(sc_, data=data, pos=pos, interpreted_history=si.script())
                if wi[0] == "ok" and wc[0] == "ok":
                    if not impl.same_val(wi[1], wc[1]) or wi[2] != wc[2] or wi[3] != wc[3]:
                        eng.report(f"mixed alignment, start {pos}: compiled gives {str(wc)[:260]}, interpreted gives {str(wi)[:260]}", cd, [])
                elif wi[0] != wc[0]:
                    if (wi[0] == "err" and wi[1] != "EOFError") or (wc[0] == "err" and wc[1] != "EOFError") or (Ti.size is not None and len(body) >= Ti.size + 16):
                        eng.report(f"mixed alignment, start {pos}: compiled gives {str(wc)[:200]}, interpreted gives {str(wi)[:200]}", cd, [])
                    else:
                        res.feat("family-d:short-input:one-reader-raises")
    # (e) endianness spellings x definition families x ways of configuring the object x parse entry points (harness/v9_c03.py)
    v9_c03.run(env, res, eng, trees, pointer_fields())
    # (f) pointer types of every kind (signed / unsigned / aliases) x ways of configuring x pointer-bearing definitions (harness/v10_c03.py)
    v10_c03.run(env, res, eng, pointer_fields())
    eng.flush()
    res.notes.append(f"{nplans[0]} generated sources translated to plans and validated")
    res.notes.append(f"{ncompiles[0]} structures compiled by the Lean model of the compiler and compared with the real plan / fallback")
    res.programs = nplans[0]
    res.sample({"definition": defs.render_struct("T", trees[40])})
    res.sample({"definition": defs.render_struct("T", trees[-1])})
    res.sample({"definition": defs.render_struct("T", tree), "pointer": "uint48", "note": "family (c)"})
    return res


def replay(body) -> int:
    print("replay:", body.get("what"))
    print(body.get("case", {}).get("repro"), body.get("case", {}).get("data"))
    return 0
