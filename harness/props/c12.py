"""C12 — enums and flags preserve every underlying value and number members like C.

Random enum/flag declarations (gaps, duplicates, expressions over earlier members and constants, every underlying
integer type).  Oracles: an independent numbering function written here; value preservation against int.from_bytes;
equality/hash semantics stated directly.  The Lean model's numbering fold (`enumvals`) and its enum read/write are compared
with the real classes.

Alias probes (harness/t3_c12.py) for "members compare equal to their integer value and to same-class members with that
value": enum and flag declarations built so that several members name one value (repeated literal, name of an earlier
member, expression landing on an earlier value, implicit member colliding with an explicit one, zero named twice, composite
flag values named by several members); the equality laws (`a == b`, `b == a`, `!=` both ways) are evaluated between every
pair of members of the class, between members and their integers, and between every member and the objects obtained from
data for a value (scalar, `E[2]` element, structure field / array element / bit-field, interpreted and compiled, `E(int)`,
`a | b`); objects parsed for one underlying value must be mutually equal with equal hashes.

Shadowing probes (harness/v4_c12.py) for "explicit values may be expressions over earlier members" and the implicit continuation on
an object that already holds constants: a history of earlier `load()` calls / `cs.consts[...]` assignments registers constants
(`#define` with literal or expression, members of anonymous enums and flags, values set by hand) whose names coincide with member
names of the enum/flag declared afterwards (in a later load or further down the same text); later members refer to those earlier
members in their initialisers (`NEXT = BASE + 1`, `ALL = LIMIT | X`, mixed with free constants that must still resolve) or continue
from them implicitly.  The members declared so far win: the member table must be the C numbering computed with the declaration's own
members in scope (independent oracle, the same declaration on a fresh object, the Lean fold given all constants), and the underlying
bytes of every member value must parse - as scalar, `E(int)`, structure field, array element, bit-field; interpreted / compiled /
aligned; both endiannesses; 11 underlying types and the default type - to an object equal to exactly the members declared with that
value, named like one of them, that dumps back to the bytes.

Operator-mix probes (harness/v8_c12.py) for "explicit values may be expressions over earlier members" + "number members like C": member
initialisers that MIX OPERATORS OF DIFFERENT PRECEDENCE WITHOUT PARENTHESES over earlier members, constants and literals (decimal, hex,
octal, binary spelling; varying spacing) - shifts with + and -, * / % with + -, & ^ | with shifts and with each other, unary ~ and -
(`B = A << 2 + 1`, `C = B + 1 << 2`, `D = 1 | 2 << 1`, `E = ~A & 0xF`); all 15 pairs of the six binary precedence levels are drawn, and
candidates whose value depends on the ranking of neighbouring levels are preferred (the histogram names which wrong rankings each run
tells apart).  The member table must be the C numbering computed by an evaluator written from the C grammar (recursive descent, one
function per level, C's truncating division) that shares nothing with the library and is itself cross-checked on every initialiser
against a table-driven evaluator, Python's grammar and `oracle_numbering`; the same declaration with C's grouping written out in
parentheses must give the same table; every member value's underlying bytes must parse - scalar, `E(int)`, structure field, array
element, bit-field; interpreted / compiled / aligned; both endiannesses; 11 underlying types and the default type - to an object equal
to exactly the members declared with that value, named like one of them, that dumps back to the bytes; Lean fold correspondence.
Excluded there (reported): `/` and `%` with a negative operand - the library floors where C truncates (see harness/v8_c12.py).

Layout-twin probes (harness/v9_c12.py) for "the integer value is exactly the underlying integer that was read ... dumping writes that
integer back through the underlying type ... any underlying integer type x scalars, arrays and bit-fields": enum and flag classes over
EVERY integer type - the 8 power-of-two types, int24/uint24/int48/uint48/int128/uint128 (alignment != size), alias spellings (`short`,
`unsigned long long`, `DWORD`, ...), typedefs of them, custom integer types registered with `add_custom_type(name, Int, size, alignment)`,
the default type; used directly or through `typedef E E_t;` - as members (scalar, 1-d / 2-d array, bit-field group, inside a nested
anonymous struct/union) of a structure or union S between plain members, next to its TWIN P that holds the underlying types instead.
Both are defined in all four configurations packed/aligned x interpreted/compiled, either endianness, through `load`, two `load` calls,
`loadfile` or `load` + `add_field`, and parsed through every read entry point (class call with bytes / bytearray / memoryview / BytesIO /
real file, `.read`, `.reads`).  The enum class must advertise the size and alignment of its underlying type; S and P must have the same
size, alignment and offsets (= C's layout rule computed in the harness where C decides); every enum leaf must be an instance of its
class whose value is the integer P reads at that place = `int.from_bytes` of the data at the C offset, named like the member it
equals; both must dump to the same bytes with the data bytes at every leaf's place; a structure rebuilt from the parsed fields dumps
alike; the Lean model's layout / read / write of the structure with `(enum T)` members must agree (correspondence).

Numbering-walk probes (harness/v10_c12.py) for "members without an explicit value continue from the previous one (enum: previous + 1,
flag: next higher power of two)" THROUGH EVERY PARSER AND IN EVERY ORDER: value lists whose explicit values go DOWN (`A = 5, B = 2, C, D`
-> 3, 4), are NEGATIVE (`A = -3, B, C` -> -2, -1), REPEAT, JUMP to the type's limits and back, or make an implicit member land on an
earlier value; flags after a power of two, a composite value, zero, a lower or a repeated value; values spelt as decimal / hex / octal /
binary literals, sums, shifts, expressions over `#define` constants and (token parser only) over earlier members.  The same declaration
is defined through every route that accepts its syntax - token parser: `load`, `load(deftype=DEF_CSTYLE)`, `loadfile`, two loads, the
anonymous form (members become constants); LEGACY parser (`deftype=cstruct.DEF_LEGACY`): `load`, `loadfile`, two loads; compiled /
interpreted / the parser's default - and per route the member table must be the C numbering (computed from the generator's integers,
cross-checked with `oracle_numbering`), every member must dump its value's bytes, and every member value AND THE VALUES IN BETWEEN must
parse (class call with bytes / bytearray / memoryview / BytesIO / file, `.read`, `.reads`, `cs.read`, `E(int)`; structure scalar, array
element, bit-field) to an object with that integer value, equal to exactly the members declared with it, named like one of them (an
enum value no member has: unnamed), dumping back to the bytes; Lean fold correspondence.
"""
from __future__ import annotations

import re

from .. import common, impl, t3_c12, v4_c12, v8_c12, v9_c12, v10_c12
from ..common import A, Case, Result, mkrng, parse_sexp, run_driver, sx

BASES = {"uint8": (1, False), "int8": (1, True), "uint16": (2, False), "int16": (2, True), "uint32": (4, False), "int32": (4, True),
         "uint64": (8, False), "int64": (8, True), "uint24": (3, False), "int24": (3, True), "uint128": (16, False)}


_OCTAL = re.compile(r"(?<![\w.])0+([0-7]+)\b")


def oracle_numbering(is_flag, members, consts):
    """C rule: implicit = previous + 1 (enum) / next power of two above the previous value's top bit (flag).
    Explicit values are handed to Python's own expression grammar, which ranks | ^ & << >> + - * / % and the unary operators exactly
    like C and shares nothing with the library (C's octal literals are respelt for it; `/` is floor division, which is C's division
    only for operands >= 0 - the generators of this module never divide negative values; harness/v8_c12.py has the evaluator with C's
    arithmetic and cross-checks this function against it)."""
    nxt = 1 if is_flag else 0
    vals = {}
    for name, ex in members:
        if ex is None:
            v = nxt
        else:
            env = dict(consts)
            env.update(vals)
            v = eval(_OCTAL.sub(r"0o\1", ex).replace("/", "//"), {"__builtins__": {}}, env)  # noqa: S307 - generated arithmetic only
        vals[name] = v
        if is_flag:
            p = 1
            while p <= v:
                p *= 2
            nxt = p if v > 0 else (1 if v == 0 else 2 ** (abs(v).bit_length()))
        else:
            nxt = v + 1
    return vals


def gen_members(rnd, is_flag, signed):
    n = rnd.randint(1, 8)
    names = [f"M{i}" for i in range(n)]
    out = []
    for i, nm in enumerate(names):
        r = rnd.random()
        if r < 0.45:
            out.append((nm, None))
        elif r < 0.7:
            v = rnd.choice([0, 1, 2, 3, 4, 7, 8, 0x10, 0x20, 0x40, 0x7F, 100]) if is_flag else rnd.choice([0, 1, 2, 5, 7, 10, 100, 0x7F] + ([-1, -5] if signed else []))
            out.append((nm, rnd.choice([str(v), hex(v) if v >= 0 else str(v)])))
        elif r < 0.9 and i > 0:
            ref = rnd.choice(names[:i])
            out.append((nm, rnd.choice([f"{ref} + 1", f"{ref} | 8", f"{ref} * 2", f"({ref} + 3) & 0x3f", f"{ref} << 1", f"K1 + {ref}"])))
        else:
            out.append((nm, rnd.choice(["K1", "K1 + 2", "1 << 3", "0x10 | 1", "07", "0b101"])))
    return out


def run(env) -> Result:
    res = Result()
    res.rule = ("seeded random enum and flag declarations over 11 underlying integer types with implicit members, gaps, duplicates, literals in "
                "all spellings, expressions over earlier members and a constant; per declaration: member table vs independent numbering oracle vs "
                "Lean model; value preservation for boundary/random underlying values as scalar, array and bit-field; equality and hash laws "
                "incl. cross-class comparisons; declarations with values named by several members (aliases by literal, name, expression, "
                "implicit numbering; zero and composite flag values): == / != in both directions between every pair of members, members and "
                "ints, members and values obtained from data (scalar, array element, struct field, bit-field, E(int), a | b), equal hashes "
                "for parses of one underlying value; declarations on an object that already holds constants (#define, anonymous enum/flag members, "
                "cs.consts set by hand; registered by earlier load() calls or earlier in the same text) named like members of the declaration, "
                "with later members referring to those earlier members or continuing from them: member table = C numbering with the "
                "declaration's own members in scope = table on a fresh object = Lean fold; every member value parses (scalar, E(int), struct "
                "field, array element, bit-field; interpreted/compiled/aligned) to an object equal to exactly its members, named like one, "
                "dumping back to the bytes; declarations whose member initialisers mix operators of different precedence without parentheses "
                "(all pairs of the levels | ^ & shift additive multiplicative, unary ~ -, over earlier members, constants and literals in "
                "decimal/hex/octal/binary spelling, varying spacing): member table = C numbering by an independent recursive-descent evaluator of "
                "the C grammar (cross-checked against a table-driven evaluator, Python's grammar and oracle_numbering) = table of the same "
                "declaration with C's grouping in parentheses = Lean fold; every member value parses (scalar, E(int), struct field, array "
                "element, bit-field; interpreted/compiled/aligned) to an object equal to exactly its members, named like one, dumping back "
                "to the bytes; excluded: / and % with a negative operand (library floors, C truncates); "
                "enum/flag classes over every integer type (power-of-two types, int24/48/128 and unsigned, alias spellings, typedefs, custom "
                "integer types with their own alignment, default type; via typedef of the class) as scalar / 1-d / 2-d array / bit-field "
                "group / nested struct-or-union members of a structure or union between plain members, against the twin structure holding the "
                "underlying types, packed and aligned x interpreted and compiled x both endiannesses, defined by load / two loads / loadfile / "
                "add_field, parsed through 8 read entry points: class size/alignment = underlying type's; same size, alignment, offsets as the "
                "twin = C layout computed in the harness; every enum leaf an instance with the value the twin reads = int.from_bytes at the C "
                "offset, named like its member; dumps identical to the twin's with the data bytes at every leaf; rebuilt structure dumps "
                "alike; Lean model layout/read/write of the structure (correspondence); "
                "numbering walk: value lists whose explicit values go down / are negative / repeat / jump / make an implicit member land on "
                "an earlier value (flags: after powers of two, composite values, zero, lower values), spelt as literals in all bases, sums, "
                "shifts, expressions over constants and (token parser) earlier members, the same declaration defined through every route - "
                "token parser load / load(deftype=DEF_CSTYLE) / loadfile / two loads / anonymous declaration, legacy parser "
                "(deftype=DEF_LEGACY) load / loadfile / two loads; compiled, interpreted, parser default: per route member table = C numbering "
                "from the generator's integers (= oracle_numbering = Lean fold), every member dumps its value's bytes, every member value and "
                "the values in between (+-1, midpoints, type limits) parse through 10 entry points and as structure scalar / array element / "
                "bit-field to an object with that value equal to exactly its members, named like one, dumping back to the bytes. "
                "distinct = (declaration, value); non-trivial = >= 2 members")
    dc = impl.dc()
    rnd = mkrng(env["seed"], "c12")
    tier = env["tier"]
    findings = {f["id"] for f in env["findings"]}
    lines, metas = [], []

    def viol(what, data, sig=None):
        if sig and sig in findings:
            res.known_seen[sig] = res.known_seen.get(sig, 0) + 1
        elif len(res.violations) < 50:
            res.violations.append(Case("property", what, data))

    classes = []
    for i in range(600 if tier == "quick" else 6000):
        is_flag = rnd.random() < 0.45
        base = rnd.choice(list(BASES))
        size, signed = BASES[base]
        members = gen_members(rnd, is_flag, signed)
        body = ", ".join(n if e is None else f"{n} = {e}" for n, e in members)
        kw = "flag" if is_flag else "enum"
        text = f"#define K1 4\n{kw} E{i} : {base} {{ {body} }};\nstruct S{i} {{ E{i} one; E{i} arr[2]; E{i} lo : 3; E{i} hi : 5; }};"
        data = {"declaration": text}
        cs = dc.cstruct(endian=rnd.choice("<>"))
        try:
            want = oracle_numbering(is_flag, members, {"K1": 4})
        except Exception:  # noqa: BLE001
            continue
        try:
            cs.load(text)
        except Exception as e:  # noqa: BLE001
            viol(f"declaration rejected: {type(e).__name__}: {e}", data)
            continue
        E = getattr(cs, f"E{i}")
        got = {k: int(v.value) for k, v in E.__members__.items()}
        res.count((text, "members"), len(members) >= 2)
        res.feat(("flag" if is_flag else "enum") + ":" + base)
        if got != want:
            viol(f"member values {got}, C numbering gives {want}", data)
        lines.append(sx([A("enumvals"), int(is_flag), [[A("K1"), 4]], [[n, A("none")] if e is None else [n, e] for n, e in members]]))
        metas.append(("enumvals", data, got))
        classes.append((E, is_flag, base, cs, i))
        # value preservation
        bits = 8 * size
        lo, hi = (-(1 << (bits - 1)), (1 << (bits - 1)) - 1) if signed else (0, (1 << bits) - 1)
        vals = {lo, hi, 0, 1, 2, 3, lo + 1, hi - 1, hi >> 1} | {rnd.randint(lo, hi) for _ in range(4 if tier == "quick" else 20)} | set(want.values())
        order = "little" if cs.endian == "<" else "big"
        for v in sorted(x for x in vals if lo <= x <= hi):
            raw = v.to_bytes(size, order, signed=signed)
            sig = "F22" if (is_flag and signed and v < 0) else None
            d2 = dict(data, value=v, bytes=raw.hex(), endian=cs.endian)
            res.count((text, v), len(members) >= 2)
            try:
                o = E(raw)
                o2 = E(raw)
            except Exception as e:  # noqa: BLE001
                viol(f"parsing underlying value {v} raises {type(e).__name__}: {e}", d2, sig)
                continue
            if int(o.value) != v or int(o) != v:
                viol(f"parsed enum value is {int(o.value)}, the underlying integer is {v}", d2, sig)
                continue
            try:
                back = o.dumps()
            except Exception as e:  # noqa: BLE001
                back = type(e).__name__
            if back != raw:
                viol(f"dumping writes {back!r}, the underlying bytes are {raw.hex()}", d2, sig)
            if not (o == o2 and hash(o) == hash(o2) and not (o != o2)):
                viol("two parses of the same underlying value are not equal objects with equal hashes", d2, sig)
            if not (o == v and not (o != v)) or (o == v + 1):
                viol("a member does not compare equal to exactly its integer value", d2, sig)
            named = [k for k, x in want.items() if x == v]
            if named and (o.name is None and not is_flag):
                viol(f"value {v} names member(s) {named} but the parsed object has no name", d2, sig)
        # as array and bit-fields inside a structure
        S = getattr(cs, f"S{i}")
        raw = bytes(rnd.randrange(256) for _ in range(len(S)))
        try:
            o = S(raw)
            vals3 = [int.from_bytes(raw[j * size:(j + 1) * size], order, signed=signed) for j in range(3)]
            got3 = [int(o.one.value), int(o.arr[0].value), int(o.arr[1].value)]
            sig = "F22" if (is_flag and signed and min(vals3) < 0) else None
            if got3 != vals3:
                viol(f"enum members of a structure hold {got3}, the underlying integers are {vals3}", dict(data, bytes=raw.hex()), sig)
            else:
                dd = o.dumps()
                # unassigned bits of the bit-field unit are written as zero (C06); everything that belongs to a field must survive
                if dd[: 3 * size] != raw[: 3 * size] or len(dd) != len(raw) or S(dd) != o or (int(S(dd).lo.value), int(S(dd).hi.value)) != (int(o.lo.value), int(o.hi.value)):
                    viol("structure with enum scalar/array/bit-fields does not dump back to its data bytes", dict(data, bytes=raw.hex()), sig)
            res.feat("in-structure")
        except Exception as e:  # noqa: BLE001
            viol(f"structure with enum fields raises {type(e).__name__}: {e}", dict(data, bytes=raw.hex()), "F22" if (is_flag and signed) else None)
    # declarations with aliases: equality laws between same-valued members and values obtained from data (own PRNG stream)
    t3_c12.alias_probes(mkrng(env["seed"], "c12-alias"), res, viol, dc, tier, oracle_numbering)
    # members named like constants the object already holds: the members declared so far win (own PRNG stream)
    v4_c12.shadow_probes(mkrng(env["seed"], "c12-shadow"), res, viol, dc, tier, oracle_numbering, lines, metas)
    # initialisers that mix operators of different precedence without parentheses: the C grammar decides the value (own PRNG stream)
    v8_c12.opmix_probes(mkrng(env["seed"], "c12-opmix"), res, viol, dc, tier, oracle_numbering, lines, metas)
    # enums/flags over every integer type inside structures, next to the twin structure with the underlying types (own PRNG stream)
    v9_c12.layout_probes(mkrng(env["seed"], "c12-layout"), res, viol, dc, tier, oracle_numbering, env)
    # value lists in every order (down, negative, repeated, jumping) through every parser and load route (own PRNG stream)
    v10_c12.numbering_probes(mkrng(env["seed"], "c12-numbering"), res, viol, dc, tier, oracle_numbering, lines, metas)
    # cross-class comparisons: never equal, whatever the kinds and values
    for _ in range(200 if tier == "quick" else 3000):
        (E1, f1, b1, _, i1), (E2, f2, b2, _, i2) = rnd.sample(classes, 2) if len(classes) >= 2 else (classes[0], classes[0])
        common_vals = set(int(m.value) for m in E1) & set(int(m.value) for m in E2)
        for v in list(common_vals)[:3]:
            a, b = E1(v), E2(v)
            res.count(("cross", i1, i2, v))
            res.feat("cross-class:" + ("flag" if f1 else "enum") + "-" + ("flag" if f2 else "enum"))
            if a == b or b == a or not (a != b):
                viol(f"members of different classes compare equal (value {v})", {"a": repr(a), "b": repr(b), "kinds": [f1, f2]})
    # model correspondence
    answers = run_driver(lines) if env["driver_ok"] else [None] * len(lines)
    for (kind, data, want), ans in zip(metas, answers):
        if ans is None:
            continue
        s = parse_sexp(ans)
        got = {str(k): int(v) for k, v in s[1:]} if s[0] == "ok" else None
        if got != want:
            res.disagreements.append(Case("corr", f"numbering: model gives {ans[:200]}, implementation gives {want}", data))
    res.sample({"declaration": metas[0][1]["declaration"], "members": metas[0][2]}) if metas else None
    res.sample({"declaration": metas[-1][1]["declaration"], "members": metas[-1][2]}) if metas else None
    return res


def replay(body) -> int:
    c = body.get("case") or {}
    print("replay:", body.get("what"), c)
    if c.get("repro"):
        impl.dc()
        print("replay: running the recorded declaration and value on the library")
        try:
            exec(compile(c["repro"], "<replay>", "exec"), {})  # noqa: S102
        except Exception as e:  # noqa: BLE001
            print(f"replay: raises {type(e).__name__}: {e}")
    return 0
