"""C09 — stream discipline: position-independent and consistent across input kinds.

For every generated definition: parse from a seekable stream positioned at p (an aligned p for aligned structures) and
compare with parsing the bytes from p onward on their own; the stream must be left at p + consumed; bytes before p and
after the extent are randomised and must not matter; bytes / bytearray / memoryview / BytesIO / a minimal file-like
object and the call forms T(x), T.read(x), T.reads(x), cs.read(name, x) must agree; preceding reads on the same stream
must not matter.
"""
from __future__ import annotations

import io
import itertools

from .. import defs, impl, refimpl
from ..common import Result, mkrng
from ..structprops import Engine, load, real_parse, rand_bytes, has_eof


class MiniFile:
    """the least a file-like object can be: read/seek/tell over a buffer"""

    def __init__(self, data, pos=0):
        self._b = io.BytesIO(data)
        self._b.seek(pos)

    def read(self, n=-1):
        return self._b.read(n)

    def seek(self, off, whence=0):
        return self._b.seek(off, whence)

    def tell(self):
        return self._b.tell()


def run(env) -> Result:
    res = Result()
    res.rule = ("seeded random definition trees x {<,>} x {packed, aligned} x {interpreted, compiled}; start offsets 0..17 plus large ones "
                "(aligned structures: multiples of the structure alignment), random bytes before the start and after the extent, input kinds "
                "bytes/bytearray/memoryview/BytesIO/minimal file object x call forms T(x)/T.read/T.reads/cs.read, a preceding parse on the same "
                "stream. distinct = (definition, config, input, offset, kind); non-trivial = offset > 0 or a non-bytes input kind")
    eng = Engine(env, res, "C09")
    rnd = mkrng(env["seed"], "c09")
    tier = env["tier"]
    for _ in range(150 if tier == "quick" else 5000):
        tree = defs.Gen(rnd, max_depth=rnd.choice([1, 2, 2])).struct()
        for endian, align, compiled in itertools.product("<>", (False, True), (False, True)):
            if rnd.random() < (0.6 if tier == "quick" else 0.3):
                continue
            L, err = load(tree, endian=endian, align=align, compiled=compiled, pointer=rnd.choice(["uint64", "uint32", "uint16"]))
            if L is None:
                continue
            T = L.T
            sigs = eng.sigs(L)
            size = T.size if T.size is not None else 48
            body = None
            for _try in range(4):
                cand = rand_bytes(rnd, size + rnd.choice([0, 8, 24]))
                w, _ = real_parse(T, cand)
                if w[0] == "ok":
                    body, base = cand, w
                    break
            if body is None:
                continue
            for k, v in defs.features(tree).items():
                res.feat(k, v)
            consumed = base[2]
            A = max(1, T.alignment or 1) if align else 1
            offsets = sorted({0, A, 2 * A, 3 * A, 16 * A, A * rnd.randint(1, 40)} | (set(range(0, 18)) if not align else set()))
            for p in offsets:
                pre = bytes(rnd.randrange(256) for _ in range(p))
                # bytes after the extent are replaced by noise (EOF arrays own the rest of the input by definition)
                tail = body[consumed:] if has_eof(tree) else bytes(rnd.randrange(256) for _ in range(rnd.choice([0, 1, 9])))
                data = (pre + body) if has_eof(tree) else (pre + body[:consumed].ljust(consumed, b"\x00") + tail)
                s = io.BytesIO(data)
                s.seek(p)
                try:
                    obj = T(s) if p == 0 else T.read(s)
                    got = ("ok", impl.canon(obj), s.tell())
                except Exception as e:  # noqa: BLE001
                    got = ("err", impl.err_class(e))
                res.count((L.text, endian, align, compiled, body, p, "offset"), p > 0)
                res.feat("offset>0" if p else "offset=0")
                cd = eng.case_data(L, data=data, pos=p)
                if got[0] != "ok" or not impl.same_val(base[1], got[1], ignore_union_buf=True) or got[2] != p + consumed:
                    eng.report(f"parsing at offset {p} gives {str(got)[:220]}; the bytes on their own give {str(base[1])[:200]} consuming {consumed}", cd, sigs)
                if "F23" not in sigs and not compiled:
                    eng.model_read(L, data, p, (got[0], got[1], got[2], base[3]) if got[0] == "ok" else got, f"read at offset {p}", sigs)
            # input kinds and call forms on the bytes alone
            data = body
            forms = {
                "T(bytes)": lambda: T(data), "T(bytearray)": lambda: T(bytearray(data)), "T(memoryview)": lambda: T(memoryview(data)),
                "T(BytesIO)": lambda: T(io.BytesIO(data)), "T(file-like)": lambda: T(MiniFile(data)),
                "T.read(bytes)": lambda: T.read(data), "T.read(BytesIO)": lambda: T.read(io.BytesIO(data)), "T.read(memoryview)": lambda: T.read(memoryview(data)),
                "T.reads(bytes)": lambda: T.reads(data), "T.reads(bytearray)": lambda: T.reads(bytearray(data)),
                "cs.read(name, bytes)": lambda: L.cs.read("T", data), "cs.read(name, BytesIO)": lambda: L.cs.read("T", io.BytesIO(data)),
            }
            for name, fn in forms.items():
                try:
                    got = ("ok", impl.canon(fn()))
                except Exception as e:  # noqa: BLE001
                    got = ("err", impl.err_class(e))
                res.count((L.text, endian, align, compiled, body, name), True)
                res.feat("form:" + name)
                if got[0] != "ok" or not impl.same_val(base[1], got[1], ignore_union_buf=True):
                    eng.report(f"{name} gives {str(got)[:200]}, T(bytes) gives {str(base[1])[:200]}", eng.case_data(L, data=data, form=name), sigs)
            # a preceding read on the same stream
            if not has_eof(tree):
                one = body[:consumed].ljust(consumed, b"\x00")  # the extent may end in alignment padding beyond the input
                two = one + one
                A2 = consumed
                s = io.BytesIO(two + b"\x00" * 8)
                try:
                    o1 = T(s)
                    mid = s.tell()
                    o2 = T.read(s) if (not align or mid % A == 0) else None
                    if o2 is not None and (not impl.same_val(impl.canon(o1), impl.canon(o2), ignore_union_buf=True) or s.tell() != 2 * A2):
                        eng.report("a second parse on the same stream differs from the first one on identical bytes", eng.case_data(L, data=two), sigs)
                    res.feat("preceding-read")
                except Exception as e:  # noqa: BLE001
                    eng.report(f"two consecutive parses on one stream raise {type(e).__name__}", eng.case_data(L, data=two), sigs)
        if len(eng.lines) > 4000:
            eng.flush()
    eng.flush()
    return res


def replay(body) -> int:
    print("replay:", body.get("what"))
    print(body.get("case", {}).get("repro"), body.get("case", {}).get("data"), body.get("case", {}).get("pos"))
    return 0
