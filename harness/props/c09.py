"""C09 — stream discipline: position-independent and consistent across input kinds.

For every generated definition: parse from a seekable stream positioned at p (an aligned p for aligned structures) and
compare with parsing the bytes from p onward on their own; the stream must be left at p + consumed; bytes before p and
after the extent are randomised and must not matter; bytes / bytearray / memoryview / BytesIO / a minimal file-like
object and the call forms T(x), T.read(x), T.reads(x), cs.read(name, x) must agree; preceding reads on the same stream
must not matter.

Top-level unions (harness/s3_c09.py:union_tree): the whole matrix (offsets, every input kind under every call form, a
preceding read) is also run with UNION types as the top-level type - fixed-size unions whose members have unused bit-field
bits, padding or different sizes (any member first) and dynamically sized unions.
Long runs (s3_c09.long_case): inputs valid by construction with 0..520 array elements (null-terminated, expression-sized,
EOF; char, wchar, integers, enum, LEB128, structures) stand-alone (cs.char[None] ...), as a member followed by fields, two
in one structure, nested, and three consecutive records on one stream; value and encoded size come from the independent
reference parser, so a right value with a wrong stream position is seen.
Aligned records with a dynamic tail (harness/u2_c09.py:run_tail): aligned structures, valid by construction, whose LAST member is
dynamically sized (expression-sized / null-terminated arrays of char, wchar, integers, enum, LEB128, structures; a LEB128 scalar;
a nested structure or an array of structures ending that way) behind static heads, so that the member sits at aligned and
unaligned static offsets and the value really ends on or off an alignment boundary; every stream call form at aligned start
offsets must leave the stream at p + the encoded size of the reference parser, the compiled and the interpreted reader must
agree, three different records are read back to back on one stream and as the array type T[k].
Views that are not byte views (u2_c09.run_kinds, u2_c09.view_forms): memoryviews with item sizes 2/4/8 (cast("H"/"I"/"Q"/...),
also over bytearray and array.array), multi-dimensional, 0-dimensional, sliced and non-contiguous views (accepted, or rejected by
every call form alike) for every type kind - scalars, enums, char, fixed / 2-d / null-terminated arrays, typedefs (of typedefs) of
them, structures and unions around them - with lengths at which the ITEM count or first dimension equals the type size; every
call form must give what the reference parser gives for view.tobytes().  A sample of these views also joins the generic matrix.
Mixed alignment modes (harness/v4_c09.py:run_mixed): definitions whose sub-structures are loaded with their own `align` flag on one
cstruct instance - directed chains of 1..3 packed wrappers (leading small members, the child or an array of it, further fixed-size
members; hoisted or inline) around a structure loaded with align=True that so sits at an odd offset, two to four levels deep, plus
s1_mixed.directed_dynamic / directed_bits and random trees split by defs.hoist(mixed=True) - parsed by the compiled and the
interpreted reader from the same bytes at start positions 0, 1, 2, 3, 5, 8 (an aligned top-level structure: those multiples of its
alignment) through every stream kind x call form, and as the bytes from p onward through every buffer kind x call form.  An abstract
walk of the reader over the real classes says which parts of the value (and whether the final position) are read at a position that
cannot depend on p - everything but what lies behind an aligned structure at a misaligned position with no seek to a layout offset in
between (known finding F43) - and those must agree for every p; differences confined to the rest are classified under F43.  Every
case is also sent to the Lean model of the reader (per-structure align flags, absolute positions).
Inputs whose type is a SUBCLASS of bytes / bytearray (harness/v5_c09.py:run_subclass): user classes (class B(bytes), class BA(bytearray),
subclasses of those, with attributes / __slots__ / own __eq__) and the library's own bytes subclasses - the value of a parsed member of an
outer definition on the same cstruct instance (char p[N], expression-sized, char p[EOF], null-terminated, a row of char p[k][N], a
typedef'd char array, a member of a nested structure or of a union, a single char, a member declared with T itself; outer definitions
packed / aligned, compiled / interpreted), windows of such values (slices, memoryview slices, re-wrapped), cs.char[N](bytes), memoryviews
over all of them - i.e. the idiom cs.inner(outer.payload) - for generated structures, top-level unions, scalars / enums / arrays / 2-d
arrays / typedefs / unnamed cs.<base>[n] types, records with a dynamic tail and T[2], with contents of ASCII digits, text and noise and
lengths equal to and beyond the encoding (for char types the T.size-long input takes the documented value-construction shortcut, whose
value is the parsed value): every object under T(x), T.read(x), T.reads(x), cs.read(name, x) must give what plain bytes of the same
content give.
Sentinel collisions / negative array counts (harness/v8_c09.py:run_sentinel): the library marks "to the end of the stream" with an in-band
integer count (types/base.py: EOF = -0xE0F); records valid by construction whose arrays are sized by an expression over preceding
integer members (n, n + c, n - c, -n, c - n, ~n, n * c + r, (n - c) * 2 + r, m - n, n ^ c, with constants; members int8 .. int128,
int24 / int48, aliases, ileb128, and unsigned types under negating forms) that evaluates to every value in a window around that
constant, the constant itself, other special negative values (-1, -2, -128, -256, -32768, -2^31, -2^63 ...) and small non-negative
controls; elements char, wchar, integers, float, enums, LEB128, structures, fixed inner arrays; the array last, followed by members,
two per record, nested, in arrays of structures; packed / aligned, compiled / interpreted, both byte orders; plus the unnamed types
cs.<base>[k] with a static negative k.  A negative count is an EMPTY array: at every start offset, for every stream kind x call form and
buffer kind x call form, with different trailing bytes, the value and the consumed count are those of the reference parser; three
records back to back and T[k] end where the reference says; interpreted cases also go to the Lean model.
Real file objects (harness/v9_c09.py:run_files, run_toend): the "file-like input" of the property as every kind of binary file object instead
of io.BytesIO - open(path, 'rb') / 'r+b' / 'a+b' / buffering=0 / buffering=k, os.fdopen, io.BufferedReader / BufferedRandom over FileIO, over
BytesIO and over a raw stream with short reads, mmap (file-backed, anonymous), tempfile.TemporaryFile / NamedTemporaryFile /
SpooledTemporaryFile (in memory, rolled over), gzip / bz2 / lzma files, a zip member - brought to the start offset p by seek, by reading, from
the end, by a relative seek or by rewriting the prefix, under T(s), T.read(s), cs.read(name, s).  run_files: every type family of the probes
above as the subject (random definition trees, top-level unions, long runs incl. the unnamed cs.<base>[None] / [n], records with a dynamic
tail, scalars / enums / arrays / typedefs / small aggregates).  run_toend: to-end-of-stream arrays ET d[EOF] (char, wchar, integers, floats,
enums, LEB128, structures, inner arrays, rows of strings; 0 .. 9000 bytes) as the last member, behind expression-sized and null-terminated
arrays, nested, two per record, as typedef and as cs.<base>[Expression(cs, "EOF")].  The value and encoded size of the bytes from p onward
on their own (reference parser / the library's parse of plain bytes) must come out of every stream kind, tell() and the next raw read must
agree that the stream is at p + encoded size, three records back to back and T[k] on one real stream end where they should, and
memoryview(mmap)[p:] / T.reads(mmap) behave like bytes.  (Kinds that cannot be positioned beyond their last byte - mmap, compressed files -
are not used where an aligned record's tail alignment points there; see the module docstring.)
"""
from __future__ import annotations

import io
import itertools

from .. import defs, impl, refimpl, s3_c09, u2_c09, v4_c09, v5_c09, v8_c09, v9_c09, v9_c09call
from ..common import Result, mkrng
from ..structprops import Engine, load, real_parse, rand_bytes, has_eof


class MiniFile:
    """the least a file-like object can be: read/seek/tell over a buffer"""

    def __init__(self, data, pos=0):
        self._b = io.BytesIO(data)
        self._b.seek(pos)

    def read(self, n=-1):
        return self._b.read(n)

    def seek(self, off, whence=0):
        return self._b.seek(off, whence)

    def tell(self):
        return self._b.tell()


def parse_plain(T, data, pos=0):
    """like structprops.real_parse but for any type (arrays have no _sizes)"""
    s = io.BytesIO(data)
    s.seek(pos)
    try:
        v = T._read(s) if pos else T(s)
    except Exception as e:  # noqa: BLE001
        return ("err", impl.err_class(e))
    sizes = sorted((k, n) for k, n in v._sizes.items() if n) if hasattr(v, "_sizes") else None
    return ("ok", impl.canon(v), s.tell(), sizes)


def eq(a, b, ignore_union_buf=True):
    """impl.same_val with a fast path (long arrays)"""
    return a == b or impl.same_val(a, b, ignore_union_buf=ignore_union_buf)


def probe(eng, res, rnd, L, T, tree, body, base, sigs, *, model=True, named=True, note=None, extent=True):
    """the C09 predicates for one (type, accepted input): start offsets, input kinds x call forms, a preceding read.
    extent=False: the bytes after the position the parse leaves the stream at are kept as they are (as for x[EOF])"""
    endian, align, compiled = L.endian, L.align, L.compiled
    extra = {"type": note} if note else {}
    consumed = base[2]
    A = max(1, T.alignment or 1) if align else 1
    offsets = sorted({0, A, 2 * A, 3 * A, 16 * A, A * rnd.randint(1, 40)} | (set(range(0, 18)) if not align else set()))
    if len(body) > 200:
        offsets = sorted(set(rnd.sample(offsets, min(len(offsets), 5))) | {0, 64 * A})
    for p in offsets:
        pre = bytes(rnd.randrange(256) for _ in range(p))
        # bytes after the extent are replaced by noise (EOF arrays own the rest of the input by definition)
        keep = has_eof(tree) or not extent
        tail = body[consumed:] if keep else bytes(rnd.randrange(256) for _ in range(rnd.choice([0, 1, 9])))
        data = (pre + body) if keep else (pre + body[:consumed].ljust(consumed, b"\x00") + tail)
        s = io.BytesIO(data)
        s.seek(p)
        try:
            obj = T(s) if p == 0 else T.read(s)
            got = ("ok", impl.canon(obj), s.tell())
        except Exception as e:  # noqa: BLE001
            got = ("err", impl.err_class(e))
        res.count((L.text, note, endian, align, compiled, body, p, "offset"), p > 0)
        res.feat("offset>0" if p else "offset=0")
        cd = eng.case_data(L, data=data, pos=p, **extra)
        if got[0] != "ok" or not eq(base[1], got[1]) or got[2] != p + consumed:
            eng.report(f"parsing at offset {p} gives {str(got)[:220]}; the bytes on their own give {str(base[1])[:200]} consuming {consumed}", cd, sigs)
        if model and "F23" not in sigs and not compiled and base[3] is not None:
            eng.model_read(L, data, p, (got[0], got[1], got[2], base[3]) if got[0] == "ok" else got, f"read at offset {p}", sigs)
    # input kinds and call forms on the bytes alone
    data = body
    forms = {
        "T(bytes)": lambda: T(data), "T(bytearray)": lambda: T(bytearray(data)), "T(memoryview)": lambda: T(memoryview(data)),
        "T(BytesIO)": lambda: T(io.BytesIO(data)), "T(file-like)": lambda: T(MiniFile(data)),
        "T.read(bytes)": lambda: T.read(data), "T.read(bytearray)": lambda: T.read(bytearray(data)), "T.read(BytesIO)": lambda: T.read(io.BytesIO(data)),
        "T.read(memoryview)": lambda: T.read(memoryview(data)), "T.read(file-like)": lambda: T.read(MiniFile(data)),
        "T.reads(bytes)": lambda: T.reads(data), "T.reads(bytearray)": lambda: T.reads(bytearray(data)), "T.reads(memoryview)": lambda: T.reads(memoryview(data)),
    }
    if named:
        forms.update({
            "cs.read(name, bytes)": lambda: L.cs.read("T", data), "cs.read(name, BytesIO)": lambda: L.cs.read("T", io.BytesIO(data)),
            "cs.read(name, bytearray)": lambda: L.cs.read("T", bytearray(data)), "cs.read(name, memoryview)": lambda: L.cs.read("T", memoryview(data)),
        })
    # views that are not byte views (item sizes 2/4/8, over array.array, 2-d): len() counts items / the first dimension
    for k, fn in u2_c09.view_forms(rnd, T, L.cs, body, consumed, has_eof(tree) or not extent, named=named).items():
        forms[k] = fn
    # the call-form predicate involves no dumping: finding F9F10 (incomplete union dumps) cannot excuse a difference here
    fsigs = [x for x in sigs if x != "F9F10"]
    top = tree[0] if tree[0] in ("struct", "union") else "array"
    if tree[0] == "struct" and len(tree[1]) == 1 and tree[1][0]["bits"] and tree[1][0]["ty"] == ("sc", "char"):
        # struct T { char f1 : 2; }: the "single char/bytes member" shortcut of StructureMetaType.__call__ used to ignore that the
        # member is a bit-field (T(b"\xf5") was taken as initialisation); found by this matrix, repaired (fixed F42), checked again
        res.feat("form: T(bytes) on a structure whose only member is a char bit-field")
    if len(body) > 200:  # long inputs: a sample of the forms per case
        forms = {k: forms[k] for k in rnd.sample(sorted(forms), 7)}
    for name, fn in forms.items():
        try:
            got = ("ok", impl.canon(fn()))
        except Exception as e:  # noqa: BLE001
            got = ("err", impl.err_class(e))
        res.count((L.text, note, endian, align, compiled, body, name), True)
        res.feat("form:" + name)
        res.feat(f"form-on:{top}")
        if got[0] != "ok" or not eq(base[1], got[1]):
            eng.report(f"{name} gives {str(got)[:200]}, T(bytes) gives {str(base[1])[:200]}", eng.case_data(L, data=data, form=name, **extra), fsigs)
    # a preceding read on the same stream
    if not has_eof(tree) and extent:
        one = body[:consumed].ljust(consumed, b"\x00")  # the extent may end in alignment padding beyond the input
        two = one + one
        A2 = consumed
        s = io.BytesIO(two + b"\x00" * 8)
        try:
            o1 = T(s)
            mid = s.tell()
            o2 = T.read(s) if (not align or mid % A == 0) else None
            if o2 is not None and (not eq(impl.canon(o1), impl.canon(o2)) or s.tell() != 2 * A2):
                eng.report("a second parse on the same stream differs from the first one on identical bytes", eng.case_data(L, data=two, **extra), sigs)
            res.feat("preceding-read")
        except Exception as e:  # noqa: BLE001
            eng.report(f"two consecutive parses on one stream raise {type(e).__name__}", eng.case_data(L, data=two, **extra), sigs)


def run_unions(env, eng, res, rnd):
    """top-level union types in the offset / input-kind x call-form / preceding-read matrix"""
    tier = env["tier"]
    for _ in range(120 if tier == "quick" else 1500):
        tree, kind = s3_c09.union_tree(rnd)
        for endian, align, compiled in itertools.product("<>", (False, True), (False, True)):
            if rnd.random() < (0.6 if tier == "quick" else 0.3):
                continue
            L, err = load(tree, endian=endian, align=align, compiled=compiled, pointer=rnd.choice(["uint64", "uint32", "uint16"]))
            if L is None:
                res.feat(f"union-rejected:{kind}:{type(err).__name__}")
                continue
            T = L.T
            sigs = eng.sigs(L)
            size = T.size if T.size is not None else 24
            for _i in range(2):
                body = base = None
                for _try in range(4):
                    cand = rand_bytes(rnd, size + rnd.choice([0, 8, 24]))
                    w = parse_plain(T, cand)
                    if w[0] == "ok":
                        body, base = cand, w
                        break
                if body is None:
                    res.feat(f"union:{kind}:no accepted input")
                    continue
                res.feat(f"top-level-union:{kind}")
                for k, v in defs.features(tree).items():
                    res.feat(k, v)
                # dynamically sized unions used to leave the stream after their LAST member and to record absolute positions as member
                # sizes; found by this probe, repaired (fixed F41): they now get the full extent / truncation / preceding-read probes
                extent = True
                # the model driver's `read` reports member sizes for structures only: no model comparison for top-level unions
                probe(eng, res, rnd, L, T, tree, body, base, sigs, model=False, extent=extent)
        if len(eng.lines) > 4000:
            eng.flush()
    eng.flush()


def run_long(env, eng, res, rnd):
    """long runs, valid by construction: the independent reference parser says what the value and the encoded size are"""
    tier = env["tier"]
    dummy = ("struct", [{"name": "x", "ty": ("sc", "uint8"), "bits": None}])
    for _ in range(150 if tier == "quick" else 2000):
        case = s3_c09.long_case(rnd)
        tree = case["tree"]
        for endian, align, compiled in itertools.product("<>", (False, True), (False, True)):
            if rnd.random() < (0.6 if tier == "quick" else 0.3):
                continue
            body = case["make"](endian, align)
            if body is None:
                continue
            if case["standalone"]:
                L, err = load(dummy, endian=endian, align=align, compiled=compiled)
                if L is None:
                    continue
                en, dim = case["standalone"]
                L.tree = tree
                T = getattr(L.cs, en)[dim]
                note = f"T = cs.{en}[{dim}]"
            else:
                L, err = load(tree, endian=endian, align=align, compiled=compiled)
                if L is None:
                    eng.report(f"definition rejected: {type(err).__name__}: {err}", {"definition": defs.render_struct("T", tree)}, [])
                    continue
                T, note = L.T, None
            sigs = eng.sigs(L)
            cfg = refimpl.Cfg(endian, align, "uint64", impl.CONSTS)
            try:
                rv, rend, _ = refimpl.parse(tree, body, 0, cfg)
                ref = ("ok", rv, rend)
            except refimpl.Short:
                ref = ("err", "EOFError")
            except refimpl.Bad:
                ref = ("err", "Bad")
            if ref[0] != "ok" or rend != len(body):
                res.feat("long: constructed input not accepted by the reference parser")
                continue
            res.feat("long:" + case["label"].rsplit(":", 1)[0] if case["label"].count(":") < 4 else "long:two")
            res.feat("long-length:" + ("<64" if len(body) < 64 else "64..127" if len(body) < 128 else "128..255" if len(body) < 256 else ">=256"))
            extra = {"type": note} if note else {}
            # (a) the bytes on their own, with and without trailing bytes: value and encoded size are those of the reference
            for trail in (b"", bytes(rnd.randrange(256) for _ in range(rnd.choice([1, 7, 150])))):
                if case["form"] == "eof" and trail:
                    continue
                got = parse_plain(T, body + trail)
                res.count((L.text, note, endian, align, compiled, body, len(trail), "long"), True)
                if got[0] != "ok" or not eq(got[1], ref[1]) or got[2] != rend:
                    eng.report(f"parsing {case['label']} ({len(body)} bytes + {len(trail)} trailing) gives {str(got[1])[:120]}... leaving the stream at "
                               f"{got[2] if got[0] == 'ok' else None}; the value is {str(ref[1])[:120]}... with encoded size {rend}",
                               eng.case_data(L, data=body + trail, pos=0, **extra), sigs)
            base = parse_plain(T, body)
            if base[0] != "ok":
                continue
            # (b) offsets, input kinds x call forms, consecutive reads
            probe(eng, res, rnd, L, T, tree, body, base, sigs, model=(len(body) < 400), named=not case["standalone"], note=note)
            # (c) consecutive reads of different records on one stream
            if case["form"] != "eof":
                body2 = case["make"](endian, align)
                s = io.BytesIO(body + body2 + body)
                try:
                    vals = []
                    for _j in range(3):
                        v = T.read(s)
                        vals.append((impl.canon(v), s.tell()))
                    want = [(parse_plain(T, b)[1], e) for b, e in ((body, len(body)), (body2, len(body) + len(body2)), (body, 2 * len(body) + len(body2)))]
                    ok = all(eq(a[0], b[0], False) and a[1] == b[1] for a, b in zip(vals, want))
                except Exception as e:  # noqa: BLE001
                    ok, vals = False, repr(e)
                res.feat("long: three consecutive records")
                if not ok:
                    eng.report(f"three consecutive {case['label']} records on one stream: positions/values {str([x[1] for x in vals] if isinstance(vals, list) else vals)[:200]}, "
                               f"expected ends {[len(body), len(body) + len(body2), 2 * len(body) + len(body2)]}",
                               eng.case_data(L, data=body + body2 + body, **extra), sigs)
        if len(eng.lines) > 3000:
            eng.flush()
    eng.flush()


def run(env) -> Result:
    res = Result()
    res.rule = ("seeded random definition trees x {<,>} x {packed, aligned} x {interpreted, compiled}; start offsets 0..17 plus large ones "
                "(aligned structures: multiples of the structure alignment), random bytes before the start and after the extent, input kinds "
                "bytes/bytearray/memoryview/BytesIO/minimal file object x call forms T(x)/T.read/T.reads/cs.read, a preceding parse on the same "
                "stream. The same matrix on top-level union types (unused bit-field bits, padding, smaller first member, dynamically sized) and on "
                "long runs valid by construction (0..520 elements, null-terminated / expression / EOF arrays of char, wchar, ints, enum, LEB128, "
                "structures; stand-alone, followed by fields, nested, three consecutive records), value and encoded size from the reference parser. "
                "Aligned records ending in a dynamically sized member (valid by construction; stream position against the reference encoded size, "
                "compiled against interpreted reader, back-to-back reads, T[k]). Memoryviews with multi-byte items / several dimensions / no "
                "dimension / slices / strides x every type kind incl. char arrays and typedefs, lengths where the item count equals the type size. "
                "Mixed alignment modes: sub-structures loaded with their own align flag (packed wrappers 1..3 deep around an aligned structure at "
                "an odd offset, followed by fixed-size members; directed dynamic / bit-field shapes; random hoisted trees) x {compiled, "
                "interpreted} x start positions 0,1,2,3,5,8 x stream kinds x call forms, and the bytes from p onward x buffer kinds x call forms: "
                "every part of the value read at a position that cannot depend on p (all but what lies behind a misplaced aligned structure "
                "before the next seek, F43) and the consumed count must agree; each case also against the Lean model. "
                "Input objects that are instances of SUBCLASSES of bytes / bytearray - user classes and the values of parsed char / char[n] / "
                "char[expr] / char[EOF] / char[] / char[k][n] / typedef'd members of an outer definition (also nested, union, sliced, "
                "memoryviews over them; cs.inner(outer.payload)) - x generated structures, unions, scalars, enums, arrays, typedefs, "
                "unnamed array types, dynamic-tail records, T[2] x contents (ASCII digits, text, noise; length = and > the encoding) x "
                "T(x)/T.read/T.reads/cs.read: the value plain bytes of the same content give. "
                "Negative array counts / collisions with the in-band end-of-stream marker (types/base.py EOF = -0xE0F): records valid by "
                "construction whose array counts are expressions (n, n+c, n-c, -n, c-n, ~n, n*c+r, (n-c)*2+r, m-n, n^c, constants) over "
                "preceding signed (int8..int128, int24/48, ileb128; unsigned under negation) members evaluating to every value within 6 of "
                "the marker, the marker, -1/-2/-128/-256/-32768/-2^31/-2^63/..., and 0..5 x elements char/wchar/ints/float/enum/LEB128/"
                "structures/inner arrays x shapes (last member, followed by members, two arrays, nested, array of structures) x {<,>} x "
                "{packed, aligned} x {interpreted, compiled}, and unnamed cs.<base>[negative k]: a negative count is an empty array - start "
                "offsets x different trailing bytes x stream kinds x call forms give the reference value and leave the stream at p + the "
                "reference encoded size; buffer kinds x call forms; three records back to back; T[k]; the Lean model. "
                "Real file objects as the stream: open(path) in rb / r+b / a+b / unbuffered / small-buffer modes, os.fdopen, BufferedReader / "
                "BufferedRandom over FileIO, BytesIO and a short-read raw stream, mmap (file, anonymous), TemporaryFile / NamedTemporaryFile / "
                "SpooledTemporaryFile, gzip / bz2 / lzma files, zip members (+ BytesIO and the minimal file object as controls) x positioned at "
                "p by seek / read / seek from the end / relative seek / rewriting the prefix x T(s) / T.read(s) / cs.read(name, s) x subjects "
                "{random definition trees, top-level unions, long runs and unnamed array types, dynamic-tail records, scalars / enums / arrays / "
                "typedefs / small aggregates} and, as a family of its own, to-end-of-stream arrays ET d[EOF] (ET = char, wchar, ints, floats, "
                "enums, LEB128, structures, inner arrays, strings; 0..9000 bytes; last member / behind expression-sized or null-terminated "
                "arrays / nested / two per record / typedef / cs.<base>[Expression(cs,'EOF')]) x {<,>} x {packed, aligned} x {interpreted, "
                "compiled}: value and encoded size of the bytes from p onward on their own (reference parser; the library's parse of plain "
                "bytes for random inputs), tell() and the next raw read agree on p + encoded size, three records back to back and T[k] on one "
                "real stream, memoryview(mmap)[p:] and T.reads(mmap) like bytes; interpreted structures also against the Lean model. "
                "distinct = (definition, config, input, offset, kind); non-trivial = offset > 0 or a non-bytes input kind")
    eng = Engine(env, res, "C09")
    rnd = mkrng(env["seed"], "c09")
    tier = env["tier"]
    for _ in range(150 if tier == "quick" else 5000):
        tree = defs.Gen(rnd, max_depth=rnd.choice([1, 2, 2])).struct()
        for endian, align, compiled in itertools.product("<>", (False, True), (False, True)):
            if rnd.random() < (0.6 if tier == "quick" else 0.3):
                continue
            L, err = load(tree, endian=endian, align=align, compiled=compiled, pointer=rnd.choice(["uint64", "uint32", "uint16"]))
            if L is None:
                continue
            T = L.T
            sigs = eng.sigs(L)
            size = T.size if T.size is not None else 48
            body = None
            for _try in range(4):
                cand = rand_bytes(rnd, size + rnd.choice([0, 8, 24]))
                w, _ = real_parse(T, cand)
                if w[0] == "ok":
                    body, base = cand, w
                    break
            if body is None:
                continue
            for k, v in defs.features(tree).items():
                res.feat(k, v)
            probe(eng, res, rnd, L, T, tree, body, base, sigs)
        if len(eng.lines) > 4000:
            eng.flush()
    eng.flush()
    u2_c09.run_tail(env, eng, res, mkrng(env["seed"], "c09-tail"))
    u2_c09.run_kinds(env, eng, res, mkrng(env["seed"], "c09-kinds"))
    run_unions(env, eng, res, mkrng(env["seed"], "c09-unions"))
    run_long(env, eng, res, mkrng(env["seed"], "c09-long"))
    v4_c09.run_mixed(env, eng, res, mkrng(env["seed"], "c09-mixed"))
    v5_c09.run_subclass(env, eng, res, mkrng(env["seed"], "c09-subclass"))
    v8_c09.run_sentinel(env, eng, res, mkrng(env["seed"], "c09-sentinel"))
    v9_c09.run_files(env, eng, res, mkrng(env["seed"], "c09-files"))
    v9_c09.run_toend(env, eng, res, mkrng(env["seed"], "c09-toend"))
    # the route of the class call (read / reads / shortcut / default / value constructor; unions: rebuilt or left as parsed)
    # against the decision model CstructModel/Call.lean (theorems: Proofs/C09Call.lean)
    v9_c09call.run(env, res, mkrng(env["seed"], "c09-callroute"))
    return res


def replay(body) -> int:
    print("replay:", body.get("what"))
    case = body.get("case", {})
    print(case.get("repro"))
    for k, v in case.items():
        if k not in ("repro", "definition"):
            print(f"  {k}: {v}")
    return 0
