"""C08 — truncated or failing input never fabricates data.

Every cut point of accepted inputs; a wrapper stream that injects, at every read-call index in turn, a premature end
(short read, then nothing) or an exception; after every failure the same types parse a known-good input again (no residue).
The Lean model is compared on every cut (it has the same EOF behaviour primitive by primitive), and the theorem
`c08_shortened` is the unbounded statement.

Residue histories (harness/s3_residue.py): one stream holds two records of a structure with pointers (to scalars, char*
strings, fixed and dynamic structures, pointers; directed and random definitions) and a target area; between the parse of
the first and of the second record, operations that fail are carried out on the same stream and types - dereferences of
pointers whose target is cut off / beyond the end / an unterminated string / null, dereferences and parses with an injected
stream fault, parses started too close to the end, parses of truncated bytes. The second parse (value, stream position
before and after, outcome of dereferencing its pointers) must equal what it is without the failed operations, and a fresh
run afterwards must equal the first one.

Named array lengths (u1, harness/u1_names.py, `named_lengths`): definitions in which an array length is evaluated through the field
context under unusual-but-legal names - a member or constant called EOF (which makes `d[EOF]` an array of definite length), EOF
look-alikes, names of constants / enum members / types, Python keywords, names of the generated readers' locals - as count member,
constant (defined before / after the structure), both, bit-field count, in the outer structure only, with the array last / followed /
nested / element of an array / either dimension of a 2-d array, behind NAME, NAME * 1, (NAME), NAME & 7, ...; inputs are valid by
construction (every byte carries data; value, extent and data mask from the reference parser harness/refimpl.py); every cut point and
every read call x {premature end, exception}: a cut at or before the last data-carrying byte must raise, any returned value must be
the one of the complete input, an injected exception must surface, no residue.

Call forms x few-member aggregates (round 7, harness/v8_c08.py): structures and unions with ONE member (char, unsigned char, char[N],
char[N][M], wchar, wchar[N], uint8 / int8 / BYTE[N], null-terminated char[] / wchar[] / uint8[], a number, enum, pointer, lone
bit-field, nested / anonymous / array-of aggregate) and two- and three-member controls, under {<, >} x {packed, aligned} x
{interpreted, compiled}, and the bare types themselves (cs.char, cs.char[N], cs.wchar[N], numbers, enums, LEB128, 2-d and
null-terminated arrays); every cut of a valid input (confirmed by the reference parser, which also gives the last data-carrying byte)
goes through EVERY way of handing bytes to a type: T(x), T.read(x), cs.read('T', x) with x = bytes, bytearray, memoryview, an instance
of a bytes subclass, io.BytesIO, io.BufferedReader; T.reads(x) with the buffer kinds; T[1](x)[0]; W(x).inner for `struct W { T inner; }`.
A cut at or before the last data byte must raise EOFError in every form; a cut in tail padding raises or returns the complete value;
the complete input (also with bytes following it) returns the same value in every form - the library's construction shortcut, T(bytes)
of EXACTLY the size of a lone char / char[N] member, included - and leaves a stream at the end of the encoding; no residue.  The same
definitions also run through cuts_and_faults (model beside every cut, every read call faulted).

Identical in every observable (round 8, harness/v9_c08.py): a cut input still parses where it ends behind the last data-carrying byte -
inside the tail padding of an aligned union / structure, of the last element of an array of them, of an aggregate that is the last
member of another.  The family generates such definitions - unions whose largest member does not fill the aligned size (uint32 + char[5]
-> 8, uint64 + wchar[3], int24 alone, double + uint16[5], nested and anonymous aggregates), structures with tail padding, zero-length last
members, controls without padding, a share of general random trees - alone, as (anonymous) last member, in arrays, inside unions, inside
the last member, under {<, >} x {aligned, packed} x {interpreted, compiled}; every cut goes through T(x), T.read(x), T.reads(x),
cs.read('T', x) with x = bytes, bytearray, memoryview, bytes subclass, BytesIO, BufferedReader, a bare read/seek/tell object, a real file
(buffered and unbuffered), and through the type inside other constructs: T[2](x)[1], W(x).inner, P(x).p.dereference().  A cut at or before
the last data byte must raise EOFError; a value returned from a cut behind it must be the value of the complete input in EVERY observable:
repr, str, dumps(), bytes(), len(), hash(), bool(), _sizes, type(v).dumps(v), v.write(), dumpstruct(v), on the value and on every member
below it; ==, !=, hash equality and dict lookup against the complete input's value at every aggregate level; the serialisation after every
member was assigned its own value; the position of a stream argument.  Observables are compared where two independent parses of the
complete input agree on them (NaN members make == and hash differ between any two parses).
"""
from __future__ import annotations

import io
import itertools

from .. import defs, impl, refimpl, s3_residue, u1_names
from ..common import Result, mkrng
from ..structprops import Engine, load, real_parse, rand_bytes, has_eof, has_union


class Faulty(io.BytesIO):
    """BytesIO that misbehaves at read call number `at`: mode 'short' delivers at most `keep` bytes and then behaves as an
    exhausted stream; mode 'raise' raises OSError."""

    def __init__(self, data, at, mode, keep=0):
        super().__init__(data)
        self.at, self.mode, self.keep = at, mode, keep
        self.calls = 0
        self.dead = False

    def read(self, n=-1):
        i = self.calls
        self.calls += 1
        if self.dead:
            return b""
        if i == self.at:
            if self.mode == "raise":
                raise OSError("injected fault")
            if self.mode == "once":   # this one call delivers `keep` byte(s) fewer than asked; the stream goes on normally
                return super().read(max(0, n - self.keep)) if n is not None and n > 0 else super().read(n)
            self.dead = True
            got = super().read(n)
            return got[: self.keep]
        return super().read(n)


def count_reads(T, data):
    s = Faulty(data, -1, "none")
    try:
        T(s)
    except Exception:  # noqa: BLE001
        pass
    return s.calls


def cuts_and_faults(eng, res, L, tree, data, full, sigs, *, endian, align, compiled, last_data=None):
    """every cut point and every read call x {premature end, exception} for one accepted input; `full` = real_parse of the
    complete input.  last_data (optional): index of the last data-carrying byte according to the reference parser - then a cut
    at or before it must raise, whatever would be returned (the property's first clause, stated with the reference's extent)."""
    T = L.T
    end = full[2]
    eofarr = has_eof(tree)
    # ---- every cut point
    for k in range(0, min(len(data), end) + 1):
        cut = data[:k]
        w, _ = real_parse(T, cut)
        res.count((L.text, endian, align, compiled, data, "cut", k), k < end)
        cd = eng.case_data(L, data=data, cut=k)
        if w[0] == "ok":
            if eofarr:
                res.feat("eof-array: shortened input returns a shorter value (aside by the property)")
            elif not impl.same_val(full[1], w[1], ignore_union_buf=True) or w[2] != end:
                eng.report(f"input cut at {k} of {end} returns {str(w[1])[:200]} (end {w[2]}); the complete input gives {str(full[1])[:200]} (end {end})", cd, sigs)
            else:
                res.feat("cut-in-tail-padding: same value")
        elif w[1] != "EOFError":
            eng.report(f"input cut at {k} of {end} raises {w[1]}, not EOFError", cd, sigs)
        if w[0] == "ok" and last_data is not None and k <= last_data and not eofarr:
            eng.report(f"input cut at {k}, at or before its last data-carrying byte (index {last_data}), returns a value: {str(w[1])[:200]}", cd, sigs)
        if not compiled and "F23" not in sigs and not has_union(tree):
            eng.model_read(L, cut, 0, w, f"cut at {k}", sigs)
    # ---- stream faults at every read call
    ncalls = count_reads(T, data)
    for at in range(ncalls):
        for mode, keep in (("short", 0), ("short", 1), ("raise", 0), ("once", 1)):
            s = Faulty(data, at, mode, keep)
            try:
                obj = T(s)
                got = ("ok", impl.canon(obj), s.tell())
            except Exception as e:  # noqa: BLE001
                got = ("err", type(e).__name__)
            res.count((L.text, endian, align, compiled, data, mode, at, keep), True)
            res.feat("fault:" + mode)
            cd = eng.case_data(L, data=data, fault=f"{mode}@read#{at} keep={keep}")
            if got[0] == "ok":
                if mode == "raise":
                    eng.report("the stream raised but parsing returned a value", cd, sigs)
                elif not eofarr and not impl.same_val(full[1], got[1], ignore_union_buf=True):
                    eng.report(f"the stream ended early at read #{at} but parsing returned {str(got[1])[:200]} instead of {str(full[1])[:200]}", cd, sigs)
                elif mode == "once" and not eofarr and got[2] != end:
                    eng.report(f"read call #{at} delivered one byte fewer than asked, parsing returned the value of the complete input but left the stream "
                               f"at {got[2]} instead of {end}: what is parsed next from this stream comes from the wrong bytes", cd, sigs)
            elif mode in ("short", "once") and got[1] not in ("EOFError",):
                eng.report(f"premature end at read #{at} raises {got[1]}, not EOFError", cd, sigs)
            # no residue
            again, _ = real_parse(T, data)
            if again[0] != "ok" or not impl.same_val(full[1], again[1]) or again[2] != end:
                eng.report("after a failed parse the same types parse the good input differently (residue)", cd, sigs)


def run(env) -> Result:
    res = Result()
    res.rule = ("seeded random definition trees x {<,>} x {packed, aligned} x {interpreted, compiled}; for an accepted input: every cut point "
                "(the parse must raise EOFError or return the value of the complete input) and every read-call index x {premature end with 0 or "
                "half of the requested bytes, OSError}; after each failure a known-good input is parsed again with the same types. Residue histories: "
                "two records with pointers on one stream, failing dereferences (cut-off / unterminated / null targets, injected faults) and failing "
                "parses between the two parses, second parse compared with the run without them. Named array lengths: count members / constants "
                "called EOF, look-alikes, keywords, reader locals in every position, valid-by-construction inputs with the reference parser's data "
                "mask, every cut and every faulted read call. Call forms: structures / unions with one member (char, char[N], wchar[N], byte arrays, "
                "null-terminated arrays, numbers, nested aggregates; two- and three-member controls) and bare types x every cut of a valid input x "
                "{T(x), T.read(x), T.reads(x), cs.read(name, x), T[1](x)[0], W(x).inner} x {bytes, bytearray, memoryview, bytes subclass, BytesIO, "
                "BufferedReader}: EOFError up to the last data byte, the complete value from the end of the encoding on. Identical in every "
                "observable: aggregates with tail padding (unions whose largest member does not fill the aligned size, padded structures; alone, "
                "last member, anonymous, in arrays, in unions, nested; controls; random trees) x every cut x {T(x), T.read, T.reads, cs.read} x "
                "{bytes, bytearray, memoryview, bytes subclass, BytesIO, BufferedReader, read/seek/tell object, file, unbuffered file} and "
                "T[2](x)[1], W(x).inner, P(x).p.dereference(): a value returned from a cut behind the last data byte equals the complete input's "
                "value in repr, str, dumps, bytes, len, hash, bool, _sizes, write, dumpstruct on every level, in ==, != and dict lookup against "
                "it, after re-assigning its members, and in the stream position. distinct = "
                "(definition, config, input, cut or fault); non-trivial = cut strictly inside the encoded extent")
    eng = Engine(env, res, "C08")
    rnd = mkrng(env["seed"], "c08")
    tier = env["tier"]
    for _ in range(400 if tier == "quick" else 6000):
        tree = defs.Gen(rnd, max_depth=rnd.choice([1, 2, 2])).struct()
        for endian, align, compiled in itertools.product("<>", (False, True), (False, True)):
            if rnd.random() < (0.7 if tier == "quick" else 0.4):
                continue
            L, err = load(tree, endian=endian, align=align, compiled=compiled, pointer=rnd.choice(["uint64", "uint32", "uint16"]))
            if L is None:
                continue
            T = L.T
            sigs = eng.sigs(L)
            size = T.size if T.size is not None else 48
            data = None
            for _try in range(4):
                cand = rand_bytes(rnd, size + rnd.choice([0, 4, 16]))
                w, _ = real_parse(T, cand)
                if w[0] == "ok":
                    data, full = cand, w
                    break
            if data is None:
                continue
            for k, v in defs.features(tree).items():
                res.feat(k, v)
            cuts_and_faults(eng, res, L, tree, data, full, sigs, endian=endian, align=align, compiled=compiled)
        if len(eng.lines) > 4000:
            eng.flush()
    eng.flush()
    named_lengths(env, eng, res, mkrng(env["seed"], "c08-named-lengths"))
    run_residue(env, eng, res, mkrng(env["seed"], "c08-residue"))
    # dynamically sized unions under cuts and faulted reads (harness/v7_c08.py)
    from .. import v7_c08
    v7_c08.run(env, res, lambda w, d: eng.report(w, d, []), Faulty, count_reads, impl.dc())
    # call forms x few-member aggregates and bare types (harness/v8_c08.py)
    from .. import v8_c08
    v8_c08.run(env, eng, res, mkrng(env["seed"], "c08-call-forms"), cuts_and_faults)
    # values returned from shortened inputs are identical to the complete input's value in every observable (harness/v9_c08.py)
    from .. import v9_c08
    v9_c08.run(env, eng, res, mkrng(env["seed"], "c08-observables"), cuts_and_faults)
    eng.flush()
    return res


def named_lengths(env, eng, res, rnd):
    """arrays whose length is evaluated through the field context under unusual-but-legal names (harness/u1_names.py): a member
    or constant called EOF (and look-alikes, names of constants / enum members / types, Python keywords, names of the generated
    readers' locals) in every position; valid-by-construction inputs, every cut, every read call faulted"""
    tier = env["tier"]
    shapes = list(dict.fromkeys(u1_names.SHAPES))
    for it in range(170 if tier == "quick" else 4000):
        # the first rounds walk through every shape with the name EOF itself behind the bare expression, then random plans
        if it < len(shapes):
            pl = u1_names.plan(rnd, shapes[it], name="EOF", bare=True)
        else:
            pl = u1_names.plan(rnd, shapes[it % len(shapes)] if it < 3 * len(shapes) else None)
        configs = list(itertools.product("<>", (False, True), (False, True)))
        for endian, align, compiled in (configs if tier != "quick" else rnd.sample(configs, 3)):
            try:
                L = u1_names.View(pl, endian=endian, align=align, compiled=compiled, pointer=rnd.choice(["uint64", "uint32", "uint16"]))
            except Exception as e:  # noqa: BLE001
                res.feat(f"named-length:definition-rejected:{type(e).__name__}")
                continue
            T, tree = L.T, pl["tree"]
            cfg = L.cfg()
            res.feat("named-length:shape:" + pl["shape"])
            res.feat("named-length:name:" + ("EOF" if pl["name"] == "EOF" else "EOF look-alike" if pl["name"] in u1_names.NAMES_NEAR else
                                             "constant / enum member / type name" if pl["name"] in u1_names.NAMES_KNOWN else "Python keyword or reader local"))
            if pl["expr"] == pl["name"]:
                res.feat("named-length:the expression is the bare name")
            for _i in range(2):
                data = u1_names.make_input(rnd, pl, cfg)
                full, _ = real_parse(T, data)
                if full[0] != "ok":
                    res.feat("named-length:input-rejected:" + full[1])
                    continue
                ref = u1_names.reference(pl, data, cfg)
                last_data = None
                if ref is not None and impl.same_val(full[1], ref[0]) and full[2] == ref[1]:
                    res.feat("named-length:inputs (value and extent as the reference parser gives them)")
                    last_data = ref[2]
                else:
                    # which length an expression denotes is C07's business; here only: cuts and faults never fabricate
                    res.feat("named-length:inputs (value differs from the reference: checked against the complete parse only)")
                cuts_and_faults(eng, res, L, tree, data, full, [], endian=endian, align=align, compiled=compiled, last_data=last_data)
        if len(eng.lines) > 4000:
            eng.flush()
    eng.flush()


def run_residue(env, eng, res, rnd):
    tier = env["tier"]
    for _ in range(260 if tier == "quick" else 3000):
        if rnd.random() < 0.7:
            tree = s3_residue.ptr_tree(rnd)
            src = "directed"
        else:
            tree = defs.Gen(rnd, max_depth=rnd.choice([1, 2]), allow_eof=False).struct()
            src = "random"
            if not s3_residue.tree_has_ptr_outside_union(tree):
                continue
        for endian, align, compiled in itertools.product("<>", (False, True), (False, True)):
            if rnd.random() < (0.7 if tier == "quick" else 0.4):
                continue
            pointer = rnd.choice(["uint64", "uint32", "uint16"])
            L, err = load(tree, endian=endian, align=align, compiled=compiled, pointer=pointer)
            if L is None:
                if src == "directed":
                    eng.report(f"definition rejected: {type(err).__name__}: {err}", {"definition": defs.render_struct("T", tree)}, [])
                continue
            T = L.T
            sigs = eng.sigs(L)
            built = s3_residue.build_stream(rnd, T, T.size if T.size is not None else 40, 1 << (8 * {"uint64": 8, "uint32": 4, "uint16": 2}[pointer]))
            if built is None:
                res.feat("residue: no accepted record pair")
                continue
            stream, l1, l2 = built
            try:
                clog, _, cbefore, control = s3_residue.run_history(T, stream, [], stream[:l1])
            except Exception:  # noqa: BLE001
                res.feat("residue: first record does not parse")
                continue
            if control[0] != "ok":
                res.feat("residue: second record does not parse in the control run")
            nptr = len(s3_residue.pointers(T(stream)))
            if not nptr:
                continue
            res.feat(f"residue-case:{src}")
            # (u1) pointer targets cut off by the end of the stream: the dereference raises or returns the complete target's value
            filler = bytes([0x41, 0x80, 0x01, 0xFF] * 10) + bytes(24)
            for path, addr, got, want, tend in s3_residue.cut_targets(T, stream, filler):
                res.count((L.text, endian, align, compiled, pointer, stream, "cut-target", path), True)
                res.feat("cut-target:dereference " + ("raises" if got[0] == "err" else "returns the complete value (only padding cut off)" if impl.same_val(got[1], want) else "returns another value"))
                if got[0] == "ok" and not impl.same_val(got[1], want):
                    eng.report(f"the target of {path} at {addr} is cut off by the end of the stream ({len(stream)} bytes; the complete target ends at {tend}) "
                               f"but dereferencing returns {str(got[1])[:200]}; the complete target is {str(want)[:200]}",
                               eng.case_data(L, stream=stream, pointer_path=path, address=addr, filler=filler), sigs)
            for _k in range(6 if tier == "quick" else 12):
                ops = s3_residue.make_ops(rnd, nptr, len(stream), l1)
                try:
                    log, nfailed, before, obs = s3_residue.run_history(T, stream, ops, stream[:l1])
                except Exception as e:  # noqa: BLE001
                    eng.report(f"the first record no longer parses: {type(e).__name__}", eng.case_data(L, stream=stream, ops=ops), sigs)
                    continue
                res.count((L.text, endian, align, compiled, pointer, stream, tuple(ops)), nfailed > 0)
                for entry in log:
                    o = entry[-1]
                    res.feat(f"residue-op:{entry[0]}:" + ("failed:" + o[1] if isinstance(o, tuple) and o[0] == "err" else "succeeded"))
                if not nfailed:
                    continue
                if before != cbefore or obs != control:
                    cd = eng.case_data(L, stream=stream, record_lengths=[l1, l2], history=["T(stream)"] + [repr(x) for x in log] + ["T.read(stream)"],
                                       ops=[list(o) for o in ops], position_before_second_parse=before, expected_position=cbefore,
                                       second_parse=repr(obs)[:600], second_parse_without_failed_ops=repr(control)[:600])
                    eng.report(f"after failed operations {[x[0] for x in log]} the stream stands at {before} (without them: {cbefore}) and the next parse "
                               f"gives {repr(obs)[:160]}; without the failed operations it gives {repr(control)[:160]} (residue)", cd, sigs)
            # residue in the types: a fresh control run equals the first one
            try:
                _, _, b2, again = s3_residue.run_history(T, stream, [], stream[:l1])
            except Exception as e:  # noqa: BLE001
                b2, again = None, ("err", type(e).__name__)
            if b2 != cbefore or again != control:
                eng.report("after failed operations a fresh stream with the same bytes parses differently with the same types (residue)",
                           eng.case_data(L, stream=stream, second_parse=repr(again)[:600], expected=repr(control)[:600]), sigs)


def replay(body) -> int:
    print("replay:", body.get("what"))
    case = body.get("case", {})
    print(case.get("repro"))
    for k, v in case.items():
        if k not in ("repro", "definition"):
            print(f"  {k}: {v}")
    return 0
