"""C08 — truncated or failing input never fabricates data.

Every cut point of accepted inputs; a wrapper stream that injects, at every read-call index in turn, a premature end
(short read, then nothing) or an exception; after every failure the same types parse a known-good input again (no residue).
The Lean model is compared on every cut (it has the same EOF behaviour primitive by primitive), and the theorem
`c08_shortened` is the unbounded statement.
"""
from __future__ import annotations

import io
import itertools

from .. import defs, impl, refimpl
from ..common import Result, mkrng
from ..structprops import Engine, load, real_parse, rand_bytes, has_eof, has_union


class Faulty(io.BytesIO):
    """BytesIO that misbehaves at read call number `at`: mode 'short' delivers at most `keep` bytes and then behaves as an
    exhausted stream; mode 'raise' raises OSError."""

    def __init__(self, data, at, mode, keep=0):
        super().__init__(data)
        self.at, self.mode, self.keep = at, mode, keep
        self.calls = 0
        self.dead = False

    def read(self, n=-1):
        i = self.calls
        self.calls += 1
        if self.dead:
            return b""
        if i == self.at:
            if self.mode == "raise":
                raise OSError("injected fault")
            self.dead = True
            got = super().read(n)
            return got[: self.keep]
        return super().read(n)


def count_reads(T, data):
    s = Faulty(data, -1, "none")
    try:
        T(s)
    except Exception:  # noqa: BLE001
        pass
    return s.calls


def run(env) -> Result:
    res = Result()
    res.rule = ("seeded random definition trees x {<,>} x {packed, aligned} x {interpreted, compiled}; for an accepted input: every cut point "
                "(the parse must raise EOFError or return the value of the complete input) and every read-call index x {premature end with 0 or "
                "half of the requested bytes, OSError}; after each failure a known-good input is parsed again with the same types. distinct = "
                "(definition, config, input, cut or fault); non-trivial = cut strictly inside the encoded extent")
    eng = Engine(env, res, "C08")
    rnd = mkrng(env["seed"], "c08")
    tier = env["tier"]
    for _ in range(400 if tier == "quick" else 6000):
        tree = defs.Gen(rnd, max_depth=rnd.choice([1, 2, 2])).struct()
        for endian, align, compiled in itertools.product("<>", (False, True), (False, True)):
            if rnd.random() < (0.7 if tier == "quick" else 0.4):
                continue
            L, err = load(tree, endian=endian, align=align, compiled=compiled, pointer=rnd.choice(["uint64", "uint32", "uint16"]))
            if L is None:
                continue
            T = L.T
            sigs = eng.sigs(L)
            size = T.size if T.size is not None else 48
            data = None
            for _try in range(4):
                cand = rand_bytes(rnd, size + rnd.choice([0, 4, 16]))
                w, _ = real_parse(T, cand)
                if w[0] == "ok":
                    data, full = cand, w
                    break
            if data is None:
                continue
            for k, v in defs.features(tree).items():
                res.feat(k, v)
            end = full[2]
            eofarr = has_eof(tree)
            # ---- every cut point
            for k in range(0, min(len(data), end) + 1):
                cut = data[:k]
                w, _ = real_parse(T, cut)
                res.count((L.text, endian, align, compiled, data, "cut", k), k < end)
                cd = eng.case_data(L, data=data, cut=k)
                if w[0] == "ok":
                    if eofarr:
                        res.feat("eof-array: shortened input returns a shorter value (aside by the property)")
                    elif not impl.same_val(full[1], w[1], ignore_union_buf=True) or w[2] != end:
                        eng.report(f"input cut at {k} of {end} returns {str(w[1])[:200]} (end {w[2]}); the complete input gives {str(full[1])[:200]} (end {end})", cd, sigs)
                    else:
                        res.feat("cut-in-tail-padding: same value")
                elif w[1] != "EOFError":
                    eng.report(f"input cut at {k} of {end} raises {w[1]}, not EOFError", cd, sigs)
                if not compiled and "F23" not in sigs and not has_union(tree):
                    eng.model_read(L, cut, 0, w, f"cut at {k}", sigs)
            # ---- stream faults at every read call
            ncalls = count_reads(T, data)
            for at in range(ncalls):
                for mode, keep in (("short", 0), ("short", 1), ("raise", 0)):
                    s = Faulty(data, at, mode, keep)
                    try:
                        obj = T(s)
                        got = ("ok", impl.canon(obj), s.tell())
                    except Exception as e:  # noqa: BLE001
                        got = ("err", type(e).__name__)
                    res.count((L.text, endian, align, compiled, data, mode, at, keep), True)
                    res.feat("fault:" + mode)
                    cd = eng.case_data(L, data=data, fault=f"{mode}@read#{at} keep={keep}")
                    if got[0] == "ok":
                        if mode == "raise":
                            eng.report("the stream raised but parsing returned a value", cd, sigs)
                        elif not eofarr and not impl.same_val(full[1], got[1], ignore_union_buf=True):
                            eng.report(f"the stream ended early at read #{at} but parsing returned {str(got[1])[:200]} instead of {str(full[1])[:200]}", cd, sigs)
                    elif mode == "short" and got[1] not in ("EOFError",):
                        eng.report(f"premature end at read #{at} raises {got[1]}, not EOFError", cd, sigs)
                    # no residue
                    again, _ = real_parse(T, data)
                    if again[0] != "ok" or not impl.same_val(full[1], again[1]) or again[2] != end:
                        eng.report("after a failed parse the same types parse the good input differently (residue)", cd, sigs)
        if len(eng.lines) > 4000:
            eng.flush()
    eng.flush()
    return res


def replay(body) -> int:
    print("replay:", body.get("what"))
    print(body.get("case", {}).get("repro"), body.get("case", {}).get("data"), body.get("case", {}).get("cut"), body.get("case", {}).get("fault"))
    return 0
