"""C01 — value round-trip: dumping any value and parsing it back yields the same value; writes never silently alter a number.

Values come from parsing arbitrary bytes and from direct construction (defaults with single fields replaced by boundary
values).  Predicates on the real code: T(dumps(v)) == v, consumed == len(dumps(v)); out-of-range integers are rejected.
The Lean model's write/read are compared with the real dumps/parse on the same values (correspondence for the theorem
`roundtrip_S` and its companions).
"""
from __future__ import annotations

import itertools

from .. import defs, impl, refimpl
from ..common import Result, mkrng
from ..structprops import Engine, load, real_parse, small_unit_bits, rand_bytes, has_eof, has_union, union_dump_incomplete


def int_leaves(tree, T, path=()):
    """(path of attribute names, size, signed, kind) for every integer-like leaf reachable through named struct fields"""
    out = []
    for f, rf in zip(tree[1], T.__fields__):
        ty = f["ty"]
        if f["bits"]:
            out.append((path + (rf._name,), None, False, ("bits", f["bits"], ty[0] == "enum")))
            continue
        if ty[0] == "sc" and refimpl.sc(ty[1])[0] == "int":
            _, size, signed, _ = refimpl.sc(ty[1])
            out.append((path + (rf._name,), size, signed, ("int",)))
        elif ty[0] == "enum":
            _, size, signed, _ = refimpl.sc(defs.ENUMS[ty[1]][1])
            out.append((path + (rf._name,), size, signed, ("enum",)))
        elif ty[0] == "ptr":
            out.append((path + (rf._name,), None, False, ("ptr",)))
        elif ty[0] == "struct" and f["name"] is not None:
            out += int_leaves(ty, rf.type, path + (rf._name,))
    return out


def set_path(obj, path, v):
    for p in path[:-1]:
        obj = getattr(obj, p)
    setattr(obj, path[-1], v)


def run(env) -> Result:
    res = Result()
    res.rule = ("seeded random definition trees (all scalar table types and aliases, enums/flags, pointers, fixed/expression/null-terminated/EOF "
                "arrays, nested and anonymous structs, unions, bit-fields, void) x {<,>} x {packed, aligned} x {interpreted, compiled} x pointer "
                "width; values: parsed from random bytes (3 buffers) and constructed (every integer-like leaf set to min, max, min-1, max+1). "
                "Predicates: parse(dumps(v)) == v with exact consumption; out-of-range integers raise. distinct = (definition, config, value "
                "bytes); non-trivial = >= 2 fields or a composite field and >= 2 bytes")
    eng = Engine(env, res, "C01")
    rnd = mkrng(env["seed"], "c01")
    tier = env["tier"]
    n = 260 if tier == "quick" else 12000
    for _ in range(n):
        tree = defs.Gen(rnd, max_depth=rnd.choice([1, 2, 2, 3])).struct()
        for endian, align, compiled in itertools.product("<>", (False, True), (False, True)):
            if rnd.random() < (0.6 if tier == "quick" else 0.3):
                continue
            ptr = rnd.choice(["uint64", "uint32", "uint16", "uint8"])
            L, err = load(tree, endian=endian, align=align, compiled=compiled, pointer=ptr)
            if L is None:
                continue
            T = L.T
            cfg = refimpl.Cfg(endian, align, ptr, impl.CONSTS)
            sigs = eng.sigs(L)
            for k, v in defs.features(tree).items():
                res.feat(k, v)
            size = T.size if T.size is not None else 48
            for data in [rand_bytes(rnd, size + rnd.choice([0, 5, 20])) for _ in range(3)]:
                want, obj = real_parse(T, data)
                if want[0] != "ok":
                    res.feat("input-rejected:" + want[1])
                    continue
                if impl.contains_nan(want[1]):
                    res.feat("skipped:NaN")
                    continue
                nontrivial = (len(tree[1]) >= 2 or tree[1][0]["ty"][0] in ("arr", "struct", "union")) and want[2] >= 2
                res.count((L.text, endian, align, compiled, ptr, data[: want[2]]), nontrivial)
                cd = eng.case_data(L, data=data)
                d = impl.dump(T, obj)
                if d[0] != "ok":
                    eng.report(f"a parsed value cannot be dumped: {d[1]}", cd, sigs)
                    continue
                back, obj2 = real_parse(T, d[1] + (b"" if has_eof(tree) else b"\xEE\xEE"))
                if back[0] != "ok":
                    eng.report(f"dumps(v) cannot be parsed back: {back[1]}", cd, sigs)
                    continue
                if not impl.same_val(want[1], back[1], ignore_union_buf=True) or obj2 != obj or back[2] != len(d[1]):
                    eng.report(f"parse(dumps(v)) = {str(back[1])[:250]} consuming {back[2]} of {len(d[1])}; v = {str(want[1])[:250]}", cd, sigs)
                if "F23" not in sigs:
                    eng.model_write(L, want[1], d, "dumps of a parsed value", sigs)
                    eng.model_read(L, d[1] + b"\xEE\xEE", 0, back if not has_eof(tree) else real_parse(T, d[1] + b"\xEE\xEE")[0], "parse of dumps", sigs)
            # constructed values: boundary integers in every integer-like leaf; out-of-range values must be refused
            if has_union(tree) or T.size is None:
                continue
            base, obj0 = real_parse(T, bytes(size))
            if base[0] != "ok":
                continue
            for path, isz, signed, kind in int_leaves(tree, T)[:6]:
                if kind[0] == "bits":
                    lo, hi = 0, (1 << kind[1]) - 1
                elif kind[0] == "ptr":
                    psz = refimpl.sc(ptr)[1]
                    lo, hi = 0, (1 << (8 * psz)) - 1
                else:
                    lo, hi = (-(1 << (8 * isz - 1)), (1 << (8 * isz - 1)) - 1) if signed else (0, (1 << (8 * isz)) - 1)
                for v in (lo, hi, lo - 1, hi + 1, hi + (hi - lo + 1)):
                    _, o = real_parse(T, bytes(size))
                    fits = lo <= v <= hi
                    try:
                        leaf = o
                        for p in path[:-1]:
                            leaf = getattr(leaf, p)
                        cur = getattr(leaf, path[-1])
                        nv = type(cur)(v) if kind[0] == "enum" or (kind[0] == "bits" and kind[2]) else v
                        if int(getattr(nv, "value", nv)) != v:
                            continue  # IntFlag folds values it cannot represent (C12's finding F22): not this property's business
                        setattr(leaf, path[-1], nv)
                    except Exception:  # noqa: BLE001
                        continue
                    res.count((L.text, endian, align, compiled, path, v), True)
                    res.feat("constructed:" + kind[0] + (":fits" if fits else ":out-of-range"))
                    cd = eng.case_data(L, field=".".join(path), value=v)
                    d = impl.dump(T, o)
                    if fits:
                        if d[0] != "ok":
                            eng.report(f"a value that fits ({'.'.join(path)} = {v}) is refused: {d[1]}", cd, sigs)
                            continue
                        back, o2 = real_parse(T, d[1])
                        if back[0] != "ok" or o2 != o or back[2] != len(d[1]):
                            eng.report(f"constructed value does not round-trip ({'.'.join(path)} = {v})", cd, sigs)
                        eng.model_write(L, impl.canon(o), d, "dumps of a constructed value", sigs) if "F23" not in sigs else None
                    elif d[0] == "ok" and kind[0] != "bits":
                        eng.report(f"{'.'.join(path)} = {v} does not fit but was written as {d[1].hex()} (truncated or wrapped)", cd, sigs)
                    elif d[0] == "ok" and kind[0] == "bits":
                        # a bit-field value that does not fit its width must not be written either
                        eng.report(f"bit-field {'.'.join(path)} = {v} does not fit {kind[1]} bits but was written as {d[1].hex()}", cd, sigs + ["F29"])
        if len(eng.lines) > 4000:
            eng.flush()
    eng.flush()
    return res


def replay(body) -> int:
    print("replay:", body.get("what"))
    print(body.get("case", {}).get("repro"), body.get("case", {}).get("data"))
    return 0
