"""C01 — value round-trip: dumping any value and parsing it back yields the same value; writes never silently alter a number.

Values come from parsing arbitrary bytes and from direct construction (defaults with single fields replaced by boundary
values).  Predicates on the real code: T(dumps(v)) == v, consumed == len(dumps(v)); out-of-range integers are rejected.
The Lean model's write/read are compared with the real dumps/parse on the same values (correspondence for the theorem
`roundtrip_S` and its companions).

Added probe families (s1):
  * endianness histories: ONE cstruct instance lives through epochs (parse/dump, `cs.endian` switched, parse/dump again,
    both orders, sometimes back); in every epoch the round-trip predicate is evaluated on values parsed in that epoch and on
    values carried over from the previous epoch (dumped under the new byte order); the same for standalone scalar, enum and
    array types (s1_hist.endian_history / scalar_history).
  * mixed alignment modes: the definition is split into named definitions loaded by separate cs.load calls with their own
    `align` flag (defs.hoist), so aligned structures with tail padding sit inside packed ones at offsets that are not
    multiples of their alignment, followed by more data, and vice versa; the round-trip predicate is evaluated on the real
    code (s1_mixed).  Inputs on which an aligned structure's tail alignment runs past its declared size are a pending
    finding are classified by its signature (F43, F44).

Added probe family (u1):
  * array forms x element types (harness/u1_arrays.py, `array_forms`): every array form - a[k], a[expression over an earlier member],
    a[], a[EOF], a[k][2], a[EOF][2] - with every scalar element type of the built-in type table (read off the live table: canonical
    types, every alias of the one byte types, a sample / in the thorough tier all of the other aliases) and an enum and a flag over
    every integer type; as a member (`struct { n; ELEM a[..]; tail; }`, to-end-of-stream forms last, interpreted and compiled) and as a
    stand-alone array type (typedef and `cs.resolve(ELEM)[..]`).  Values: parsed from valid-by-construction bytes in which most
    elements have their most significant bit set (in aligned structures ending in a[EOF] the element count makes the structure end
    aligned, so known finding F30 does not apply and the case is checked strictly), and constructed directly from Python values at
    the edges of the element type.  Flags over signed types with sign-bit inputs are C12's known finding F22 (classified, not skipped).

Added probe family (round 4, harness/v4_c01.py, `interrupted_builds`):
  * structures whose building history includes a fault: a generated definition (all of the generator's types) is loaded through the
    parser and its member types are used to build a second structure T incrementally on the same instance (declared with its first 0..2
    members, interpreted or compiled, packed or aligned, either byte order, any pointer width), by a seeded history of steps: add_field
    with a commit per field, `with T.start_update():` batches, `__fields__.extend` + commit, and *faulted* batches - start_update blocks in
    which some add_field calls succeed and then the body raises (unknown type name via cs.resolve / attribute access / cs.typedefs,
    add_field with a missing argument, a failing size expression, the caller's own exception) and the caller catches the exception; the
    failed member is retried or dropped.  Right after every faulted batch, after some ordinary steps and at the end of the history the
    round-trip predicate is evaluated on T as the structure of exactly the members added so far: values parsed from random bytes, the
    same values rebuilt from keyword arguments, and the default value T() (left out only where a size expression decides an array's
    length: the default instance is then not a value a parse can return).  At the end T is also used as member / array element of an
    outer structure loaded from text.  The model's write / read are compared on the same values.

Added probe family (round 8, harness/v8_c01.py, `wide_magnitudes` / `wide_standalone`):
  * MAGNITUDES - values whose encodings are long.  The families above draw integers (almost) always within 64 bits and put boundary
    integers only into structures of fixed size.  Here the members are the types whose values are unbounded or wide - uleb128 /
    ileb128, int128 / uint128, int64 / uint64 - in every position (scalar member, a[k], a[k][2], a[expression over a count member],
    a[], a[EOF], in named / anonymous nested structures and arrays of them), interleaved with narrow members so that a reader that
    stops early or runs on mis-places what follows; either byte order, packed / aligned, interpreted / compiled (definitions without
    a LEB128 member really use the compiled code).  For a LEB128 member the LENGTH of the encoding is drawn first (1 .. 37 bytes, most
    of the mass on 9, 10, 11, 12, 16, 19 and more) and then a value with exactly that length: the smallest / largest such value of
    either sign, a random one, or 2**63, 2**64, 2**69, 2**70, 2**77, 2**126, 2**127, 2**128, 2**200 +- a little and their negatives;
    the fixed-width members get the edges of their type, the powers of two inside it and random values of full width.  Every value is
    (a) constructed from keyword arguments (plain ints / typed instances) and (b) parsed from the module's own textbook encoding of
    the same numbers (sometimes with non-minimal LEB128 encodings, longer than the number needs) followed by foreign bytes; predicate:
    parse(dumps(v)) == v, consumed == len(dumps(v)); model write / read compared.  Refusals: a fixed-width integer leaf of such a
    (dynamically sized) structure set to min-1 / max+1 / max+2**bits / +-2**200, or a uleb128 leaf to a negative number, must make
    dumps raise.  The same for the wide types on their own and for stand-alone array types of them (T[k], T[None], T[EOF],
    T[K2 + 1], typedef'd, one and two dimensional).

Added probe family (round 9, harness/v9_c01.py, `bit_runs`):
  * BIT-FIELD RUNS THAT CHANGE STORAGE TYPE WITHOUT CHANGING SIZE, walked through the public entry points.  The generator above draws
    one storage type per run of bit-fields; here a run is 2..5 segments of 1..3 bit-fields whose storage types all have ONE width
    (8: uint8 / int8 / char, 16: uint16 / int16, 24, 32, 48, 64, 128 - as plain types, enums and flags over them, each spelled by its
    canonical name, a built-in alias read off the live type table or a user typedef) and change from segment to segment: to another
    type of the same width (a new unit must be started by the layout, the writer, the interpreted reader and the compiled reader
    alike), to another spelling / an enum over the same type (the unit must be continued), rarely to another width, now and then
    with an ordinary member in between; most segments leave their unit partly filled, some fill it exactly.  Ordinary members (and
    sometimes a dynamically sized one) precede the run and ordinary members follow it, so a reader that takes a different number
    of units than the writer shows in their values and in the consumed length.  The structure stands on its own or is a named
    member / array element / anonymous member of an outer structure (inline or as a named definition the outer one refers to).
    Definition entry points: cs.load, cs.loadfile (a real file), the legacy parser (DEF_LEGACY; flat packed definitions), the API
    (cs._make_struct from Field objects, or T.add_field field by field; compiler.compile; cs.add_type); interpreted / compiled,
    packed / aligned, byte order spelled '<' '>' '!' '@' '=', every pointer width.  Values: parsed from arbitrary bytes, and
    constructed from keyword arguments (bit-fields 0 / all ones / top bit / alternating / random, plain ints, instances of the storage
    type, enum instances).  Predicate: parse(dumps(v)) == v and consumed == len(dumps(v)) by check_roundtrip / check_constructed
    (model write / read compared), and again through drawn pairs of calling conventions - dump by v.dumps() / T.dumps(v) /
    v.write(stream) / T.write(stream, v) (also at stream offsets 3 and 32), parse by T(x) / T.read(x) / cs.read('T', x) with x a
    bytes / bytearray / memoryview / BytesIO / real file object / BufferedReader, T.reads(x), T.read at stream offsets 3 and 32.
    Refusals: a bit-field of the run set to 2**bits, 2**bits + 1, 2**width, -1 must make dumps raise.  Known findings met and
    classified: F23 (aligned runs on 24 / 48 bit storage types), F43 (aligned structure read / written at stream offset 3).

Added probe family (round 10, harness/v10_c01.py, `wide_text` / `wide_text_standalone`):
  * CODE POINTS vs CODE UNITS.  A wchar array of n entries holds n UTF-16 code units, its Python value is a str whose len() counts code
    points; the two differ exactly on characters outside the basic plane (surrogate pairs), which neither random bytes nor ASCII text
    ever produce.  Text members in every form - wchar c, wchar s[n] (also through an array typedef), s[expression over a count member],
    s[] (null-terminated), s[EOF], s[m][n]; `wchar` spelled by every name of the live type table or a user typedef - between ordinary
    members (integers of every width, char arrays, enums) at the top, in named / anonymous nested structures, in arrays of structures
    and as a union member next to integer views of the same bytes; definitions through cs.load, cs.loadfile, the legacy parser, the API
    (cs._make_struct / cs._make_union / add_field, compiler.compile); interpreted / compiled, packed / aligned, byte order spelled
    '<' '>' '!' '@' '='.  Values: strings of EXACTLY the declared number of units with astral characters (U+10000, U+10400, U+1F600,
    U+10FFFF ...) at every position - one, several, only such - mixed with BMP characters of every kind (and NUL where the form allows
    it); constructed from keyword arguments (plain str / typed instances) and parsed from the module's own textbook UTF-16 encoding
    (units by arithmetic, textbook alignment padding) followed by foreign bytes.  Predicates: check_roundtrip / check_constructed
    (parse(dumps(v)) == v, consumed == len(dumps(v)), model write / read compared); len(dumps(v)) == the declared size where the type
    has one; the value parsed back compared member by member with the plain Python values put in (text by code units, the members
    BEHIND it by their numbers) without the library's __eq__; again through drawn pairs of calling conventions (v.dumps / T.dumps /
    v.write / T.write at offsets 0, 3, 32; T(x) / T.read / cs.read / T.reads over bytes, bytearray, memoryview, BytesIO, a real file,
    a BufferedReader).  The same for the stand-alone array types (typedef'd and cs.resolve(spelling)[n] / [None] / [EOF] / [K2 + 1] /
    two-dimensional): dumps(v) has 2 bytes per unit (+ terminator), parses back to v, is consumed exactly.  Known findings met and
    classified: F30 (aligned structure ending in s[EOF]), F43 (aligned structure at stream offset 3).
"""
from __future__ import annotations

import itertools

from .. import defs, impl, refimpl, s1_hist, s1_mixed, u1_arrays, v4_c01, v8_c01, v9_c01, v10_c01
from ..common import Result, mkrng
from ..structprops import Engine, load, real_parse, small_unit_bits, rand_bytes, has_eof, has_union, union_dump_incomplete, union_anon_nested


def int_leaves(tree, T, path=()):
    """(path of attribute names, size, signed, kind) for every integer-like leaf reachable through named struct fields"""
    out = []
    for f, rf in zip(tree[1], T.__fields__):
        ty = f["ty"]
        if f["bits"]:
            out.append((path + (rf._name,), None, False, ("bits", f["bits"], ty[0] == "enum")))
            continue
        if ty[0] == "sc" and refimpl.sc(ty[1])[0] == "int":
            _, size, signed, _ = refimpl.sc(ty[1])
            out.append((path + (rf._name,), size, signed, ("int",)))
        elif ty[0] == "enum":
            _, size, signed, _ = refimpl.sc(defs.ENUMS[ty[1]][1])
            out.append((path + (rf._name,), size, signed, ("enum",)))
        elif ty[0] == "ptr":
            out.append((path + (rf._name,), None, False, ("ptr",)))
        elif ty[0] == "struct" and f["name"] is not None:
            out += int_leaves(ty, rf.type, path + (rf._name,))
    return out


def set_path(obj, path, v):
    for p in path[:-1]:
        obj = getattr(obj, p)
    setattr(obj, path[-1], v)


def pending(res, tree) -> bool:
    """no definition is skipped any more: a union of anonymous structures with a nested anonymous member (found by these probes)
    is known finding F44 and is classified by its signature (structprops.Engine.sigs)"""
    if union_anon_nested(tree):
        res.feat("definition in the territory of known finding F44 (nested anonymous member in an all-anonymous union)")
    return False


MIXED_MODEL = True


def check_roundtrip(eng, res, L, tree, data, sigs, *, key, model=True, extra=None):
    """the property's predicate on one value, the value being what parsing `data` returns: dumps must succeed, parsing
    dumps(v) (followed by foreign bytes) must return v and consume exactly len(dumps(v)).  -> the parsed object or None"""
    T = L.T
    want, obj = real_parse(T, data)
    if want[0] != "ok":
        res.feat("input-rejected:" + want[1])
        return None
    if impl.contains_nan(want[1]):
        res.feat("skipped:NaN")
        return None
    if extra is not None:
        r = extra(obj)
        if r is False:
            return None
        if isinstance(r, list):      # finding signatures that depend on the input
            sigs = sigs + r
    nontrivial = (len(tree[1]) >= 2 or tree[1][0]["ty"][0] in ("arr", "struct", "union")) and want[2] >= 2
    res.count((*key, data[: want[2]]), nontrivial)
    cd = eng.case_data(L, data=data)
    d = impl.dump(T, obj)
    if d[0] != "ok":
        eng.report(f"a parsed value cannot be dumped: {d[1]}", cd, sigs)
        return obj
    back, obj2 = real_parse(T, d[1] + (b"" if has_eof(tree) else b"\xEE\xEE"))
    if back[0] != "ok":
        eng.report(f"dumps(v) cannot be parsed back: {back[1]}", cd, sigs)
        return obj
    if not impl.same_val(want[1], back[1], ignore_union_buf=True) or obj2 != obj or back[2] != len(d[1]):
        eng.report(f"parse(dumps(v)) = {str(back[1])[:250]} consuming {back[2]} of {len(d[1])}; v = {str(want[1])[:250]}", cd, sigs)
    if model and "F23" not in sigs:
        eng.model_write(L, want[1], d, "dumps of a parsed value", sigs)
        eng.model_read(L, d[1] + b"\xEE\xEE", 0, back if not has_eof(tree) else real_parse(T, d[1] + b"\xEE\xEE")[0], "parse of dumps", sigs)
    return obj


def check_carried(eng, res, L, tree, obj, sigs, *, key):
    """the predicate on a value that exists already (parsed before a configuration change): dump it now, parse it back"""
    T = L.T
    v = impl.canon(obj)
    res.count((*key, "carried", repr(v)), True)
    cd = eng.case_data(L, value=str(v)[:400])
    d = impl.dump(T, obj)
    if d[0] != "ok":
        eng.report(f"a value parsed before the configuration change cannot be dumped after it: {d[1]}", cd, sigs)
        return
    back, obj2 = real_parse(T, d[1] + (b"" if has_eof(tree) else b"\xEE\xEE"))
    if back[0] != "ok":
        eng.report(f"dumps(v) of a carried-over value cannot be parsed back: {back[1]}", cd, sigs)
    elif not impl.same_val(v, back[1], ignore_union_buf=True) or obj2 != obj or back[2] != len(d[1]):
        eng.report(f"carried-over value: parse(dumps(v)) = {str(back[1])[:250]} consuming {back[2]} of {len(d[1])}; v = {str(v)[:250]}", cd, sigs)
    elif "F23" not in sigs:
        eng.model_write(L, v, d, "dumps of a carried-over value", sigs)


def endian_histories(eng, res, rnd, tier):
    """endianness histories on one instance: structures, then standalone scalar / enum / array types"""
    for _ in range(150 if tier == "quick" else 4000):
        tree = defs.Gen(rnd, max_depth=rnd.choice([1, 2, 2, 3])).struct()
        if pending(res, tree):
            continue
        align, compiled = rnd.random() < 0.5, rnd.random() < 0.5
        ptr = rnd.choice(["uint64", "uint32", "uint16", "uint8"])
        sigs = None

        def prep(L):
            nonlocal sigs
            if sigs is None:
                sigs = eng.sigs(L)

        def on_parse(L, data, i):
            prep(L)
            res.feat("history:endian:parse-dump" + (":after-switch" if i else ":first-epoch"))
            return check_roundtrip(eng, res, L, tree, data, sigs, key=("hist", L.text, L.endian, i, align, compiled, ptr), model=i > 0)

        def on_carried(L, obj, i):
            prep(L)
            res.feat("history:endian:carried-value")
            check_carried(eng, res, L, tree, obj, sigs, key=("hist", L.text, L.endian, i, align, compiled, ptr))

        sess = s1_hist.endian_history(rnd, tree, align=align, compiled=compiled, ptr=ptr, on_parse=on_parse,
                                      on_carried=None if has_union(tree) else on_carried)
        if sess is not None:
            res.feat("history:endian:instances")
        if len(eng.lines) > 4000:
            eng.flush()

    def on_value(sess, t, text, data, i, e):
        r = impl.parse(t, data)
        if r[0] != "ok":
            res.feat("input-rejected:" + r[1])
            return
        v = impl.canon(r[1])
        if impl.contains_nan(v):
            return
        res.count(("hist-scalar", text, e, i, data[: r[2]]), r[2] >= 2)
        res.feat("history:endian:standalone-type" + (":after-switch" if i else ":first-epoch"))
        cd = {"history": list(sess.steps), "type": text, "data": data.hex(), "endian": e,
              "repro": sess.script([f"t = {text}; v = t(bytes.fromhex({data.hex()!r})); d = t.dumps(v); assert t(d) == v"])}
        sess.note(f"t = {text}; t.dumps(t(bytes.fromhex({data.hex()!r})))   # under cs.endian = {e!r}")
        d = impl.dump(t, r[1])
        if d[0] != "ok":
            eng.report(f"a parsed {text} value cannot be dumped: {d[1]}", cd, [])
            return
        back = impl.parse(t, d[1] + b"\xEE\xEE")
        if back[0] != "ok" or not impl.same_val(v, impl.canon(back[1])) or back[1] != r[1] or back[2] != len(d[1]):
            eng.report(f"{text}: parse(dumps(v)) = {back[1] if back[0] == 'ok' else back} consuming {back[2] if back[0] == 'ok' else '-'} of "
                       f"{len(d[1])}; v = {r[1]!r}, dumps(v) = {d[1].hex()}", cd, [])

    for _ in range(25 if tier == "quick" else 600):
        s1_hist.scalar_history(rnd, on_value=on_value)


def mixed_alignment(eng, res, rnd, tier):
    """mixed alignment modes: named sub-definitions loaded with their own `align` flag on one instance"""
    for _ in range(320 if tier == "quick" else 8000):
        g = defs.Gen(rnd, max_depth=rnd.choice([1, 2, 2, 3]))
        tree = s1_mixed.with_nested(rnd, g, g.struct())
        if pending(res, tree):
            continue
        endian, compiled = rnd.choice("<>"), rnd.random() < 0.5
        ptr = rnd.choice(["uint64", "uint32", "uint16", "uint8"])
        for _try in range(4):
            plan, tree2 = defs.hoist(tree, rnd, p=0.7, top_align=rnd.random() < 0.5, mixed=True)
            if s1_mixed.is_mixed(plan):
                break
        if rnd.random() < 0.3:
            # directed: an aligned structure with a dynamically sized member, nested in a packed one at an odd offset
            plan, tree2 = s1_mixed.directed_dynamic(rnd, g)
            res.feat("mixed-align:directed (dynamic member inside an aligned structure nested in a packed one)")
        if not s1_mixed.is_mixed(plan):
            res.feat("mixed-align:plan-uniform (not run)")
            continue
        sess = impl.Session(endian=endian, pointer=ptr)
        try:
            L = s1_mixed.load_plan(sess, plan, compiled=compiled)
        except Exception as e:  # noqa: BLE001
            res.feat("mixed-align:definition-rejected:" + type(e).__name__)
            continue
        T = L.T
        mis = s1_mixed.misplaced_aligned(T)
        res.feat("mixed-align:instances")
        res.feat("mixed-align:" + ("aligned-in-packed at a misaligned or dynamic offset" if mis else "every aligned structure at an aligned offset"))
        top_align = plan[-1][2]
        sigs = s1_mixed.sigs_mixed(tree2, top_align, ptr, endian)
        if any(under_union or s1_mixed.has_bitfields(t) for t, under_union in mis):
            # a structure defined with align=True at a position that is not a multiple of its alignment: the writer pads before its
            # bit-field units / union members by the ABSOLUTE stream position, the reader does not. Found by this probe; known finding
            # F43 (classified by this signature, not skipped). Without bit-fields / unions the clean tree fails only on inputs where the
            # tail alignment runs past the declared size: see `overshoot_sig` below - everything else is checked strictly.
            sigs = sigs + ["F43"]
        L.ty_sexp = lambda tree2=tree2, T=T, top_align=top_align: s1_mixed.mixed_ty_sexp(tree2, T, top_align)  # per-node align flags

        def no_overshoot(obj):
            if s1_mixed.overshoot(obj):
                # reader and writer align the misplaced structure's tail by the absolute stream position, past its declared end (F43)
                res.feat("mixed-align:input on which an aligned structure's tail alignment runs past its declared size (F43 territory)")
                return ["F43"]
            return True

        size = T.size if T.size is not None else 48
        for data in [rand_bytes(rnd, size + rnd.choice([0, 5, 20])) for _ in range(3)]:
            if check_roundtrip(eng, res, L, tree2, data, sigs, key=("mixed", sess.script(), compiled), model=MIXED_MODEL, extra=no_overshoot) is not None:
                res.feat("mixed-align:values")


def check_constructed(eng, res, L, tree, obj, sigs, *, key, what):
    """the predicate on a value constructed directly: dumps must succeed, parsing dumps(v) must return v and consume it all"""
    T = L.T
    v = impl.canon(obj)
    res.count((*key, "constructed", repr(v)), True)
    cd = eng.case_data(L, value=str(v)[:400], constructed=what)
    d = impl.dump(T, obj)
    if d[0] != "ok":
        eng.report(f"a constructed value ({what}) cannot be dumped: {d[1]}", cd, sigs)
        return
    back, obj2 = real_parse(T, d[1] + (b"" if has_eof(tree) else b"\xEE\xEE"))
    if back[0] != "ok":
        eng.report(f"dumps(v) of a constructed value ({what}) cannot be parsed back: {back[1]}; dumps(v) = {d[1].hex()}", cd, sigs)
    elif not impl.same_val(v, back[1], ignore_union_buf=True) or obj2 != obj or back[2] != len(d[1]):
        eng.report(f"constructed value ({what}): parse(dumps(v)) = {str(back[1])[:250]} consuming {back[2]} of {len(d[1])}; v = {str(v)[:250]}, "
                   f"dumps(v) = {d[1].hex()}", cd, sigs)
    else:
        eng.model_write(L, v, d, "dumps of a constructed value", sigs)


def array_forms(eng, res, rnd, tier):
    """every array form x every scalar element type of the built-in table (and enums / flags over every integer type), as a
    member and as a stand-alone array type; values parsed from valid-by-construction bytes whose elements mostly have their top
    bit set, and values constructed from Python values at the edges of the element type (harness/u1_arrays.py)"""
    pre = u1_arrays.preamble()
    elems = u1_arrays.elements(rnd, tier)
    allcfg = [(e, a) for e in "<>" for a in (False, True)]
    for ei, elem in enumerate(elems):
        kind, esize, signed, _, is_flag = u1_arrays.info(elem)
        label = f"{elem[1]}" + ("" if u1_arrays.table().get(elem[1], elem[1]) == elem[1] else f"(={u1_arrays.table()[elem[1]]})")
        for endian, align in (allcfg if tier != "quick" else rnd.sample(allcfg, 2)):
            ptr = rnd.choice(["uint64", "uint32"])
            sess = impl.Session(endian=endian, pointer=ptr)
            sess.load_text(pre)
            res.feat("array-forms:instances")
            # ---- as a member
            for form in u1_arrays.FORMS:
                for compiled in ((False, True) if tier != "quick" or form in ("eof", "null") else (rnd.random() < 0.5,)):
                    tree, plan = u1_arrays.member_tree(rnd, elem, form)
                    name = f"M_{form}_{int(compiled)}"
                    try:
                        L = sess.load(tree, name, compiled=compiled, align=align)
                    except Exception as e:  # noqa: BLE001
                        res.feat(f"array-forms:definition-rejected:{form}:{kind}:{type(e).__name__}")
                        continue
                    L.ty_sexp = lambda tree=tree, T=L.T, align=align: u1_arrays.ty_sexp(tree, T, align)
                    res.feat(f"array-forms:member:{form}:{kind}" + (":signed" if signed else ""))
                    key = ("array-forms", label, form, endian, align, compiled)
                    for _i in range(2):
                        data, ntop, aligned_end = u1_arrays.member_input(rnd, elem, plan, endian, align)
                        sigs = []
                        if align and form in ("eof", "eof2d") and (not aligned_end or esize is None):
                            sigs.append("F30")   # (LEB128 elements are re-encoded canonically: the dump's length is not the input's)
                        if is_flag and signed:
                            sigs.append("F22")   # the inputs have elements with the sign bit set
                        sess.note(f"v = cs.{name}(bytes.fromhex({data.hex()!r})); assert cs.{name}(v.dumps()) == v")
                        if check_roundtrip(eng, res, L, tree, data, sigs, key=key) is not None:
                            res.feat("array-forms:parsed values" + (" with top-bit elements" if ntop else ""))
                    # constructed values
                    n = plan["k"] if form in ("fixed", "fixed2d") else rnd.choice([1, 2, 3, 4, 6])
                    if align and form in ("eof", "eof2d"):
                        n = 8      # any element size times 8 (rows of 2: times 16) is a multiple of every alignment: no tail padding
                    val = u1_arrays.constructed(rnd, sess.cs, elem, form, n)
                    if val is None:
                        res.feat("array-forms:constructed:element type refuses an edge value (not run)")
                        continue
                    nval = n + plan["expr"][1] if form == "expr" else rnd.choice([n, 0, 0x7F])
                    try:
                        kw = {"n": nval, "a": val}
                        if plan["tail"]:
                            kw["tail"] = 0x7F
                        obj = L.T(**kw)
                    except Exception as e:  # noqa: BLE001
                        res.feat(f"array-forms:constructed:constructor-raised:{type(e).__name__}")
                        continue
                    res.feat(f"array-forms:constructed:{form}:{kind}")
                    sess.note(f"v = cs.{name}(n={nval}, a={val!r}" + (", tail=0x7f" if plan["tail"] else "") + f"); assert cs.{name}(v.dumps()) == v")
                    # (elements of dynamic size - LEB128 - cannot be counted so that an aligned structure ends aligned: F30 territory)
                    csigs = ["F30"] if align and form in ("eof", "eof2d") and esize is None else []
                    check_constructed(eng, res, L, tree, obj, csigs, key=key, what=f"{label} a<{form}> = {str(val)[:120]}")
            # ---- as a stand-alone array type
            for form, t, text, k in u1_arrays.standalone_types(rnd, sess, elem, f"A{ei}"):
                n = k if k is not None else rnd.choice([1, 2, 3, 5])
                body, ntop = u1_arrays.element_run(rnd, elem, form, endian, n)
                foreign = b"" if form in ("eof", "eof2d") else b"\xEE\xEE"
                res.feat(f"array-forms:standalone:{form}:{kind}" + (":signed" if signed else ""))
                sigs = ["F22"] if is_flag and signed else []
                cases = [("parsed", body)]
                val = u1_arrays.constructed(rnd, sess.cs, elem, form, n)
                if val is not None:
                    cases.append(("constructed", val))
                for origin, x in cases:
                    cd = {"history": list(sess.steps), "type": text, "endian": endian, origin: x.hex() if origin == "parsed" else repr(x)[:300]}
                    if origin == "parsed":
                        r = impl.parse(t, x + foreign)
                        if r[0] != "ok":
                            res.feat("input-rejected:" + r[1])
                            continue
                        v, obj = impl.canon(r[1]), r[1]
                        if impl.contains_nan(v):
                            continue
                        cd["repro"] = sess.script([f"t = {text}; v = t(bytes.fromhex({(x + foreign).hex()!r})); d = t.dumps(v); assert t(d) == v"])
                    else:
                        v, obj = impl.canon(x), x
                        cd["repro"] = sess.script([f"t = {text}; v = {x!r}; d = t.dumps(v); assert t(d) == v"])
                    res.count(("array-forms-standalone", label, text, endian, origin, repr(v)), True)
                    d = impl.dump(t, obj)
                    if d[0] != "ok":
                        eng.report(f"a {origin} {text} value of {label} cannot be dumped: {d[1]}; v = {str(v)[:200]}", cd, sigs if origin == "parsed" else [])
                        continue
                    back = impl.parse(t, d[1] + foreign)
                    if back[0] != "ok" or not impl.same_val(v, impl.canon(back[1])) or back[1] != obj or back[2] != len(d[1]):
                        eng.report(f"{text} of {label} ({origin} value): parse(dumps(v)) = {str(impl.canon(back[1]))[:200] if back[0] == 'ok' else back} "
                                   f"consuming {back[2] if back[0] == 'ok' else '-'} of {len(d[1])}; v = {str(v)[:200]}, dumps(v) = {d[1].hex()}",
                                   cd, sigs if origin == "parsed" else [])
        if len(eng.lines) > 4000:
            eng.flush()


def run(env) -> Result:
    res = Result()
    res.rule = ("seeded random definition trees (all scalar table types and aliases, enums/flags, pointers, fixed/expression/null-terminated/EOF "
                "arrays, nested and anonymous structs, unions, bit-fields, void) x {<,>} x {packed, aligned} x {interpreted, compiled} x pointer "
                "width; values: parsed from random bytes (3 buffers) and constructed (every integer-like leaf set to min, max, min-1, max+1). "
                "Predicates: parse(dumps(v)) == v with exact consumption; out-of-range integers raise. Plus histories on one instance (parse/"
                "dump, cs.endian switched, parse/dump, values carried across the switch; structures and standalone types) and mixed "
                "alignment modes (sub-definitions loaded with their own align flag) and the product array form x element type (every entry of "
                "the built-in type table, enums / flags over every integer type; member and stand-alone array type; values parsed from bytes "
                "with top-bit-set elements and constructed at the edges of the element type). Plus structures built incrementally by "
                "histories that include start_update() batches left through an exception after some add_field calls (declared with 0..2 "
                "members, then add_field / start_update / extend+commit / faulted batches; values parsed, rebuilt from keywords and "
                "default, after every faulted batch and at the end; also nested in an outer structure). Plus magnitudes: structures of "
                "uleb128 / ileb128 / int128 / uint128 / int64 / uint64 members in every position (scalar, fixed / 2-d / expression / null-"
                "terminated / EOF arrays, nested structures and arrays of them) between narrow members, holding values whose LEB128 "
                "encodings are 1..37 bytes long (mostly 9, 10, 11, 12, 16, 19+: around 2**63, 2**64, 2**69, 2**70, 2**77, 2**126, 2**128 and "
                "their negatives) and fixed-width values at the edges / of full width; constructed from keywords and parsed from an "
                "independent textbook encoding (also non-minimal LEB128); out-of-range leaves of dynamically sized structures and negative "
                "uleb128 must be refused; the same for the stand-alone types and array types of them. Plus bit-field runs that change storage "
                "type without changing size: 2..5 segments of bit-fields over the types of one width (uint8 / int8 / char / enums and flags "
                "over them; 16, 24, 32, 48, 64, 128 bit likewise; canonical names, built-in aliases, user typedefs), units left partly "
                "filled, ordinary members before and behind, alone or as member / array element / anonymous member; brought in by cs.load, "
                "cs.loadfile, the legacy parser, cs._make_struct / add_field; x {<, >, !, @, =} x {packed, aligned} x {interpreted, compiled}; "
                "values parsed from random bytes and constructed from keywords; the predicate also through drawn pairs of calling "
                "conventions (v.dumps / T.dumps / v.write / T.write at stream offsets 0, 3, 32; T(x) / T.read(x) / T.reads(x) / cs.read(name, "
                "x) over bytes, bytearray, memoryview, BytesIO, a real file, a BufferedReader); bit-field values that do not fit must be "
                "refused. Plus code points vs code units: wchar members in every form (c, s[n], array typedef, s[expression], s[], s[EOF], "
                "s[m][n]; every spelling of wchar) between ordinary members, at the top / nested / anonymous / in arrays of structures / in "
                "unions, brought in by cs.load, cs.loadfile, the legacy parser, the API; x {<, >, !, @, =} x {packed, aligned} x {interpreted, "
                "compiled}; values of exactly the declared number of UTF-16 units with characters outside the basic plane at every position, "
                "mixed with BMP characters, constructed from keywords and parsed from an independent textbook encoding; predicates: round-"
                "trip with exact consumption, len(dumps(v)) == declared size, the members behind the text compared with the numbers put in, "
                "also through the calling conventions; the same for stand-alone wchar array types. "
                "distinct = (definition, config, value bytes); non-trivial = >= 2 fields or a composite field and >= 2 bytes")
    eng = Engine(env, res, "C01")
    rnd = mkrng(env["seed"], "c01")
    tier = env["tier"]
    n = 260 if tier == "quick" else 12000
    for _ in range(n):
        tree = defs.Gen(rnd, max_depth=rnd.choice([1, 2, 2, 3])).struct()
        if pending(res, tree):
            continue
        for endian, align, compiled in itertools.product("<>", (False, True), (False, True)):
            if rnd.random() < (0.6 if tier == "quick" else 0.3):
                continue
            ptr = rnd.choice(["uint64", "uint32", "uint16", "uint8"])
            L, err = load(tree, endian=endian, align=align, compiled=compiled, pointer=ptr)
            if L is None:
                continue
            T = L.T
            cfg = refimpl.Cfg(endian, align, ptr, impl.CONSTS)
            sigs = eng.sigs(L)
            for k, v in defs.features(tree).items():
                res.feat(k, v)
            size = T.size if T.size is not None else 48
            for data in [rand_bytes(rnd, size + rnd.choice([0, 5, 20])) for _ in range(3)]:
                check_roundtrip(eng, res, L, tree, data, sigs, key=(L.text, endian, align, compiled, ptr))
            # constructed values: boundary integers in every integer-like leaf; out-of-range values must be refused
            if has_union(tree) or T.size is None:
                continue
            base, obj0 = real_parse(T, bytes(size))
            if base[0] != "ok":
                continue
            for path, isz, signed, kind in int_leaves(tree, T)[:6]:
                if kind[0] == "bits":
                    lo, hi = 0, (1 << kind[1]) - 1
                elif kind[0] == "ptr":
                    psz = refimpl.sc(ptr)[1]
                    lo, hi = 0, (1 << (8 * psz)) - 1
                else:
                    lo, hi = (-(1 << (8 * isz - 1)), (1 << (8 * isz - 1)) - 1) if signed else (0, (1 << (8 * isz)) - 1)
                for v in (lo, hi, lo - 1, hi + 1, hi + (hi - lo + 1)):
                    _, o = real_parse(T, bytes(size))
                    fits = lo <= v <= hi
                    try:
                        leaf = o
                        for p in path[:-1]:
                            leaf = getattr(leaf, p)
                        cur = getattr(leaf, path[-1])
                        nv = type(cur)(v) if kind[0] == "enum" or (kind[0] == "bits" and kind[2]) else v
                        if int(getattr(nv, "value", nv)) != v:
                            continue  # IntFlag folds values it cannot represent (C12's finding F22): not this property's business
                        setattr(leaf, path[-1], nv)
                    except Exception:  # noqa: BLE001
                        continue
                    res.count((L.text, endian, align, compiled, path, v), True)
                    res.feat("constructed:" + kind[0] + (":fits" if fits else ":out-of-range"))
                    cd = eng.case_data(L, field=".".join(path), value=v)
                    d = impl.dump(T, o)
                    if fits:
                        if d[0] != "ok":
                            eng.report(f"a value that fits ({'.'.join(path)} = {v}) is refused: {d[1]}", cd, sigs)
                            continue
                        back, o2 = real_parse(T, d[1])
                        if back[0] != "ok" or o2 != o or back[2] != len(d[1]):
                            eng.report(f"constructed value does not round-trip ({'.'.join(path)} = {v})", cd, sigs)
                        eng.model_write(L, impl.canon(o), d, "dumps of a constructed value", sigs) if "F23" not in sigs else None
                    elif d[0] == "ok" and kind[0] != "bits":
                        eng.report(f"{'.'.join(path)} = {v} does not fit but was written as {d[1].hex()} (truncated or wrapped)", cd, sigs)
                    elif d[0] == "ok" and kind[0] == "bits":
                        # a bit-field value that does not fit its width must not be written either
                        eng.report(f"bit-field {'.'.join(path)} = {v} does not fit {kind[1]} bits but was written as {d[1].hex()}", cd, sigs + ["F29"])
        if len(eng.lines) > 4000:
            eng.flush()
    endian_histories(eng, res, mkrng(env["seed"], "c01-endian-history"), tier)
    mixed_alignment(eng, res, mkrng(env["seed"], "c01-mixed-align"), tier)
    eng.flush()
    array_forms(eng, res, mkrng(env["seed"], "c01-array-forms"), tier)
    eng.flush()
    v4_c01.interrupted_builds(eng, res, mkrng(env["seed"], "c01-interrupted-builds"), tier,
                              check_roundtrip=check_roundtrip, check_constructed=check_constructed)
    eng.flush()
    v8_c01.wide_magnitudes(eng, res, mkrng(env["seed"], "c01-magnitudes"), tier,
                           check_roundtrip=check_roundtrip, check_constructed=check_constructed, load=load)
    v8_c01.wide_standalone(eng, res, mkrng(env["seed"], "c01-magnitudes-standalone"), tier)
    eng.flush()
    v9_c01.bit_runs(eng, res, mkrng(env["seed"], "c01-bit-runs"), tier, check_roundtrip=check_roundtrip, check_constructed=check_constructed)
    eng.flush()
    v10_c01.wide_text(eng, res, mkrng(env["seed"], "c01-wide-text"), tier, check_roundtrip=check_roundtrip, check_constructed=check_constructed)
    v10_c01.wide_text_standalone(eng, res, mkrng(env["seed"], "c01-wide-text-standalone"), tier)
    eng.flush()
    return res


def replay(body) -> int:
    print("replay:", body.get("what"))
    print(body.get("case", {}).get("repro"), body.get("case", {}).get("data"))
    return 0
