"""C17 — structure values: field-wise equality, consistent hash/bool, local assignment.

Real classes with 0..40 fields, names that collide with the code templates' globals, several classes of equal field
count created in varying order (shared, patched code templates), pairs of instances, every single-field assignment of
fixed-size structures.  The predicates are the property's own; the Lean model (`Instance.lean`) gives the unbounded
statements and is compared on equality / bool / init.

Added probes (harness/s6_c17.py) on fixed-size structures with bit-field runs, enums, char/int arrays, nested and anonymous
members and unusual-but-legal field names (`_`, `__`, `_1`, dunder- / private- / template-internal-looking names; F19 names
stay confined to the batch above):
  * names: for every field a pair of instances differing in exactly that field (`==`/`!=` against the field-wise
    comparison) and an instance whose only non-zero field it is (bool), parsed, keyword-constructed and assigned;
  * hash histories: hash / set / dict use, then field assignments (also in place inside a nested structure), then
    comparison with a never-hashed instance holding equal fields: `==`, equal hash, mutual set / dict membership;
  * boundary assignments: bit-fields 0, 1, 2**n-1, 2**n, 2**n+1, -1, integers / array entries / enum values min, max, min-1,
    max+1 on all-zero, all-ones and random instances: rejected with an error, or only bits of that field (as determined by
    single-bit probing of the reader) change and a representable value reads back.

In-place histories (harness/u4_c17.py): structures and unions with container-valued members (integer arrays, 2-D arrays, nested and
inline structures, arrays of structures, unions, arrays of unions, up to three levels), parsed or keyword-initialised with private
copies (never default-constructed: F8), changed WITHOUT going through the instance's `__setattr__` (`x.a[i] = v`, `x.a[i] ^= m`,
`x.ps[i].f = v`, `x.s.r[i] = v`, `x.u.a[i] = v`, ...); after every change `==` / `!=` (both orders), the hash of equal hashable
instances and `bool()` of four twins (all changes / the same changes / all but the last / untouched) are compared with the
property's predicate applied recursively (same type and every field equal, structure-valued fields field by field).

Faulted definition histories (harness/v4_c17.py): structures declared with the first fields of a generated list (integers of 1..8
bytes, bit-field runs, enums / flag, char / wchar (arrays), integer arrays, a nested structure, float; packed / aligned, compiled /
interpreted, both endiannesses), to which the rest is added later: by ordinary `S.add_field(...)`, in `with S.start_update():`
blocks, and in at least one block whose body RAISES after 0..2 successful add_field calls (unknown type name, add_field with None /
a type name / a missing argument, the caller's own Exception / KeyError / BaseException) and whose exception the caller handles;
behind it further fields are added by ordinary add_field calls outside any block.  After the fault and the later steps the
class must be a structure value type exactly like the one-shot declaration of the same fields: keyword construction with every
field, attribute read-back, dumps equal to the one-shot class's, `==` / `!=` / hash of instances made three ways (keywords,
assignment on S(), parse), for EVERY field (the late ones included) a pair differing in exactly that field is unequal, bool
against any(fields) on random / all-zero / one-field-non-zero instances, S() holding every field's zero value, positional /
keyword / partial construction against assignment on S(), assignment of every field local to that field's bits and to the instance.

Repeated discard members (harness/v5_c17.py): fixed-size structures that declare the discard name `_` two to four times (the library
folds them into ONE field / constructor argument, so the declared member list is longer than the field-name list the generated
methods are built from), interleaved with 2..7 named members whose neighbouring zero values differ (integers, bit-field runs that may
contain `_` bit-fields, enums / flag, char[k], wchar[k], integer / 2-D / enum arrays, two nested structures, float16 / float / double,
pointers); `_` members all of one type, integers of differing widths, or of mixed kinds; packed / aligned, compiled / interpreted,
both endiannesses, pointer size 2 / 4 / 8, declared in one piece or completed by add_field / a start_update() block.  Every named
field of T() holds ITS type's zero value (compared structurally) and T().dumps() is len(T) zero bytes; T(first=v), T(v1, v2),
T(last=v), all-positional, all-keyword and random partial constructions give the values given, zero values elsewhere, and equal
(==, hash, fields, dumps) the default instance with those fields assigned; equal instances made four ways are == and hash equally,
a pair differing in any one name (also `_`) or in the class is !=; bool against any(fields); assignment of a named field changes only
that field's bits, assignment of `_` no bit of a named field; parsed pairs are == exactly when all fields are equal.  The laws that
dump are evaluated where the writer can encode the folded `_` value in every `_` member (see v5_c17.DUMP_MIXED_PADS for the
excluded class and the behaviour of the unmodified library there).

Value kinds and members with their own == / hash (harness/v6_c17.py; the expected dump is computed by the harness from the C layout
rule and the standard encodings, packed / aligned x compiled / interpreted x endianness x pointer size):
  * value kinds: flat fixed-size structures (integers of 1..16 bytes, bit-field runs, enums / flags, char, char[k], wchar, wchar[k],
    floats, pointers, integer arrays); every field is given each kind of Python value its type's writer encodes - char: bytes,
    bytearray, int (bool, int subclass, IntEnum / cstruct enum member, cstruct integer), str, with ALL 256 character codes as int, as
    str and as bytes; char[k]: bytes, bytearray, memoryview, str, list of ints; wchar: str (subclass); integers / bit-fields / pointers:
    int, bool, int subclass, enum members, cstruct integers, Pointer; enums: member by value / name / composed flag (a plain int is
    rejected by the unmodified writer: counted); floats: float, int, bool, ... - by attribute assignment on a parsed instance, by
    keyword and positionally.  dumps() must be len(T) bytes, equal the dump before outside the field's bytes (bits), hold there the
    standard encoding of the value (latin-1 for char); constructions must dump like, be == to and hash like the default instance with
    the same values assigned; the dump re-parses to the own-kind values and `==` against the assigned instance follows the field-wise
    predicate.
  * special members: structures with void members (scalar, fixed-count arrays, inside named / anonymous nested structures and arrays
    of structures, void pointers), enums / flags with values named twice, nested structures, unions of integers: instances holding
    equal fields made by parsing the same bytes twice, keywords (void given or left out), assignment and positionally are ==, not !=,
    and - WHENEVER both are hashable - hash equally and find each other in sets / dicts (unhashable instances are counted); a pair
    differing in one member is !=; bool against any(fields); assigning a fresh void changes nothing.  The hash law leaves out pairs
    that hold differently NAMED equal enum members / a member against its integer (v6_c17.HASH_ENUM_NAME_PAIRS: the unmodified
    library hashes members by name but compares them by value - reported).

Zero-sized members inside runs (harness/v9_c17b.py): fixed-size structures in which members that occupy no byte (void, empty structures /
unions and arrays of them, a structure of zero-sized members, `T x[0]` for integer / enum / float / structure / pointer elements, `char c[0]`,
`char c[K0]`, `wchar w[0]`, `uint8 m[0][3]`, `void v[2]`) stand between two bit-fields of the same storage unit, behind a full unit, between
runs, between ordinary members (integers, enums, char[k], arrays, nested structures - one with its own zero-sized cut), first and last;
packed / aligned x compiled / interpreted x endianness, declared in one piece or completed by add_field / a start_update() block, used on
their own, as a member `struct O { uint8 pre; T t; uint16 post; }` and as array elements `struct A { T ts[2]; uint8 post; }`.  With the
bit masks of every leaf taken from the reader (one-bit inputs): dumps() / bytes(x) / x.write(fh) (also behind a prefix) of parsed instances
are len(T) bytes and re-parse to the same values; assigning ANY leaf (the zero-sized ones too; `x.f`, `o.t.f`, `a.ts[i].f`, whole `o.t` /
`a.ts[i]`) a donor's value changes no dump bit outside that leaf's mask, stores the donor's bits inside it and re-parses to the old values
with that leaf replaced; keyword / positional / assigned constructions from the parsed values are == (hash equal when hashable), dump
alike, bool == any(fields); T() is len(T) zero bytes; partial constructions equal T() with those fields assigned and dump the parsed
dump restricted to the given fields' masks; one-bit-differing parses are !=.

Assignments that compare equal but encode differently (harness/v10_c17.py): T a structure OR a union of 2..5 members (integers, float16 /
float / double, enums with an alias-valued member / a flag, char, char[k], integer / enum / float arrays, nested structures and arrays of
them; at least one float; packed / aligned x compiled / interpreted x endianness), used on its own and INSIDE `struct O { uint8 pre; T t;
uint16 post; }`, `struct A { T ts[2]; uint8 post; }` and `union W { T t; uint64 q; }`; instances from T(), keyword construction and parsing
through the class call with bytes / bytearray / memoryview / a stream, `.read` and `.reads`.  Histories of 3..8 assignments whose value is
mostly == to the member's CURRENT value but another encoding or another object: -0.0 over 0.0 and back, 0 / False over -0.0, an int / True
over an integral float, True over 1, an enum member / cstruct integer / int subclass over its integer, a new or alias-named enum member, a
new bytes / bytearray / memoryview of equal content, the same list after an in-place change (`x.a[i] = n; x.a = x.a`) or an equal copy of
it, lists holding bools / -0.0 for equal elements, the same nested structure (a union's proxy) after a field was assigned through it, a
fresh equal structure, one whose zero float field has the other sign.  After every assignment the dump equals the dump before with
exactly that member's bytes (C layout rule computed by the harness) replaced by the standard encoding of the ASSIGNED value, bytes(x) /
x.write(fh) agree, every member of T (a union's other members) holds what the dump holds at its bytes, the instance is == to the one parsed
from its dump, and T(m=v) / T(v) are == to, hash like and dump like the default instance with m assigned (zero bytes elsewhere).
"""
from __future__ import annotations

import itertools

from .. import defs, impl, refimpl, s6_c17, u4_c17, v4_c17, v5_c17, v6_c17, v9_c17, v9_c17b, v10_c17
from ..common import Case, Result, mkrng
from ..structprops import rand_bytes

RISKY = ["any", "hash", "other", "class_", "None_", "size", "fields", "type", "value", "all", "tuple", "obj", "r", "s", "o", "stream", "context",
         "data", "buf", "lookup", "alignment", "dynamic", "cs", "read", "name", "i", "_0", "_1", "x_0"]
F19_NAMES = ["self", "cls", "__class__", "_values", "_sizes", "dumps", "write", "__dict__", "__weakref__"]
TYPES = ["uint8", "int8", "uint16", "int32", "uint64", "uint24", "char", "float", "E8"]


def run(env) -> Result:
    res = Result()
    res.rule = ("structures with 0..40 fields of scalar/array/nested types, field names drawn from identifiers that collide with the "
                "generated templates' globals and locals, batches of classes with equal field counts created in shuffled order (shared "
                "templates), loaded compiled and interpreted; pairs of instances (identical bytes, one differing field, other class with the same "
                "layout); init positional/keyword/partial; every single-field assignment of fixed-size structures (dump locality). s6_c17: unusual field names with a differing pair / "
                "only-non-zero instance for every field, hash-then-assign histories against a never-hashed twin, boundary-value assignments with "
                "bit-level locality. u4_c17: in-place changes of container-valued members (array elements, fields of structures in arrays / nested "
                "structures, below unions and arrays of unions) of parsed / keyword-initialised structures and unions, ==/!=/hash/bool of four twins "
                "against the recursive field-wise predicate. v4_c17: definition histories with a fault (load of the first fields, then add_field / "
                "start_update() steps of which at least one update block is left through a handled exception after 0..2 fields, then ordinary "
                "add_field calls outside any block; packed/aligned x compiled/interpreted x endianness): on the class after the fault and after "
                "the later steps keyword construction with every field, read-back, dumps against the one-shot declaration, ==/!=/hash of equal "
                "instances made by keywords / assignment / parse, a differing pair for every field, bool on random / zero / one-non-zero-field "
                "instances, defaults, partial construction, per-field assignment locality (bit masks from the one-shot reader). v5_c17: structures "
                "declaring the discard name `_` 2..4 times (folded into one field; all of one type / integers of differing widths / mixed kinds; "
                "also as bit-fields) between named members of kinds with pairwise different zero values (int, bit-fields, enum, char[k], wchar[k], "
                "arrays, nested, float, pointer), packed/aligned x compiled/interpreted x endianness x pointer size, one-shot or completed by "
                "add_field / start_update(): structural zero value of every named field of T(), all-zero dumps of len(T), fixed and random "
                "positional / keyword / partial constructions against assignment on T() (fields, ==, hash, dumps), equal instances made by "
                "keywords / assignment / positionally / parse, a differing pair for every name and for the twin class, bool, assignment "
                "locality by the reader's bit masks, parsed one-bit pairs == iff fields equal (dump laws only where every `_` member can "
                "encode the folded `_` value). v6_c17 (expected dumps computed from the C layout rule and the standard encodings; packed/aligned x "
                "compiled/interpreted x endianness x pointer size): (a) every field of flat structures (ints of 1..16 bytes, bit-fields, enums, "
                "char, char[k], wchar, wchar[k], floats, pointers, int arrays) given each Python value kind its writer encodes (char: bytes / "
                "bytearray / int incl. bool, int subclasses, enum members / str, all 256 character codes each as int, str and bytes; char[k]: "
                "bytes-likes, str, list of ints; ints / bit-fields / pointers / floats: int, bool, subclasses, IntEnum and cstruct enum members, "
                "cstruct numbers; enums: member by value / name / composed) by attribute assignment, keyword and positional construction: "
                "dumps is len(T) bytes, unchanged outside the field, the standard encoding (latin-1 for char) inside, constructions equal the "
                "default instance with the values assigned, the dump re-parses to the own-kind values, == follows the field-wise predicate; "
                "(b) structures with void members (scalar, fixed arrays, in nested / anonymous structures, arrays of structures, void *), "
                "alias-valued enums / flags, nested structures, integer unions: equal instances made by two parses / keywords / assignment / "
                "positionally are ==, and whenever both hashable hash equally and meet in sets / dicts (unhashable: counted), one differing "
                "member gives !=, bool = any(fields), assigning a fresh void changes nothing. v9_c17: unions with 1..2 structure members (also "
                "inside a structure and as array elements), default / zero / one-non-zero-byte (every position) / random / assigned-through-the-"
                "nested-structure instances: bool() of the instance and of every structure-like member equals any(bool(field)) taken "
                "recursively (the wrapper of a structure member of a union counts as the structure). v9_c17b: structures with zero-sized members "
                "(void, empty structures / unions and arrays of them, T x[0], char c[0], wchar w[0], 2-D arrays with a zero dimension) between two "
                "bit-fields of one storage unit, behind a full unit, between runs, between ordinary members, first and last; packed/aligned x "
                "compiled/interpreted x endianness x one-shot / add_field / start_update(); on their own, as a nested member and as array "
                "elements; bit masks of every leaf from the reader's answers to one-bit inputs: dumps / bytes() / write() of parsed instances "
                "are len(T) bytes and re-parse to the same values, assigning any leaf (zero-sized ones included, whole nested members too) "
                "changes only that leaf's bits, stores the donor's bits and re-parses to the old values with that leaf replaced; keyword / "
                "positional / assigned / partial constructions, ==, hash (when hashable), bool, T() as zero bytes, one-bit-differing pairs. v10_c17: "
                "structures AND unions of 2..5 members (ints, float16 / float / double, enums with aliases, flag, char, char[k], int / enum / float "
                "arrays, nested structures and arrays of them; packed/aligned x compiled/interpreted x endianness), on their own and inside a "
                "structure member, an array member and a union member (proxy); instances from T(), keywords, class call with bytes / bytearray / "
                "memoryview / stream, .read, .reads; histories of 3..8 assignments of values == to the member's current value but of another "
                "encoding or identity (-0.0 / 0.0 / 0 / False, int / True over float, True / enum member / cstruct int / int subclass over int, "
                "new / alias enum member, equal bytes / bytearray / memoryview, the same list after an in-place change or an equal copy, lists "
                "with bools / -0.0, the same nested structure after a field assignment through it, fresh equal structures, signed zero inside): "
                "the dump is the dump before with exactly that member's bytes (layout computed by the harness) replaced by the encoding of the "
                "assigned value, bytes() / write() agree, all members of T (a union's other members) hold what the dump holds, x == parse(dump), "
                "T(m=v) / T(v) ==, hash and dump like the default instance with m assigned. distinct = "
                "(definition, instance bytes, operation); non-trivial = >= 2 fields")
    dc = impl.dc()
    rnd = mkrng(env["seed"], "c17")
    tier = env["tier"]
    findings = {f["id"] for f in env["findings"]}

    def viol(what, data, sig=None):
        if sig and sig in findings:
            res.known_seen[sig] = res.known_seen.get(sig, 0) + 1
        elif len(res.violations) < 50:
            res.violations.append(Case("property", what, data))

    counts = list(range(0, 13)) + [16, 17, 25, 33, 40]
    for rep in range(3 if tier == "quick" else 40):
        cs = dc.cstruct(endian=rnd.choice("<>"))
        cs.load(defs.PREAMBLE)
        batch = []
        order = counts * 2
        rnd.shuffle(order)
        for ci, n in enumerate(order):
            pool = RISKY + [f"f{i}" for i in range(50)]
            names = rnd.sample(pool, n)
            f19 = False
            if n and rnd.random() < 0.06:
                names[rnd.randrange(n)] = rnd.choice(F19_NAMES)
                f19 = True
            fields = []
            for nm in names:
                r = rnd.random()
                t = rnd.choice(TYPES)
                if r < 0.75:
                    fields.append(f"{t} {nm};")
                elif r < 0.9:
                    fields.append(f"{t} {nm}[{rnd.randint(1, 3)}];")
                else:
                    fields.append(f"struct {{ uint8 a; uint16 b; }} {nm};")
            sname = f"S{rep}_{ci}"
            text = f"struct {sname} {{ {' '.join(fields)} }};"
            compiled = rnd.random() < 0.5
            data0 = {"definition": text, "compiled": compiled}
            try:
                cs.load(text, compiled=compiled)
                T = getattr(cs, sname)
            except Exception as e:  # noqa: BLE001
                viol(f"definition rejected: {type(e).__name__}: {e}", data0, "F19" if f19 else None)
                continue
            batch.append((T, names, text, f19))
        for T, names, text, f19 in batch:
            sig = "F19" if f19 else None
            size = len(T)
            n = len(names)
            for _ in range(3):
                raw = rand_bytes(rnd, size)
                cd = {"definition": text, "data": raw.hex()}
                res.count((text, raw, "pair"), n >= 2)
                res.feat(f"fields:{min(n, 20)}" + ("+" if n > 20 else ""))
                try:
                    a, b = T(raw), T(raw)
                    fa = [getattr(a, f._name) for f in T.__fields__]
                except Exception as e:  # noqa: BLE001
                    viol(f"parsing raises {type(e).__name__}: {e}", cd, sig)
                    break
                if impl.contains_nan(impl.canon(a)):
                    continue
                # equality: same type and all fields equal
                try:
                    hashes_ok = hash(a) == hash(b)
                    res.feat("hashable")
                except TypeError:
                    hashes_ok = True  # list-valued fields: not hashable, the property only speaks of hashable instances
                    res.feat("unhashable (array fields)")
                if not (a == b) or (a != b) or not hashes_ok:
                    viol("two instances with equal fields are not equal / hash differently", cd, sig)
                # falsy exactly when all fields are
                if bool(a) != any(bool(x) for x in fa):
                    viol(f"bool(instance) is {bool(a)} but any(fields) is {any(bool(x) for x in fa)}", cd, sig)
                z = T(bytes(size))
                if n and all(not bool(getattr(z, f._name)) for f in T.__fields__) and bool(z):
                    viol("an instance whose fields are all falsy is truthy", cd, sig)
                # one differing field -> unequal
                if n:
                    k = rnd.randrange(n)
                    fk = T.__fields__[k]
                    raw2 = bytearray(raw)
                    if fk.offset is not None and fk.type.size:
                        raw2[fk.offset] ^= 0x01
                        c = T(bytes(raw2))
                        if not impl.contains_nan(impl.canon(c)) and getattr(c, fk._name) != getattr(a, fk._name) and (a == c or not (a != c)):
                            viol(f"instances differing in field {fk._name} compare equal", cd, sig)
                # same layout, other class -> never equal
                others = [t for t, nn, _, _ in batch if t is not T and len(nn) == n and len(t) == size]
                if others:
                    o = others[0]
                    try:
                        if a == o(raw):
                            viol("instances of two different structure types compare equal", dict(cd, other=o.__name__), sig)
                        res.feat("cross-class-eq")
                    except Exception:  # noqa: BLE001
                        pass
                # init: positional / keyword / partial == assigning on a default instance
                kpos = rnd.randint(0, n)
                kw_idx = [i for i in range(kpos, n) if rnd.random() < 0.5]
                if kpos == 1 and isinstance(fa[0], (bytes, bytearray, memoryview)):
                    kpos, kw_idx = 0, [0] + kw_idx   # a single positional bytes argument means "parse these bytes" by design
                try:
                    built = T(*fa[:kpos], **{T.__fields__[i]._name: fa[i] for i in kw_idx})
                    manual = T()
                    for i in list(range(kpos)) + kw_idx:
                        setattr(manual, T.__fields__[i]._name, fa[i])
                    res.count((text, raw, "init", kpos, tuple(kw_idx)), n >= 2)
                    if built != manual or built.dumps() != manual.dumps():
                        viol("constructing from positional/keyword values differs from assigning those fields on a default instance", cd, sig)
                    dflt = T()
                    for i in range(n):
                        if i >= kpos and i not in kw_idx:
                            if getattr(built, T.__fields__[i]._name) != getattr(dflt, T.__fields__[i]._name):
                                viol(f"unspecified field {T.__fields__[i]._name} does not take the type's default", cd, sig)
                    if n and T().dumps() != bytes(size):
                        viol("the default instance does not dump as all zero bytes", cd, sig)
                except Exception as e:  # noqa: BLE001
                    viol(f"construction from values raises {type(e).__name__}: {e}", cd, sig)
                # assignment locality: only the field's own bytes change in the dump
                try:
                    before = a.dumps()
                except Exception as e:  # noqa: BLE001
                    viol(f"dumps raises {type(e).__name__}: {e}", cd, sig)
                    continue
                if before != raw:
                    viol("dumps of a parsed fixed-size structure differs from its bytes", cd, sig)
                for k in range(n):
                    fk = T.__fields__[k]
                    if fk.offset is None or not fk.type.size:
                        continue
                    try:
                        donor = T(rand_bytes(rnd, size))
                        if impl.contains_nan(impl.canon(donor)):
                            continue
                        donor_bytes = donor.dumps()
                    except Exception as e:  # noqa: BLE001
                        viol(f"parse/dump raises {type(e).__name__}: {e}", cd, sig)
                        continue
                    try:
                        a2 = T(raw)
                        setattr(a2, fk._name, getattr(donor, fk._name))
                        after = a2.dumps()
                    except Exception as e:  # noqa: BLE001
                        viol(f"assigning field {fk._name} raises {type(e).__name__}: {e}", cd, sig)
                        continue
                    res.count((text, raw, "assign", k), n >= 2)
                    lo, hi = fk.offset, fk.offset + fk.type.size
                    if len(after) != len(before) or after[:lo] != before[:lo] or after[hi:] != before[hi:] or after[lo:hi] != donor_bytes[lo:hi]:
                        viol(f"assigning field {fk._name} changed bytes outside [{lo},{hi}) or did not store the value", cd, sig)
    # unusual field names (every field: differing pair / only non-zero field), hash histories, boundary-value assignments
    s6_c17.run(env, res, viol, mkrng(env["seed"], "c17:s6"), 6 if tier == "quick" else 80)
    # in-place changes of container-valued members (bypassing __setattr__): equality / hash / bool against the recursive field-wise predicate
    u4_c17.run(env, res, viol, mkrng(env["seed"], "c17:u4"), 40 if tier == "quick" else 800)
    # definition histories with a fault inside an update block, then ordinary add_field calls: the value laws on the resulting class
    v4_c17.run(env, res, viol, mkrng(env["seed"], "c17:v4"), 120 if tier == "quick" else 1500)
    # repeated discard members (`_` declared 2..4 times, folded into one field): defaults, construction, equality / hash / bool, locality
    v5_c17.run(env, res, viol, mkrng(env["seed"], "c17:v5"), 150 if tier == "quick" else 2500)
    # every value kind a field's writer accepts (all 256 character codes through char), by assignment / keyword / positionally
    v6_c17.run_values(env, res, viol, mkrng(env["seed"], "c17:v6a"), 60 if tier == "quick" else 1200)
    # void members, alias-valued enums, nested structures, unions: == / hash / bool of equal instances made five ways
    v6_c17.run_special(env, res, viol, mkrng(env["seed"], "c17:v6b"), 150 if tier == "quick" else 4000)
    # truth value of unions with structure members (handed out through a wrapper) and of their containers: F79, fixed
    v9_c17.run(env, res, viol, mkrng(env["seed"], "c17:v9"), 25 if tier == "quick" else 600)
    # zero-sized members (void, empty structures, T x[0], char c[0]) between bit-fields of one unit, between members, first and last
    v9_c17b.run(env, res, viol, mkrng(env["seed"], "c17:v9b"), 24 if tier == "quick" else 240)
    # assignments of values that are == to the member's current value but encode differently / are other objects, structures AND unions
    v10_c17.run(env, res, viol, mkrng(env["seed"], "c17:v10"), 250 if tier == "quick" else 6000)
    res.sample({"field_counts": counts, "colliding_names": RISKY[:8]})
    return res


def replay(body) -> int:
    print("replay:", body.get("what"), body.get("case"))
    return 0
