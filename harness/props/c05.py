"""C05 — scalar codecs implement the standard encodings under the current endianness.

Per case three things are compared: an independent oracle (int.to_bytes / struct / str.encode written here),
the real library (cs.<type>(bytes), cs.<type>.dumps(v)), and the Lean model (driver `read`/`write`/`leb-*`/`resolve`).

Section 6, the 'after a failed write' family (harness/v4_c05.py): "encoding is the exact inverse" holds for every encode, also
for the one that follows an encode that was refused half way.  Seeded trials provoke dumps()/write()/instance.dumps() failures
that raise after zero or more parts of the value were produced (arrays of fixed/arbitrary-width ints, LEB128, floats, wchar,
enums with a later element that does not fit; generated structures - compiled or interpreted, aligned or packed, with arrays,
a nested structure, bit-fields, enum and LEB128 members - whose later field does not fit; arrays of such structures; scalar
rejections; short reads), catch the exception, optionally switch the endianness, and then re-verify the encodes of every scalar
family (fixed ints, aliases, arbitrary-width ints, floats, char, wchar, LEB128, plus well-formed arrays and the structure)
against the reference encodings, on the same instance, on an older instance and on a fresh one, through dumps(), instance
dumps() and write() to a stream.  A violation of this family carries a self-contained script that `replay` re-executes.

Section 7, the 'wide text' family (harness/v5_c05.py): wchar is UTF-16, and UTF-16 is a code of unit STRINGS - a character outside
the Basic Multilingual Plane is a surrogate pair.  Seeded trials draw texts with astral characters (U+10000, U+1F600, U+10FFFF,
random planes), alone and mixed with BMP characters, units that contain zero bytes (inside a unit, inside a pair, straddling two
units), combining sequences, U+FFFF / U+FFFE / the BOM and NUL as ordinary data, and put them through EVERY wchar form: a single
wchar, wchar[n], wchar[expression over an earlier member / constants], wchar[] (null-terminated: the terminator is the 16-bit
zero unit), wchar[EOF]; spelled wchar / wchar_t / WCHAR; stand-alone (cs.wchar[None], cs.WCHAR[Expression(cs, "EOF")], typedefs)
and as members of generated structures (several wide members, integers in between, a nested structure / an array of nested
structures; compiled or interpreted; aligned or packed); under '<', '>', '!', also with the endianness switched after loading.
Decode (from bytes, from a stream at an odd or even offset with bytes behind, reads, read(bytearray/memoryview)) must give exactly
the UTF-16 decoding of the consumed bytes and consume exactly the encoding; encode (dumps, instance dumps, write, dumps of the
parsed value) must give exactly the reference bytes; input cut inside a member, ill-formed UTF-16 (a lone surrogate half in a
single wchar, a pair cut by the count, low before high) and strings with unpaired surrogates must be refused.  Violations carry a
self-contained script as well.

Section 8, the 'falsy members' family (harness/v9_c05.py): encoding is the inverse of decoding BYTE FOR BYTE also for the values
that are falsy in Python or equal to the value the library substitutes for a missing member - IEEE negative zero (float16 / float
/ double), +0.0, 0, b"\x00", NUL, enum / flag value 0 (with and without a named member), null pointers, empty null-terminated /
zero-length / expression-sized / EOF arrays and texts, all-zero nested structures - when the scalar is a MEMBER of a generated
structure (also a bit-field, an array element, a member of a nested structure or of an array of structures; compiled /
interpreted; aligned / packed; cs.load / cs.loadfile; '<', '>', '!', endianness switched after loading).  The reference bytes are
decoded through the public entry points (T(bytes / bytearray / memoryview / stream / real file), reads, read, cs.read) - floats
compared by bit pattern - and the parsed value as well as the same value built by keyword, positionally or by attribute
assignment is encoded through dumps / instance.dumps / bytes() / write / instance.write: exactly the reference bytes (NaN members
by class only).

Section 9, the 'array forms x endianness x entry points' family (harness/v9_c05arr.py): every scalar family as the element of
every array form - x[n], x[expression], x[] null-terminated, x[EOF], x[a][b], and the single scalar - made through the API
(cs.T[n], cs.T[None], cs.T[Expression(cs, "EOF")], cs.resolve), a typedef, a structure member or a typedef'd member, the
definition loaded by cs.load, cs.loadfile, the legacy parser or built with cs._make_struct; the endianness set in the constructor,
by assignment before loading, after loading, and flipped between two reads of the SAME bytes (which then must give the values
of the other byte order) and back; every phase decodes and encodes through seeded entry points.  The elements are the standard
decodings of the element-size slices under the endianness current at the call; encoding is the inverse.

Section 10, the 'values that outlive an endianness change' family (harness/v10_c05.py): a change of the endianness takes effect for
all subsequent WRITES too, whatever the age of the value that is written.  Seeded trials make a type - a union (overlapping integers
of every width, floats, enums, char / wchar, 1-d / 2-d arrays, a nested structure; `union U {..}` or `typedef union {..} U`), a
structure (every scalar family, every array form, bit-fields, nested structures, union members and arrays of unions), an array of
unions or scalars, a single scalar; compiled / interpreted; aligned / packed; load / loadfile - obtain a value under one byte order
(parsed through a seeded entry point: bytes, bytearray, memoryview, stream, real file, reads, read; or built by keyword,
positionally, by attribute assignment, as a scalar / array instance), then change cs.endian ('<' <-> '>' / '!', another spelling of
the same order, back again) and after every change write the OLD value through dumps / instance.dumps / bytes() / write /
instance.write / len() / == / as the member of a holder structure built after the change: the bytes are the standard encoding of
the member values under the endianness current at the write (a union: its content with every scalar of a covering member
byte-swapped when the order differs from the one it was obtained under, zero padding behind), and reading them back gives the
member values of the value.
"""
from __future__ import annotations

import io
import struct

from .. import common, impl, v4_c05, v5_c05, v9_c05, v9_c05arr, v10_c05
from ..common import A, Case, Result, mkrng, parse_sexp, run_driver, sx

INTS = {  # canonical name -> (size, signed)
    "int8": (1, True), "uint8": (1, False), "int16": (2, True), "uint16": (2, False), "int32": (4, True), "uint32": (4, False),
    "int64": (8, True), "uint64": (8, False), "int24": (3, True), "uint24": (3, False), "int48": (6, True), "uint48": (6, False),
    "int128": (16, True), "uint128": (16, False),
}
FLOATS = {"float16": "e", "float": "f", "double": "d"}
EXPECT_ALIAS = {
    "short": "int16", "unsigned short": "uint16", "int": "int32", "unsigned int": "uint32", "long": "int32", "unsigned long": "uint32",
    "long long": "int64", "unsigned long long": "uint64", "signed char": "int8", "BYTE": "uint8", "WORD": "uint16", "DWORD": "uint32",
    "QWORD": "uint64", "OWORD": "uint128", "LONG": "int32", "LONGLONG": "int64", "UINT": "uint32", "INT8": "int8", "UINT16": "uint16",
    "__int64": "int64", "unsigned __int32": "uint32", "int8_t": "int8", "uint16_t": "uint16", "int32_t": "int32", "uint64_t": "uint64",
    "uint128_t": "uint128", "u1": "uint8", "u2": "uint16", "u4": "uint32", "u8": "uint64", "u16": "uint128", "__u8": "uint8",
    "uchar": "uint8", "ushort": "uint16", "uint": "uint32", "ulong": "uint32", "_BYTE": "uint8", "_QWORD": "uint64", "SHORT": "int16",
    "USHORT": "uint16", "ULONG64": "uint64", "INT128": "int128", "UINT128": "uint128", "__int128": "int128",
}
ENDIANS = {"<": "little", ">": "big", "!": "big"}


def boundary(size, signed):
    bits = 8 * size
    if signed:
        lo, hi = -(1 << (bits - 1)), (1 << (bits - 1)) - 1
    else:
        lo, hi = 0, (1 << bits) - 1
    vals = {lo, lo + 1, hi, hi - 1, 0, 1, 2, 0x7F, 0x80, 0xFF, 0x100, hi >> 1, (hi >> 1) + 1, hi // 3}
    if signed:
        vals |= {-1, -2, -0x80, -0x81, lo // 3}
    return sorted(v for v in vals if lo <= v <= hi), lo, hi


def oracle_encode(v, size, signed, order):
    return v.to_bytes(size, order, signed=signed)


def leb_oracle_encode(v: int, signed: bool) -> bytes:
    """textbook LEB128 (DWARF appendix C), written independently of the library"""
    out = bytearray()
    if not signed:
        while True:
            b = v & 0x7F
            v >>= 7
            if v:
                out.append(b | 0x80)
            else:
                out.append(b)
                return bytes(out)
    more = True
    while more:
        b = v & 0x7F
        v >>= 7
        if (v == 0 and not b & 0x40) or (v == -1 and b & 0x40):
            more = False
        else:
            b |= 0x80
        out.append(b)
    return bytes(out)


def leb_oracle_decode(bs: bytes, signed: bool):
    res, shift = 0, 0
    for i, b in enumerate(bs):
        res |= (b & 0x7F) << shift
        shift += 7
        if not b & 0x80:
            if signed and b & 0x40:
                res -= 1 << shift
            return res, i + 1
    return None


class Runner:
    def __init__(self, env, res: Result):
        self.env, self.res = env, res
        self.dc = impl.dc()
        self.lines, self.metas = [], []
        self.findings = env["findings"]

    def cs(self, endian):
        return self.dc.cstruct(endian=endian)

    def violation(self, what, data):
        self.res.violations.append(Case("property", what, data))

    def ask(self, line, meta):
        self.lines.append(line)
        self.metas.append(meta)

    def cfg(self, e):
        return [A("cfg"), A("le" if e == "<" else "be"), "uint64", []]


def run(env) -> Result:
    res = Result()
    res.rule = ("cases: every name of the built-in type table (resolution, size, alignment); every integer type x {<,>,!} x boundary values "
                "(encode, decode, rejection of min-1/max+1) plus seeded random values, exhaustive for 1-byte types (quick) and 1/2-byte types "
                "(thorough); floats by bit pattern; char/wchar; LEB128 up to 200-bit magnitudes incl. non-minimal and truncated encodings; "
                "endianness switched after definitions were loaded and compiled; after-fault trials: an encode that is refused after part of "
                "the value was produced (arrays with a later element out of range, LEB128 arrays with a negative element, generated structures "
                "- compiled/interpreted, aligned/packed - with an out-of-range later field, bit-field or nested member), exception caught, "
                "then the encodes of every scalar family, of arrays and of the structure on the same / an older / a fresh instance via dumps, "
                "instance.dumps and write must be exactly the reference encoding; wide-text trials: texts with characters outside the BMP "
                "(surrogate pairs; alone / mixed with BMP characters; units with zero bytes; combining sequences; U+FFFF, U+FFFE, BOM, NUL as "
                "data) through every wchar form - single wchar, wchar[n], wchar[expression], wchar[] (terminator = the 16-bit zero unit), "
                "wchar[EOF]; wchar / wchar_t / WCHAR; stand-alone types and members of generated structures (nested, arrays of structures, "
                "compiled/interpreted, aligned/packed); {<,>,!} and endianness switched after loading - decode (bytes, stream at an offset "
                "with bytes behind, reads, read) must equal the UTF-16 decoding of exactly the consumed bytes, encode (dumps, instance.dumps, "
                "write, dumps of the parsed value) its inverse; cut input, ill-formed UTF-16 (lone surrogate halves) and strings with "
                "unpaired surrogates must be refused; falsy-member trials: generated structures (compiled/interpreted, aligned/packed, load/loadfile, "
                "{<,>,!}, endianness switched after loading) whose members - every scalar family, bit-fields, pointers, enums/flags, every array "
                "form, nested structures and arrays of them - hold values that are falsy or equal to the default (-0.0, +0.0, 0, NUL, enum 0, null "
                "pointer, empty arrays/texts) mixed with subnormals, infinities, NaNs and boundary values: decode through seeded entry points "
                "(bytes, bytearray, memoryview, stream, file, reads, read, cs.read) gives the member values by BIT PATTERN and the end position, "
                "the parsed value and the value built by keyword / positionally / by attribute assignment encode (dumps, instance.dumps, bytes(), "
                "write, instance.write) to exactly the reference bytes (NaNs by class); array-form trials: every scalar family as element of "
                "x[n], x[expression], x[] null-terminated, x[EOF], x[a][b] and alone, made through the API (cs.T[n], cs.T[None], "
                "cs.T[Expression(EOF)]), a typedef, a structure member or a typedef'd member, loaded by load / loadfile / the legacy parser / "
                "cs._make_struct, endianness set in the constructor / before loading / after loading / flipped between two reads of the same "
                "bytes and back: in every phase the elements are the standard decoding of the element-size slices under the CURRENT endianness "
                "(every entry point), encoding is the inverse; outliving-value trials: a value of a generated union (overlapping ints / floats / "
                "enums / char / wchar / arrays / a nested structure), structure (every scalar family and array form, bit-fields, nested "
                "structures, union members, arrays of unions), array or scalar - compiled/interpreted, aligned/packed, load/loadfile - parsed "
                "(bytes, bytearray, memoryview, stream, file, reads, read) or built (keywords, positional, attribute assignment, instance) under "
                "one byte order, then cs.endian changed (other order / other spelling / back) and after every change the OLD value written "
                "through dumps, instance.dumps, bytes(), write, instance.write, len(), ==, and as member of a holder structure built after the "
                "change: exactly the standard encoding of the member values under the endianness current at the write (unions: the content "
                "byte-swapped along a covering member, zero padding), and reading it back gives the member values. Each case: independent oracle vs real library vs Lean model. "
                "distinct = (type, endian, value/bytes); non-trivial = multi-byte or non-zero")
    R = Runner(env, res)
    rnd = mkrng(env["seed"], "c05")
    tier = env["tier"]
    dc = R.dc

    # ---- 1. table: every name resolves as the model says; canonical aliases are the expected C widths
    cs0 = dc.cstruct()
    for name in list(cs0.typedefs):
        try:
            T = cs0.resolve(name)
            real = ("ok", T.__name__, T.size, T.alignment)
        except Exception as e:  # noqa: BLE001
            real = ("err", impl.err_class(e))
        R.ask(sx([A("resolve"), name]), ("resolve", name, real))
        res.count(("resolve", name))
        if name in EXPECT_ALIAS and real[0] == "ok":
            want = EXPECT_ALIAS[name]
            Tw = cs0.resolve(want)
            if T is not Tw:
                R.violation(f"built-in synonym {name!r} does not denote {want}", {"name": name, "resolved": T.__name__})
        if name in INTS and real[0] == "ok":
            size, signed = INTS[name]
            if T.size != size:
                R.violation(f"{name}.size is {T.size}, expected {size}", {"name": name})
    for name in ["nope", "uint33", ""]:
        try:
            cs0.resolve(name)
            real = ("ok",)
        except Exception as e:  # noqa: BLE001
            real = ("err", impl.err_class(e))
        R.ask(sx([A("resolve"), name]), ("resolve", name, real))

    # ---- 2. integers
    names = list(INTS) + [a for a in EXPECT_ALIAS][:: 3 if tier == "quick" else 1]
    for e, order in ENDIANS.items():
        cs = R.cs(e)
        for name in names:
            canon = EXPECT_ALIAS.get(name, name)
            size, signed = INTS[canon]
            T = cs.resolve(name)
            vals, lo, hi = boundary(size, signed)
            if size == 1 or (size == 2 and tier == "thorough"):
                vals = list(range(lo, hi + 1))
            else:
                vals = vals + [rnd.randint(lo, hi) for _ in range(6 if tier == "quick" else 60)]
            for v in vals:
                want = oracle_encode(v, size, signed, order)
                res.count((name, e, v), nontrivial=(size > 1 or v != 0))
                res.feat(f"int:{canon}")
                try:
                    got = T.dumps(v)
                except Exception as ex:  # noqa: BLE001
                    got = ("err", impl.err_class(ex))
                if got != want:
                    R.violation(f"{name}.dumps({v}) under endian {e!r} gives {got!r}, two's complement {order} is {want.hex()}",
                                {"type": name, "endian": e, "value": v})
                try:
                    back = T(want)
                    back = (int(back), None)
                except Exception as ex:  # noqa: BLE001
                    back = ("err", impl.err_class(ex))
                if back != (v, None):
                    R.violation(f"{name}({want.hex()}) under endian {e!r} gives {back!r}, expected {v}", {"type": name, "endian": e, "bytes": want.hex()})
                if name in INTS:
                    R.ask(sx([A("write"), R.cfg(e), [A("sc"), name], [A("int"), v]]), ("write", (name, e, v), ("ok", want)))
                    R.ask(sx([A("read"), R.cfg(e), [A("sc"), name], want + b"\xaa", 0]), ("read", (name, e, want.hex()), ("ok", [A("int"), v], size)))
            # rejection: never truncated or wrapped
            for v in (lo - 1, hi + 1, hi + (1 << (8 * size)), lo - (1 << (8 * size))):
                res.count((name, e, v, "reject"))
                res.feat("reject")
                try:
                    got = T.dumps(v)
                    R.violation(f"{name}.dumps({v}) does not fit {size} bytes but was written as {got.hex()}", {"type": name, "endian": e, "value": v})
                except Exception:  # noqa: BLE001
                    pass
                if name in INTS:
                    R.ask(sx([A("write"), R.cfg(e), [A("sc"), name], [A("int"), v]]), ("write", (name, e, v), ("err", "Overflow")))
            # short input
            for k in range(size):
                r = impl.parse(T, b"\x01" * k)
                if r[0] != "err" or r[1] != "EOFError":
                    R.violation(f"{name} parsed from {k} < {size} bytes did not raise EOFError: {r!r}", {"type": name, "endian": e, "len": k})
                if name in INTS:
                    R.ask(sx([A("read"), R.cfg(e), [A("sc"), name], b"\x01" * k, 0]), ("read", (name, e, k), ("err", "EOFError")))

    # ---- 3. floats (bit patterns, NaN excluded), char, wchar
    for e, order in ENDIANS.items():
        cs = R.cs(e)
        sfmt = ">" if order == "big" else "<"
        for name, ch in FLOATS.items():
            T = cs.resolve(name)
            size = struct.calcsize(ch)
            pats = [0, 1, 1 << (8 * size - 1), (1 << (8 * size - 1)) - 1] + [rnd.getrandbits(8 * size) for _ in range(12 if tier == "quick" else 200)]
            for p in pats:
                if impl.flt_is_nan(p, size):
                    continue
                raw = p.to_bytes(size, order)
                want = struct.unpack(sfmt + ch, raw)[0]
                res.count((name, e, p))
                res.feat(f"float:{name}")
                got = T(raw)
                if struct.pack(sfmt + ch, got) != raw or T.dumps(got) != raw:
                    R.violation(f"{name} does not round-trip the IEEE pattern {raw.hex()} under endian {e!r}", {"type": name, "endian": e, "bytes": raw.hex()})
                if float(got) != want:
                    R.violation(f"{name}({raw.hex()}) = {float(got)!r}, IEEE-754 value is {want!r}", {"type": name, "endian": e, "bytes": raw.hex()})
                R.ask(sx([A("read"), R.cfg(e), [A("sc"), name], raw, 0]), ("read", (name, e, raw.hex()), ("ok", [A("flt"), p], size)))
                R.ask(sx([A("write"), R.cfg(e), [A("sc"), name], [A("flt"), p]]), ("write", (name, e, p), ("ok", raw)))
        # char
        for b in ([0, 1, 0x41, 0x7F, 0x80, 0xFF] if tier == "quick" else range(256)):
            raw = bytes([b])
            res.count(("char", e, b))
            if cs.char(raw + b"zz"[:0]) != raw or cs.char.dumps(raw) != raw or bytes(cs.char(io.BytesIO(raw + b"q"))) != raw:
                R.violation("char does not round-trip a raw byte", {"byte": b})
            R.ask(sx([A("read"), R.cfg(e), [A("sc"), "char"], raw, 0]), ("read", ("char", e, b), ("ok", [A("bytes"), raw], 1)))
        # wchar: BMP code units in the current byte order; lone surrogates are refused
        codec = "utf-16-le" if order == "little" else "utf-16-be"
        units = [0, 1, 0x41, 0xFF, 0x100, 0x20AC, 0xD7FF, 0xE000, 0xFFFF, 0xD800, 0xDC00, 0xDFFF] + [rnd.randrange(0x10000) for _ in range(10 if tier == "quick" else 300)]
        for u in units:
            raw = u.to_bytes(2, order)
            res.count(("wchar", e, u))
            res.feat("wchar")
            sur = 0xD800 <= u <= 0xDFFF
            r = impl.parse(cs.wchar, raw)
            if sur:
                if r[0] != "err":
                    R.violation(f"wchar accepted the lone surrogate {u:#x}", {"unit": u, "endian": e})
                R.ask(sx([A("read"), R.cfg(e), [A("sc"), "wchar"], raw, 0]), ("read", ("wchar", e, u), ("err", "UnicodeError")))
                continue
            want = raw.decode(codec)
            if r[0] != "ok" or str(r[1]) != want or cs.wchar.dumps(want) != raw:
                R.violation(f"wchar does not round-trip code unit {u:#x} as UTF-16 in byte order {order}", {"unit": u, "endian": e})
            R.ask(sx([A("read"), R.cfg(e), [A("sc"), "wchar"], raw, 0]), ("read", ("wchar", e, u), ("ok", [A("wstr"), u], 2)))
            R.ask(sx([A("write"), R.cfg(e), [A("sc"), "wchar"], [A("wstr"), u]]), ("write", ("wchar", e, u), ("ok", raw)))
        # surrogate pair inside a wchar array
        s = "a\U0001F600b"
        raw = s.encode(codec)
        T = cs.wchar[4]
        if str(T(raw)) != s or T.dumps(s) != raw:
            R.violation("wchar[4] does not round-trip a surrogate pair", {"endian": e})

    # ---- 4. LEB128
    cs = R.cs("<")
    mags = [0, 1, 2, 63, 64, 65, 127, 128, 129, 8191, 8192, 16383, 16384, 2**31, 2**32 - 1, 2**63, 2**64, 2**100 + 12345] + \
           [rnd.getrandbits(rnd.randint(1, 200)) for _ in range(60 if tier == "quick" else 1500)]
    for signed, tname in ((False, "uleb128"), (True, "ileb128")):
        T = cs.resolve(tname)
        for m in mags:
            for v in ([m, -m, -m - 1] if signed else [m]):
                want = leb_oracle_encode(v, signed)
                res.count((tname, v), nontrivial=len(want) > 1)
                res.feat(f"leb:{tname}:{min(len(want), 9)}bytes")
                try:
                    got = T.dumps(v)
                except Exception as ex:  # noqa: BLE001
                    got = ("err", impl.err_class(ex))
                if got != want:
                    R.violation(f"{tname}.dumps({v}) = {got!r}, canonical LEB128 is {want.hex()}", {"type": tname, "value": v})
                r = impl.parse(T, want + b"\x99")
                if r[0] != "ok" or int(r[1]) != v or r[2] != len(want):
                    R.violation(f"{tname}({want.hex()}) = {r!r}, expected {v} consuming {len(want)}", {"type": tname, "bytes": want.hex()})
                R.ask(sx([A("leb-write"), int(signed), v]), ("leb-write", (tname, v), ("ok", want)))
                R.ask(sx([A("leb-read"), int(signed), want + b"\x99"]), ("leb-read", (tname, want.hex()), ("ok", v, len(want))))
                # truncation: every proper prefix is an EOFError
                for k in range(len(want)):
                    r = impl.parse(T, want[:k])
                    if r != ("err", "EOFError"):
                        R.violation(f"{tname} parsed from the truncated encoding {want[:k].hex()} gave {r!r}", {"type": tname, "bytes": want[:k].hex()})
        if not signed:
            for v in (-1, -128, -(2**70)):
                try:
                    got = T.dumps(v)
                    R.violation(f"uleb128.dumps({v}) was written as {got.hex()}", {"value": v})
                except Exception:  # noqa: BLE001
                    pass
                R.ask(sx([A("leb-write"), 0, v]), ("leb-write", (tname, v), ("err", "ValueError")))
        # arbitrary byte strings: decode as the textbook says (sign extension, continuation)
        for _ in range(80 if tier == "quick" else 3000):
            bs = bytes(rnd.choice([0x80, 0xFF, 0x7F, 0x40, 0x3F, 0x00, 0xC0, rnd.randrange(256)]) for _ in range(rnd.randint(1, 12)))
            o = leb_oracle_decode(bs, signed)
            r = impl.parse(T, bs)
            res.count((tname, "bytes", bs))
            res.feat("leb:arbitrary-bytes")
            if o is None:
                if r != ("err", "EOFError"):
                    R.violation(f"{tname} on unterminated {bs.hex()} gave {r!r}", {"type": tname, "bytes": bs.hex()})
                R.ask(sx([A("leb-read"), int(signed), bs]), ("leb-read", (tname, bs.hex()), ("err", "EOFError")))
            else:
                if r[0] != "ok" or int(r[1]) != o[0] or r[2] != o[1]:
                    R.violation(f"{tname}({bs.hex()}) = {r!r}, LEB128 value is {o}", {"type": tname, "bytes": bs.hex()})
                R.ask(sx([A("leb-read"), int(signed), bs]), ("leb-read", (tname, bs.hex()), ("ok", o[0], o[1])))

    # ---- 5. endianness switched after load (and compile): subsequent reads/writes of all types follow
    defn = "struct S { uint16 a; int32 b; uint24 c; wchar w[2]; float f; uint16 arr[2]; E e; uint16 x:4; uint16 y:12; uint32 *p; };"
    pre = "enum E : uint16 { A = 1, B = 0x100 };\n"
    for compiled in (False, True):
        for e0 in "<>":
            for e1 in "<>!":
                cs = dc.cstruct(endian=e0)
                cs.load(pre + defn, compiled=compiled)
                data = bytes(rnd.randrange(1, 255) for _ in range(len(cs.S)))
                data = data[:9] + b"a\x00\x00b" [: 4] + data[13:]  # keep wchar units well-formed in both orders
                first = impl.parse(cs.S, data)
                cs.endian = e1
                second = impl.parse(cs.S, data)
                ref = dc.cstruct(endian=e1)
                ref.load(pre + defn, compiled=False)
                want = impl.parse(ref.S, data)
                res.count(("switch", compiled, e0, e1, data))
                res.feat(f"endian-switch:compiled={compiled}")
                ok = second[0] == want[0] == "ok" and impl.canon(second[1]) == impl.canon(want[1]) and \
                    second[1].dumps() == want[1].dumps() and (compiled is False or cs.S.__compiled__)
                if not ok:
                    R.violation(f"after switching endianness {e0!r}->{e1!r} (compiled={compiled}) parsing/dumping does not follow the new byte order",
                                {"definition": pre + defn, "data": data.hex(), "from": e0, "to": e1, "compiled": compiled})
                del first

    # ---- 6. after a refused encode the next encodes are the standard ones (same, older and fresh instance)
    v4_c05.run(R, mkrng(env["seed"], "c05-after-fault"), tier)

    # ---- 7. wide text: characters outside the BMP (surrogate pairs) through every wchar form
    v5_c05.run(R, mkrng(env["seed"], "c05-wide"), tier)

    # ---- 8. falsy members: -0.0, 0, empty texts, enum 0, null pointers as members of generated structures, byte for byte
    v9_c05.run(R, mkrng(env["seed"], "c05-falsy"), tier)

    # ---- 9. every array form x every endianness x every entry point
    v9_c05arr.run(R, mkrng(env["seed"], "c05-arrays"), tier)

    # ---- 10. values that outlive an endianness change: every write uses the current byte order (unions, structures holding unions)
    v10_c05.run(R, mkrng(env["seed"], "c05-outlive"), tier)

    # ---- model correspondence
    answers = run_driver(R.lines) if env["driver_ok"] else [None] * len(R.lines)
    for meta, ans in zip(R.metas, answers):
        if ans is None:
            continue
        kind, key, want = meta
        s = parse_sexp(ans)
        ok = True
        if kind == "resolve":
            if want[0] == "ok":
                ok = s[0] == "ok" and str(s[1]) == want[1] and (None if s[3] == "none" else int(s[3])) == want[2] and \
                    (None if s[4] == "none" else int(s[4])) == want[3]
            else:
                ok = s[0] == "err" and str(s[1]) == want[1]
        elif kind in ("write", "leb-write"):
            ok = (s[0] == "ok" and str(s[1]) == common.hx(want[1])) if want[0] == "ok" else (s[0] == "err" and str(s[1]) == want[1])
        elif kind == "read":
            ok = (s[0] == "ok" and impl.same_val(want[1], s[1]) and int(s[2]) == want[2]) if want[0] == "ok" else (s[0] == "err" and str(s[1]) == want[1])
        elif kind == "leb-read":
            ok = (s[0] == "ok" and int(s[1]) == want[1] and int(s[2]) == want[2]) if want[0] == "ok" else (s[0] == "err" and str(s[1]) == want[1])
        if not ok:
            res.disagreements.append(Case("corr", f"{kind} {key}: model answers {ans[:200]}, oracle/implementation say {want!r}", {"kind": kind, "key": repr(key)}))
    res.sample({"type": "int24", "endian": ">", "value": -8388608, "bytes": oracle_encode(-8388608, 3, True, "big").hex()})
    res.sample({"type": "ileb128", "value": -65, "bytes": leb_oracle_encode(-65, True).hex()})
    res.sample({"type": "uleb128", "value": 2**64, "bytes": leb_oracle_encode(2**64, False).hex()})
    return res


def replay(body) -> int:
    print("replay:", body.get("what"), body.get("case"))
    rc = v4_c05.replay_script(body)  # the after-fault and the wide-text cases carry the script of their trial
    if rc is not None:
        print("replay: the recorded script", "still fails" if rc else "no longer fails (the run is repeated with the recorded seed)")
        return rc
    return 0
