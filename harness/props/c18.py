"""C18 — incrementally built or self-referential structures equal the one-shot definition.

For generated field lists every way (thorough) / sampled ways (quick) of splitting them into add_field / commit steps
(commit after each field, batches under start_update, mixtures) is compared with the structure created in one piece:
layout, reader kind (compiled if requested), parse results, dumps, default instance, equality.  Self-referential
definitions (forward reference through a pointer) are checked against their expected layout and behaviour.
The Lean model (`Commit.lean`: layout with persisted offsets) is compared on the sequence of layouts.

Added probes (helpers in harness/s7_c18.py):
 * the reader itself: `__compiled__`, whether `_read` is the interpreted loop, and for a generated reader its source / plan
   (harness/srcplan.py) with the `_N` type tokens renumbered plus the types the tokens are bound to, must equal those of the
   one-shot class (a reader generated from an intermediate state, or a silent fall-back to the interpreted loop, shows here).
 * reads away from offset 0: both classes parse the same bytes from stream positions 1 and 3, as member of a packed outer
   structure behind 1 / 3 bytes, and as elements of T[2] read from position 1 (value, consumed, sizes, dumps).
 * explicit offsets: field lists with `offset=` on some fields (gaps, occasionally overlays), given to add_field / Field.
 * commit mode "extend": `__fields__.extend(...)` + `commit()`, the way the parser fills a pre-registered structure; optionally
   the intermediate classes are used (parsed with) between commits.
 * instance behaviour: bool, repr, len, positional construction, ==, != and hash of objects that differ in one byte, and what
   the writer puts into a stream standing at position 1 / 3.
 * parser path: fixed self-referential texts and generated definitions (optionally with `T *self` / `T *self[2]` / `T **self`
   members) are loaded as named top-level structs (pre-registered empty, compiled if requested, then extended and committed)
   and compared, in all the ways above, with the same field list declared in one piece (`s7.rebuild`).
 * interrupted batches (helpers in harness/t5_c18.py): histories in which the body of a `with T.start_update():` block raises
   part-way (after k >= 0 of its fields were added: unknown type name for the next field, add_field with a missing argument,
   failing size expression, the caller's own Exception / BaseException) and the caller catches the error; the failed field is
   retried in the next step or dropped, further ordinary steps (add_field, start_update, extend+commit) and further faulted
   batches follow.  Right after every faulted batch and at the end of the history the class is compared, in all the ways above,
   with the one-shot declaration of exactly the fields it now has: nothing from before the batch may survive.
 * the update protocol as a state machine (harness/v4_c18upd.py; model lean/CstructModel/Update.lean, theorems
   lean/Proofs/C18Update.lean): random operation histories - add_field, add_field raising before the append, nested
   `with T.start_update():` blocks left normally or through an exception, explicit commit, commits that raise - executed with real
   `with` statements; after EVERY operation the class (parameters of the generated __init__, lookup, fields, size, alignment,
   names and offsets of __fields__, __updating__, the exception commit let escape) is compared with the model's state, and
   whenever the history stands outside every block the class is compared with the one-shot declaration of the fields added so far.
 * derived types taken while the structure is still growing (harness/v6_c18.py): T is registered by name on one cstruct instance
   and built step by step (add_field, start_update batches, extend+commit); before the first field, between the steps and inside
   open batches array types of T (`T[n]`, `cs.T[n]`, `cs.resolve("T")[n]`, `cs._make_array`, two-dimensional; the same length again
   and again) and structures embedding T (`T x[n]`, `T x[n][m]`, `T *p`, `T *p[n]`, `T m`, `uint8 c; T x[c]`; through cs.load or from
   Field objects; own compiled / align flags) are requested and used; then T is extended.  Whatever is requested while the history
   stands outside every batch - in particular ALL earlier requests repeated at check points and at the end, plus a new embedding
   definition - must equal the same request on a fresh cstruct instance on which T is declared in one piece with the fields it has
   at that moment: array name/size/alignment/element type/parse/dumps/default and size == n * len(T); for embedding structures the
   full comparison above (layout, reader, parses, dumps, instance behaviour).  Derived types made BEFORE an extension and still
   held are only used and counted: the unmodified library leaves them with the size / offsets of the intermediate state.
 * observations between the steps, and every call form on the final type (harness/v9_c18.py; structures AND unions, created through
   the API or cs.load with their first 0..2 fields, members added in ascending / random / descending size order):
   - family "observed": after the creation and after every add_field / start_update / extend+commit step the intermediate type is
     USED - instantiated, parsed, dumped (dumps / bytes / write), ==, hash, repr, bool, len, keyword / positional construction,
     called with bytes of every length, read / reads / file objects, as member and as array element of another type that is
     dumped, attribute assignment - before later steps add members (also members larger than every earlier one);
   - family "callforms": histories through a committed single-field state (char, char[N], uint8, ...; created with it, or created
     empty and the field added by its own add_field / batch / extend) and through the empty state, then extended.
   At check points between the steps and at the end the type is compared with the one-shot declaration of the fields present: all
   of the above comparisons plus T(b) for a real bytes object of EVERY length 0..size+1, T(bytearray / memoryview / BytesIO / real
   file), T.read, T.reads, cs.read, T._read, T(), positional / keyword / mixed construction, T(None), T(5) (value, dumps, _sizes,
   _values, union buffer, stream position or error class), and every writer form (v.dumps, bytes(v), T.dumps, v.write, T.write at a
   stream position, len, as member of an API-made / loaded outer structure and of T[2] that is dumped, ==/!=/hash) for parsed,
   default, keyword-built and attribute-modified instances.
"""
from __future__ import annotations

import io
import itertools
import re
import sys

from .. import defs, impl, refimpl
from .. import s7_c18 as s7
from .. import t5_c18 as t5
from .. import v4_c18upd as v4u
from .. import v6_c18 as v6
from .. import v9_c18 as v9
from ..common import A, Case, Result, mkrng, parse_sexp, run_driver, sx
from ..structprops import rand_bytes


SCALARS = ["uint8", "uint16", "uint32", "uint64", "int24", "char", "int8", "uint48"]


def field_specs(rnd, cs, n, offsets=False):
    """field list as (name, type description, bits, explicit offset or None)"""
    out = []
    for i in range(n):
        r = rnd.random()
        if r < 0.5:
            out.append([f"f{i}", ("sc", rnd.choice(SCALARS)), None, None])
        elif r < 0.62:
            out.append([f"f{i}", ("arr", ("sc", rnd.choice(["uint8", "uint16", "char", "uint32"])), rnd.randint(0, 3)), None, None])
        elif r < 0.74:
            st = rnd.choice(["uint8", "uint16", "uint32"])
            out.append([f"f{i}", ("sc", st), rnd.randint(1, 4), None])
        elif r < 0.82:
            out.append([f"f{i}", ("enum", "E8"), None, None])
        elif r < 0.9:
            out.append([f"f{i}", ("ptr", ("sc", "uint8")), None, None])
        elif r < 0.95:
            out.append([f"f{i}", ("dyn", rnd.choice(["uint8", "char", "uint16"])), None, None])
        else:
            out.append([f"f{i}", ("nested",), None, None])
    if offsets:
        # explicit offsets (add_field(..., offset=) / Field(..., offset=)): mostly at or behind the end of what precedes the field
        # (a gap), sometimes inside it (an overlay); the sizes are only an estimate that steers the generator
        end = 0
        for f in out:
            try:
                sz = len(mk_type(cs, f[1]))
            except TypeError:
                sz = 2
            if rnd.random() < (0.12 if f[2] else 0.35):
                f[3] = rnd.randint(0, end) if rnd.random() < 0.1 else end + rnd.randint(0, 5)
                end = f[3]
            end += sz
    return [tuple(f) for f in out]


def mk_type(cs, spec):
    k = spec[0]
    if k == "sc":
        return cs.resolve(spec[1])
    if k == "enum":
        return cs.resolve(spec[1])
    if k == "arr":
        return mk_type(cs, spec[1])[spec[2]]
    if k == "ptr":
        return cs._make_pointer(mk_type(cs, spec[1]))
    if k == "dyn":
        return cs.resolve(spec[1])[None]   # null-terminated
    if k == "nested":
        return cs.resolve("Inner")
    raise ValueError(k)


def splits(n, rnd, exhaustive):
    """ways of cutting range(n) into consecutive non-empty batches"""
    if n == 0:
        return [[]]
    allcuts = list(itertools.product([0, 1], repeat=n - 1))
    if not exhaustive and len(allcuts) > 6:
        allcuts = [allcuts[0], allcuts[-1]] + rnd.sample(allcuts[1:-1], 4)
    out = []
    for cuts in allcuts:
        batches, cur = [], [0]
        for i, c in enumerate(cuts, start=1):
            if c:
                batches.append(cur)
                cur = [i]
            else:
                cur.append(i)
        batches.append(cur)
        out.append(batches)
    return out


def describe(T):
    return (T.size, T.alignment, T.dynamic, [(f._name, f.offset, f.bits) for f in T.__fields__], T.__compiled__)


def observe(cs, T, inputs, prefix, compiled, flips):
    """everything the check compares between the two classes except the layout and the reader signature"""
    out = [("parse at 0 #%d" % i, s7.summ(impl.parse(T, d))) for i, d in enumerate(inputs)]
    out += s7.observations(cs, T, inputs[0], prefix, compiled, positions=(1, 3))
    try:
        dflt = T().dumps()
    except Exception as e:  # noqa: BLE001
        dflt = type(e).__name__
    return out, dflt, s7.behaviour(T, inputs[0], flips)


def compare(viol, res, cd, sig, want, got, requested, inputs, prefix, who="incremental structure"):
    """want / got = (describe, reader signature, observations, default dump, behaviour) of the one-shot class and the class under
    test; -> True if they agree"""
    ok = True
    if got[0] != want[0]:
        viol(f"layout / compiled flag of the {who} differ from the one-shot structure: {got[0]} vs one-shot {want[0]}", cd, sig)
        return False
    why = s7.reader_diff(want[1], got[1], requested)
    if why:
        viol(f"the reader of the {who} is not the reader of the one-shot structure: " + why, cd, sig)
        ok = False
    for (lw, w), (lg, g) in zip(want[2], got[2]):
        if not s7.same_summ(w, g):
            viol(f"{who} parses/dumps differently ({lg}): {str(g)[:220]}, one-shot {str(w)[:220]}",
                 dict(cd, read=lg), sig)
            ok = False
            break
    if got[3] != want[3]:
        viol(f"default instance of the {who} dumps differently: {got[3]!r}, one-shot {want[3]!r}", cd, sig)
        ok = False
    if got[4] != want[4]:
        d = next(((a, b) for a, b in zip(got[4], want[4]) if a != b), (got[4], want[4]))
        viol(f"instances of the {who} behave differently (==, hash, bool, repr, positional construction, write into a "
             f"stream at position 1/3): {str(d[0])[:200]}, one-shot {str(d[1])[:200]}", cd, sig)
        ok = False
    return ok


def fresh_cs(dc, endian, align, compiled):
    """a new cstruct instance with the ingredients of the field lists (enum E8, struct Inner), made through the factories:
    one instance is needed per history and the definition parser costs ~7 ms per load"""
    from dissect.cstruct import compiler
    from dissect.cstruct.types.structure import Field

    cs = dc.cstruct(endian=endian)
    cs.add_type("E8", cs._make_enum("E8", cs.uint8, {"A": 1, "B": 2, "C": 7}))
    inner = cs._make_struct("Inner", [Field("x", cs.uint8), Field("y", cs.uint32)], align=align)
    cs.add_type("Inner", compiler.compile(inner) if compiled else inner)
    return cs


def build_oneshot(cs, specs, align, compiled):
    from dissect.cstruct import compiler
    from dissect.cstruct.types.structure import Field

    one = cs._make_struct("T", [Field(nm, mk_type(cs, sp), bits=b, offset=o) for nm, sp, b, o in specs], align=align)
    return compiler.compile(one) if compiled else one


def build_incremental(cs, specs, align, compiled, batches, mode, touch, inputs, prefix):
    from dissect.cstruct import compiler
    from dissect.cstruct.types.structure import Field

    st = cs._make_struct("T", [], align=align)
    if compiled:
        st = compiler.compile(st)
    for bi, batch in enumerate(batches):
        use_update = mode == "update" or (mode == "mixed" and bi % 2 == 0)
        if mode == "extend":
            # what the parser does with a pre-registered structure
            st.__fields__.extend(Field(specs[i][0], mk_type(cs, specs[i][1]), bits=specs[i][2], offset=specs[i][3]) for i in batch)
            st.commit()
        elif use_update:
            with st.start_update():
                for i in batch:
                    nm, sp, b, o = specs[i]
                    st.add_field(nm, mk_type(cs, sp), bits=b, offset=o)
        else:
            for i in batch:
                nm, sp, b, o = specs[i]
                st.add_field(nm, mk_type(cs, sp), bits=b, offset=o)
        if touch:
            # use the intermediate class: nothing it caches may leak into the final one
            impl.parse(st, inputs[0])
            impl.parse(st, prefix[:1] + inputs[0], 1)
    return st


def full(cs, T, inputs, prefix, compiled, flips):
    return (describe(T), s7.reader_sig(T), *observe(cs, T, inputs, prefix, compiled, flips))


PARSER_WHO = "structure built by the parser (pre-registered, extended, committed)"


def parser_case(dc, cd, viol, res=None, rnd=None, kind=""):
    """cd: definition, names, endian, align, compiled, pointer (+ data/prefix/flips per struct when replaying)"""
    cs = dc.cstruct(endian=cd["endian"], pointer=cd["pointer"])
    compiled = cd["compiled"]
    try:
        cs.load(cd["definition"], compiled=compiled, align=cd["align"])
    except Exception as e:  # noqa: BLE001
        if res:
            res.feat(f"parser-path:{kind}:rejected:{type(e).__name__}")
        return
    for name in cd["names"]:
        T = getattr(cs, name)
        if res:
            res.count(("parser", cd["definition"], cd["endian"], cd["align"], compiled, cd["pointer"], name))
            res.feat(f"parser-path:{kind}")
        try:
            R = s7.rebuild(cs, T, compiled)
        except Exception as e:  # noqa: BLE001
            viol(f"the field list the parser committed is rejected when declared in one piece: struct {name}: {type(e).__name__}: {e}", cd)
            continue
        if rnd is not None:
            size = R.size if R.size is not None else 40
            inputs = [rand_bytes(rnd, size + 6) for _ in range(2)]
            prefix = bytes(rnd.randrange(1, 256) for _ in range(8))
            flips = sorted({size - 1, rnd.randrange(size)}) if size else []
        else:
            if cd.get("struct") != name:
                continue
            inputs, prefix, flips = [bytes.fromhex(x) for x in cd["data"]], bytes.fromhex(cd["prefix"]), cd["flips"]
        cdn = dict(cd, struct=name, data=[d.hex() for d in inputs], prefix=prefix.hex(), flips=flips)
        compare(viol, res, cdn, None, full(cs, R, inputs, prefix, compiled, flips), full(cs, T, inputs, prefix, compiled, flips),
                compiled, inputs, prefix, who=PARSER_WHO)


def interrupted_case(dc, cd, viol, res=None, sig=None):
    """cd: fields, align, compiled, endian, data, prefix, flips, history (t5.gen_history), read_between_commits.
    Runs the history on an empty structure; after every faulted batch and at the end compares the class with the one-shot
    declaration of the fields it has at that moment."""
    import ast

    from dissect.cstruct import compiler

    specs = [ast.literal_eval(x) if isinstance(x, str) else tuple(x) for x in cd["fields"]]
    align, compiled, endian, steps = cd["align"], cd["compiled"], cd["endian"], cd["history"]
    inputs, prefix, flips = [bytes.fromhex(x) for x in cd["data"]], bytes.fromhex(cd["prefix"]), cd["flips"]
    cs = fresh_cs(dc, endian, align, compiled)
    st = cs._make_struct("T", [], align=align)
    if compiled:
        st = compiler.compile(st)

    def against_oneshot(present, who, extra):
        """-> None if the one-shot declaration of the present fields is rejected, else whether the classes agree"""
        cs0 = fresh_cs(dc, endian, align, compiled)
        try:
            one = build_oneshot(cs0, [specs[i] for i in present], align, compiled)
        except Exception as e:  # noqa: BLE001
            if res:
                res.feat("interrupted:one-shot-of-present-fields-rejected:" + type(e).__name__)
            return None
        if list(f._name for f in st.__fields__) != [specs[i][0] for i in present]:
            viol(f"the field list of the {who} is {[f._name for f in st.__fields__]}, the fields added were {[specs[i][0] for i in present]}",
                 dict(cd, **extra), sig)
            return False
        return compare(viol, res, dict(cd, **extra), sig, full(cs0, one, inputs, prefix, compiled, flips),
                       full(cs, st, inputs, prefix, compiled, flips), compiled, inputs, prefix, who=who)

    def after_fault(no, present, exc):
        step = steps[no]
        k = len(step["add"])
        who = (f"structure after a start_update() batch that was left through an exception ({k} field(s) added before the "
               f"{step['fault']} fault, {len(present)} field(s) now present)")
        extra = {"faulted_step": no, "present": [specs[i][0] for i in present]}
        if res:
            res.feat("interrupted:fault:" + step["fault"])
            res.feat(f"interrupted:fields-added-before-fault:{min(k, 3)}")
            res.feat("interrupted:failed-field-" + ("dropped" if step["dropped"] else "retried" if step["failed"] is not None else "none"))
        r = against_oneshot(present, who, extra)
        want_exc = t5.EXPECTED[step["fault"]]
        if r is not None and type(exc).__name__ != want_exc:
            viol(f"the caller of a batch whose body raises {want_exc} after {k} added field(s) sees {type(exc).__name__}: {exc}",
                 dict(cd, **extra), sig)

    def touch(T):
        impl.parse(T, inputs[0])
        impl.parse(T, prefix[:1] + inputs[0], 1)

    try:
        present, _ = t5.run_history(cs, st, specs, steps, mk_type, after_fault, touch if cd.get("read_between_commits") else None)
    except Exception as e:  # noqa: BLE001
        viol(f"history with interrupted batches raises outside the faulted batches: {type(e).__name__}: {e}", cd, sig)
        return
    if res:
        res.feat("interrupted:history")
        res.feat(f"interrupted:faulted-batches:{sum(1 for s_ in steps if s_['mode'] == 'fault')}")
        if steps and steps[-1]["mode"] != "fault":
            res.feat("interrupted:successful-commits-after-the-last-fault")
    against_oneshot(present, "structure at the end of a history with start_update() batches that were left through an exception",
                    {"present": [specs[i][0] for i in present]})


SELFREF_TEXTS = [
    ("struct node { uint8 v; node *next; uint16 w; };\nstruct list { node head; node *tail; };", ["node", "list"]),
    ("struct node { uint8 tag; uint32 value; node *next; };", ["node"]),
    ("struct tree { uint16 k; tree *kids[2]; uint8 n; uint64 big; char name[]; uint32 after; tree *up; };", ["tree"]),
    ("struct a { uint8 x : 3; uint8 y : 5; uint32 z; a *self; };\nstruct b { uint8 h; a first; a more[2]; b *nextb; uint16 t; };", ["a", "b"]),
]


def run(env) -> Result:
    res = Result()
    res.rule = ("seeded field lists of 0..6 fields (scalars incl. odd widths, arrays, bit-field runs, enum, pointer, null-terminated array, nested "
                "struct; optionally explicit offsets) x {packed, aligned} x {interpreted, compiled}; every split into consecutive batches "
                "(thorough; sampled in quick), each batch added field-by-field with a commit after each, under start_update(), mixed, or the "
                "parser's way (extend __fields__, commit); compared with the one-shot structure: size/alignment/dynamic/offsets, the reader "
                "itself (compiled flag, interpreted loop or generated source/plan modulo token numbering), parse (value, sizes, consumed) at "
                "stream positions 0/1/3, inside a packed outer structure at offset 1/3 and as T[2] element, dumps, writes at position 1/3, "
                "default instance, ==/hash/bool/repr/positional construction. Plus definitions through the parser (pre-registered named "
                "struct, self pointers) against the same field list declared in one piece. Plus histories on one cstruct instance in "
                "which array types of T (T[n], cs.T[n], resolve, _make_array, 2-dimensional; the same length repeatedly) and structures "
                "embedding T (T x[n], T x[n][m], T *p, T *p[n], T m, T x[c]; cs.load or Field objects; own compiled/align flags) are "
                "requested before the first field, between the steps and inside open batches, T is extended, and everything is requested "
                "again: each request made outside a batch equals the same request on a fresh instance with T declared in one piece "
                "(array: name, size == n*len(T), alignment, element type, parse at 0/1, dumps, default; embedding structure: the full "
                "comparison above); types held from before an extension are not judged. Plus histories for structures AND unions "
                "(created by the API or cs.load with 0..2 fields; members in ascending/random/descending size order; through a committed "
                "single-field state char/char[N]/uint8/... and the empty state) in which the intermediate type is used between the steps "
                "(instantiated, parsed, dumps/bytes/write, ==, hash, repr, bool, len, construction, bytes of every length, read/reads/file, "
                "as member / array element of a dumped type, attribute assignment); at check points between the steps and at the end the "
                "type equals the one-shot declaration of the present fields in all of the above and in every call form (T(bytes) of every "
                "length 0..size+1, T(bytearray/memoryview/BytesIO/file), T.read, T.reads, cs.read, T._read, T(), positional/keyword/mixed "
                "construction) and every writer form (v.dumps, bytes(v), T.dumps, v.write, T.write, len, member of API-made/loaded outer "
                "structure and of T[2], ==/!=/hash; parsed, default, keyword-built, attribute-modified instances). "
                "distinct = (field list, config, split, mode); "
                "non-trivial = >= 2 batches (derived-type histories: some request repeated after an extension)")
    dc = impl.dc()
    from dissect.cstruct import compiler
    from dissect.cstruct.types.structure import Field

    rnd = mkrng(env["seed"], "c18")
    tier = env["tier"]
    findings = {f["id"] for f in env["findings"]}

    kinds: dict[str, int] = {}

    def viol(what, data, sig=None):
        if sig and sig in findings:
            res.known_seen[sig] = res.known_seen.get(sig, 0) + 1
            return
        # at most 6 reports per kind of failure, so that one early field list does not use up all 50 slots
        kind = re.sub(r"\d+", "N", what.split(": ")[0])[:90]
        kinds[kind] = kinds.get(kind, 0) + 1
        res.feat("violation-kind:" + kind)
        if kinds[kind] <= 6 and len(res.violations) < 50:
            res.violations.append(Case("property", what, data))

    for _ in range(60 if tier == "quick" else 800):
        n = rnd.randint(0, 6)
        with_offsets = rnd.random() < 0.4
        for align, compiled in itertools.product((False, True), (False, True)):
            if tier == "quick" and rnd.random() < 0.4:
                continue
            endian = rnd.choice("<>")

            cs0 = fresh_cs(dc, endian, align, compiled)
            specs = field_specs(rnd, cs0, n, offsets=with_offsets)
            has_off = any(s[3] is not None for s in specs)
            f23 = align and any(s[2] and s[1][1] in ("int24", "uint24", "uint48") for s in specs if s[1][0] == "sc")
            sig = "F23" if f23 else None
            try:
                one = build_oneshot(cs0, specs, align, compiled)
            except Exception as e:  # noqa: BLE001
                res.feat("one-shot-rejected:" + type(e).__name__)
                continue
            size = one.size if one.size is not None else 40
            inputs = [rand_bytes(rnd, size + 6) for _ in range(2)]
            prefix = bytes(rnd.randrange(1, 256) for _ in range(8))
            flips = sorted({size - 1, *[rnd.randrange(size) for _ in range(2)]}) if size else []
            cd0 = {"fields": [str(s) for s in specs], "align": align, "compiled": compiled, "endian": endian,
                   "data": [d.hex() for d in inputs], "prefix": prefix.hex(), "flips": flips}
            want = full(cs0, one, inputs, prefix, compiled, flips)
            if has_off:
                res.feat("field-list-with-explicit-offsets")
            if compiled and not one.__compiled__:
                res.feat("one-shot-not-compilable")
            for batches in splits(n, rnd, tier == "thorough" and n <= 5):
                for mode in ("each", "update", "mixed", "extend"):
                    if tier == "quick" and mode in ("mixed", "extend") and rnd.random() < 0.5:
                        continue
                    touch = rnd.random() < 0.3
                    cs = fresh_cs(dc, endian, align, compiled)
                    cd = dict(cd0, batches=batches, mode=mode, read_between_commits=touch)
                    res.count((str(specs), align, compiled, str(batches), mode), len(batches) >= 2)
                    res.feat(f"batches:{len(batches)}")
                    res.feat(f"mode:{mode}")
                    try:
                        st = build_incremental(cs, specs, align, compiled, batches, mode, touch, inputs, prefix)
                    except Exception as e:  # noqa: BLE001
                        viol(f"incremental definition raises where the one-shot definition is accepted: {type(e).__name__}: {e}", cd, sig)
                        continue
                    got = full(cs, st, inputs, prefix, compiled, flips)
                    res.feat("probe:reader-signature")
                    res.feat("probe:reads-away-from-0", len(got[2]) - len(inputs))
                    res.feat("probe:instance-behaviour")
                    compare(viol, res, cd, sig, want, got, compiled, inputs, prefix)

    # interrupted batches: the body of a start_update() block raises part-way and the caller catches it (own PRNG stream, so that
    # the histories above stay what they were)
    rnd5 = mkrng(env["seed"], "c18-interrupted")
    for _ in range(70 if tier == "quick" else 400):
        n = rnd5.randint(1, 6) if rnd5.random() < 0.95 else 0
        with_offsets = rnd5.random() < 0.3
        for align, compiled in itertools.product((False, True), (False, True)):
            if tier == "quick" and rnd5.random() < 0.35:
                continue
            endian = rnd5.choice("<>")
            cs0 = fresh_cs(dc, endian, align, compiled)
            specs = field_specs(rnd5, cs0, n, offsets=with_offsets)
            f23 = align and any(s[2] and s[1][1] in ("int24", "uint24", "uint48") for s in specs if s[1][0] == "sc")
            try:
                one = build_oneshot(cs0, specs, align, compiled)
            except Exception as e:  # noqa: BLE001
                res.feat("one-shot-rejected:" + type(e).__name__)
                continue
            size = one.size if one.size is not None else 40
            inputs = [rand_bytes(rnd5, size + 6) for _ in range(2)]
            prefix = bytes(rnd5.randrange(1, 256) for _ in range(8))
            flips = sorted({size - 1, *[rnd5.randrange(size) for _ in range(2)]}) if size else []
            for _h in range(2 if tier == "quick" else 4):
                steps = t5.gen_history(rnd5, n)
                cd = {"fields": [str(s) for s in specs], "align": align, "compiled": compiled, "endian": endian,
                      "data": [d.hex() for d in inputs], "prefix": prefix.hex(), "flips": flips, "history": steps,
                      "read_between_commits": rnd5.random() < 0.3}
                res.count(("interrupted", str(specs), align, compiled, endian, str(steps)), any(s_["mode"] == "fault" and s_["add"] for s_ in steps))
                interrupted_case(dc, cd, viol, res, "F23" if f23 else None)

    # the update protocol as a state machine, operation by operation against the Lean model (own PRNG stream)
    v4u.run(env, res, viol, mkrng(env["seed"], "c18-upd"), sys.modules[__name__])

    # derived types (arrays of T, structures embedding T) taken while T is still growing, and again afterwards (own PRNG stream)
    v6.run(env, res, viol, mkrng(env["seed"], "c18-derived"), sys.modules[__name__])

    # the type is used between the steps (structures and unions), and the final type is entered through every call form (own PRNG streams)
    v9.run(env, res, viol, sys.modules[__name__])

    # definitions through the parser: a named top-level struct is pre-registered empty (compiled if requested), then extended and
    # committed; the same field list declared in one piece must give the same class
    def parser_probe(text, names, endian, align, compiled, ptr, kind):
        parser_case(dc, {"definition": text, "names": names, "endian": endian, "align": align, "compiled": compiled, "pointer": ptr},
                    viol, res, rnd, kind)

    for (text, names), endian, align, compiled, ptr in itertools.product(SELFREF_TEXTS, "<>", (False, True), (False, True), ("uint32", "uint64", "uint16")):
        if tier == "quick" and rnd.random() < 0.5:
            continue
        parser_probe(text, names, endian, align, compiled, ptr, "self-reference")
    for _ in range(150 if tier == "quick" else 1500):
        g = defs.Gen(rnd, max_depth=rnd.choice([0, 1, 1, 2]), max_fields=5)
        tree = g.struct()
        body = [defs.render_field(f, None) for f in tree[1]]
        selfp = rnd.random() < 0.5
        if selfp:
            for j in range(rnd.randint(1, 2)):
                body.insert(rnd.randint(0, len(body)), rnd.choice([f"T *self{j};", f"T *self{j}[2];", f"T **self{j};"]))
        text = defs.PREAMBLE + "#define K2 2\n#define K0 0\nstruct T {\n  " + "\n  ".join(body) + "\n};\n"
        for align, compiled in itertools.product((False, True), (False, True)):
            if tier == "quick" and rnd.random() < 0.6:
                continue
            parser_probe(text, ["T"], rnd.choice("<>"), align, compiled, rnd.choice(["uint64", "uint32", "uint16"]),
                         "generated+self-pointer" if selfp else "generated")

    # self-referential definitions through the parser
    for endian, align, compiled, ptr in itertools.product("<>", (False, True), (False, True), ("uint32", "uint64", "uint16")):
        cs = dc.cstruct(endian=endian, pointer=ptr)
        text = "struct node { uint8 v; node *next; uint16 w; };\nstruct list { node head; node *tail; };"
        cd = {"definition": text, "endian": endian, "align": align, "compiled": compiled, "pointer": ptr}
        res.count(("selfref", endian, align, compiled, ptr))
        res.feat("self-reference")
        try:
            cs.load(text, compiled=compiled, align=align)
        except Exception as e:  # noqa: BLE001
            viol(f"self-referential definition rejected: {type(e).__name__}: {e}", cd)
            continue
        N = cs.node
        psz = cs.pointer.size
        pa = psz if align else 1
        off_next = (1 + pa - 1) // pa * pa
        off_w = off_next + psz
        off_w = (off_w + 1) // 2 * 2 if align else off_w
        size = off_w + 2
        if align:
            size = (size + max(pa, 2) - 1) // max(pa, 2) * max(pa, 2)
        if (N.size, [f.offset for f in N.__fields__]) != (size, [0, off_next, off_w]) or N.fields["next"].type.type is not N:
            viol(f"self-referential node has layout {(N.size, [f.offset for f in N.__fields__])}, expected {(size, [0, off_next, off_w])}; target is node: {N.fields['next'].type.type is N}", cd)
        if compiled and not N.__compiled__:
            viol("a self-referential structure loaded with compiled=True ended up with the interpreted reader", cd)
        order = "little" if endian == "<" else "big"
        second = size
        raw = bytearray(2 * size)
        raw[0] = 1
        raw[off_next:off_next + psz] = second.to_bytes(psz, order)
        raw[off_w:off_w + 2] = (0x1234).to_bytes(2, order)
        raw[second] = 2
        raw[second + off_w:second + off_w + 2] = (0x5678).to_bytes(2, order)
        s = io.BytesIO(bytes(raw))
        try:
            a = N(s)
            b = a.next.dereference()
            ok = (a.v, a.w, b.v, b.w, int(b.next)) == (1, 0x1234, 2, 0x5678, 0) and a.dumps() == bytes(raw[:size])
        except Exception as e:  # noqa: BLE001
            ok = False
            cd = dict(cd, error=f"{type(e).__name__}: {e}")
        if not ok:
            viol("self-referential structure does not parse / dereference / dump like a structure declared in one piece", cd)
    res.sample({"fields": "f0:uint8, f1:uint32:3 bits, f2:char[], ...", "splits": "all compositions of the field list"})
    return res


def replay(body) -> int:
    """re-run the recorded history / definition and report whether the two classes still differ"""
    import ast

    case = body.get("case") or {}
    print("replay:", body.get("what"))
    print("case:", case)
    found = []

    def viol(what, data, sig=None):
        found.append(what)

    dc = impl.dc()
    if "derive_steps" in case:
        v6.replay_case(sys.modules[__name__], case, viol)
    elif "obs_steps" in case:
        v9.replay_case(sys.modules[__name__], case, viol)
    elif "history" in case and "data_seed" in case:
        v4u.replay_case(sys.modules[__name__], case, viol)
    elif "history" in case:
        interrupted_case(dc, case, viol)
    elif "batches" in case:
        specs = [ast.literal_eval(x) for x in case["fields"]]
        align, compiled, endian = case["align"], case["compiled"], case["endian"]
        inputs, prefix, flips = [bytes.fromhex(x) for x in case["data"]], bytes.fromhex(case["prefix"]), case["flips"]
        cs0 = fresh_cs(dc, endian, align, compiled)
        one = build_oneshot(cs0, specs, align, compiled)
        cs = fresh_cs(dc, endian, align, compiled)
        try:
            st = build_incremental(cs, specs, align, compiled, case["batches"], case["mode"], case.get("read_between_commits", False), inputs, prefix)
        except Exception as e:  # noqa: BLE001
            print(f"incremental definition raises {type(e).__name__}: {e}")
            return 1
        compare(viol, None, case, None, full(cs0, one, inputs, prefix, compiled, flips), full(cs, st, inputs, prefix, compiled, flips),
                compiled, inputs, prefix)
    elif "definition" in case and "names" in case and "struct" in case:
        parser_case(dc, case, viol)
    else:
        print("nothing to re-run for this case")
        return 0
    for w in found:
        print("REPRODUCED:", w)
    if not found:
        print("not reproduced: the two classes agree")
    return 1 if found else 0
