"""C18 — incrementally built or self-referential structures equal the one-shot definition.

For generated field lists every way (thorough) / sampled ways (quick) of splitting them into add_field / commit steps
(commit after each field, batches under start_update, mixtures) is compared with the structure created in one piece:
layout, reader kind (compiled if requested), parse results, dumps, default instance, equality.  Self-referential
definitions (forward reference through a pointer) are checked against their expected layout and behaviour.
The Lean model (`Commit.lean`: layout with persisted offsets) is compared on the sequence of layouts.
"""
from __future__ import annotations

import io
import itertools

from .. import defs, impl, refimpl
from ..common import A, Case, Result, mkrng, parse_sexp, run_driver, sx
from ..structprops import rand_bytes


def field_specs(rnd, cs, n):
    """field list as (name, type object factory description)"""
    out = []
    for i in range(n):
        r = rnd.random()
        if r < 0.5:
            out.append((f"f{i}", ("sc", rnd.choice(["uint8", "uint16", "uint32", "uint64", "int24", "char", "int8", "uint48"])), None))
        elif r < 0.62:
            out.append((f"f{i}", ("arr", ("sc", rnd.choice(["uint8", "uint16", "char", "uint32"])), rnd.randint(0, 3)), None))
        elif r < 0.74:
            st = rnd.choice(["uint8", "uint16", "uint32"])
            out.append((f"f{i}", ("sc", st), rnd.randint(1, 4)))
        elif r < 0.82:
            out.append((f"f{i}", ("enum", "E8"), None))
        elif r < 0.9:
            out.append((f"f{i}", ("ptr", ("sc", "uint8")), None))
        elif r < 0.95:
            out.append((f"f{i}", ("dyn", rnd.choice(["uint8", "char", "uint16"])), None))
        else:
            out.append((f"f{i}", ("nested",), None))
    return out


def mk_type(cs, spec):
    k = spec[0]
    if k == "sc":
        return cs.resolve(spec[1])
    if k == "enum":
        return cs.resolve(spec[1])
    if k == "arr":
        return mk_type(cs, spec[1])[spec[2]]
    if k == "ptr":
        return cs._make_pointer(mk_type(cs, spec[1]))
    if k == "dyn":
        return cs.resolve(spec[1])[None]   # null-terminated
    if k == "nested":
        return cs.resolve("Inner")
    raise ValueError(k)


def splits(n, rnd, exhaustive):
    """ways of cutting range(n) into consecutive non-empty batches"""
    if n == 0:
        return [[]]
    allcuts = list(itertools.product([0, 1], repeat=n - 1))
    if not exhaustive and len(allcuts) > 6:
        allcuts = [allcuts[0], allcuts[-1]] + rnd.sample(allcuts[1:-1], 4)
    out = []
    for cuts in allcuts:
        batches, cur = [], [0]
        for i, c in enumerate(cuts, start=1):
            if c:
                batches.append(cur)
                cur = [i]
            else:
                cur.append(i)
        batches.append(cur)
        out.append(batches)
    return out


def describe(T):
    return (T.size, T.alignment, T.dynamic, [(f._name, f.offset, f.bits) for f in T.__fields__], T.__compiled__)


def run(env) -> Result:
    res = Result()
    res.rule = ("seeded field lists of 0..6 fields (scalars incl. odd widths, arrays, bit-field runs, enum, pointer, null-terminated array, nested "
                "struct) x {packed, aligned} x {interpreted, compiled}; every split into consecutive batches (thorough; sampled in quick), each "
                "batch added either field-by-field with a commit after each or under start_update(); compared with the one-shot structure: "
                "size/alignment/dynamic/offsets, compiled flag, parse (value, sizes, consumed), dumps, default instance. Plus self-referential "
                "definitions through the parser. distinct = (field list, config, split, mode); non-trivial = >= 2 batches")
    dc = impl.dc()
    from dissect.cstruct import compiler
    from dissect.cstruct.types.structure import Field

    rnd = mkrng(env["seed"], "c18")
    tier = env["tier"]
    findings = {f["id"] for f in env["findings"]}
    lines, metas = [], []

    def viol(what, data, sig=None):
        if sig and sig in findings:
            res.known_seen[sig] = res.known_seen.get(sig, 0) + 1
        elif len(res.violations) < 50:
            res.violations.append(Case("property", what, data))

    for _ in range(60 if tier == "quick" else 1500):
        n = rnd.randint(0, 6)
        for align, compiled in itertools.product((False, True), (False, True)):
            if tier == "quick" and rnd.random() < 0.4:
                continue
            endian = rnd.choice("<>")

            def fresh():
                cs = dc.cstruct(endian=endian)
                cs.load(defs.PREAMBLE + "struct Inner { uint8 x; uint32 y; };", compiled=compiled, align=align)
                return cs

            cs0 = fresh()
            specs = field_specs(rnd, cs0, n)
            cd0 = {"fields": [str(s) for s in specs], "align": align, "compiled": compiled, "endian": endian}
            f23 = align and any(s[2] and s[1][1] in ("int24", "uint24", "uint48") for s in specs if s[1][0] == "sc")
            sig = "F23" if f23 else None
            try:
                one = cs0._make_struct("T", [Field(nm, mk_type(cs0, sp), bits=b) for nm, sp, b in specs], align=align)
                if compiled:
                    one = compiler.compile(one)
            except Exception as e:  # noqa: BLE001
                res.feat("one-shot-rejected:" + type(e).__name__)
                continue
            want = describe(one)
            size = one.size if one.size is not None else 40
            inputs = [rand_bytes(rnd, size + 6) for _ in range(2)]
            want_parse = []
            for d in inputs:
                r = impl.parse(one, d)
                want_parse.append((r[0], impl.canon(r[1]) if r[0] == "ok" else r[1], r[2] if r[0] == "ok" else None,
                                   (r[1].dumps() if r[0] == "ok" and not impl.contains_nan(impl.canon(r[1])) else None),
                                   sorted((k, v) for k, v in r[1]._sizes.items() if v) if r[0] == "ok" else None))
            try:
                want_default = one().dumps()
            except Exception as e:  # noqa: BLE001
                want_default = type(e).__name__
            for batches in splits(n, rnd, tier == "thorough" and n <= 5):
                for mode in ("each", "update", "mixed"):
                    if tier == "quick" and mode == "mixed" and rnd.random() < 0.5:
                        continue
                    cs = fresh()
                    cd = dict(cd0, batches=batches, mode=mode)
                    res.count((str(specs), align, compiled, str(batches), mode), len(batches) >= 2)
                    res.feat(f"batches:{len(batches)}")
                    try:
                        st = cs._make_struct("T", [], align=align)
                        if compiled:
                            st = compiler.compile(st)
                        layouts = []
                        for bi, batch in enumerate(batches):
                            use_update = mode == "update" or (mode == "mixed" and bi % 2 == 0)
                            if use_update:
                                with st.start_update():
                                    for i in batch:
                                        nm, sp, b = specs[i]
                                        st.add_field(nm, mk_type(cs, sp), bits=b)
                            else:
                                for i in batch:
                                    nm, sp, b = specs[i]
                                    st.add_field(nm, mk_type(cs, sp), bits=b)
                            layouts.append(describe(st))
                    except Exception as e:  # noqa: BLE001
                        viol(f"incremental definition raises {type(e).__name__}: {e} where the one-shot definition is accepted", cd, sig)
                        continue
                    got = describe(st)
                    if got != want:
                        viol(f"incremental structure {got} differs from the one-shot structure {want}", cd, sig)
                        continue
                    for d, wp in zip(inputs, want_parse):
                        r = impl.parse(st, d)
                        gp = (r[0], impl.canon(r[1]) if r[0] == "ok" else r[1], r[2] if r[0] == "ok" else None,
                              (r[1].dumps() if r[0] == "ok" and not impl.contains_nan(impl.canon(r[1])) else None),
                              sorted((k, v) for k, v in r[1]._sizes.items() if v) if r[0] == "ok" else None)
                        if gp[0] != wp[0] or (gp[0] == "ok" and (not impl.same_val(wp[1], gp[1]) or gp[2:] != wp[2:])) or (gp[0] == "err" and gp[1] != wp[1]):
                            viol(f"incremental structure parses/dumps {str(gp)[:200]}, one-shot {str(wp)[:200]}", dict(cd, data=d.hex()), sig)
                    try:
                        gd = st().dumps()
                    except Exception as e:  # noqa: BLE001
                        gd = type(e).__name__
                    if gd != want_default:
                        viol(f"default instance of the incremental structure dumps {gd!r}, one-shot {want_default!r}", cd, sig)
    # self-referential definitions through the parser
    for endian, align, compiled, ptr in itertools.product("<>", (False, True), (False, True), ("uint32", "uint64", "uint16")):
        cs = dc.cstruct(endian=endian, pointer=ptr)
        text = "struct node { uint8 v; node *next; uint16 w; };\nstruct list { node head; node *tail; };"
        cd = {"definition": text, "endian": endian, "align": align, "compiled": compiled, "pointer": ptr}
        res.count(("selfref", endian, align, compiled, ptr))
        res.feat("self-reference")
        try:
            cs.load(text, compiled=compiled, align=align)
        except Exception as e:  # noqa: BLE001
            viol(f"self-referential definition rejected: {type(e).__name__}: {e}", cd)
            continue
        N = cs.node
        psz = cs.pointer.size
        pa = psz if align else 1
        off_next = (1 + pa - 1) // pa * pa
        off_w = off_next + psz
        off_w = (off_w + 1) // 2 * 2 if align else off_w
        size = off_w + 2
        if align:
            size = (size + max(pa, 2) - 1) // max(pa, 2) * max(pa, 2)
        if (N.size, [f.offset for f in N.__fields__]) != (size, [0, off_next, off_w]) or N.fields["next"].type.type is not N:
            viol(f"self-referential node has layout {(N.size, [f.offset for f in N.__fields__])}, expected {(size, [0, off_next, off_w])}; target is node: {N.fields['next'].type.type is N}", cd)
        if compiled and not N.__compiled__:
            viol("a self-referential structure loaded with compiled=True ended up with the interpreted reader", cd)
        order = "little" if endian == "<" else "big"
        second = size
        raw = bytearray(2 * size)
        raw[0] = 1
        raw[off_next:off_next + psz] = second.to_bytes(psz, order)
        raw[off_w:off_w + 2] = (0x1234).to_bytes(2, order)
        raw[second] = 2
        raw[second + off_w:second + off_w + 2] = (0x5678).to_bytes(2, order)
        s = io.BytesIO(bytes(raw))
        try:
            a = N(s)
            b = a.next.dereference()
            ok = (a.v, a.w, b.v, b.w, int(b.next)) == (1, 0x1234, 2, 0x5678, 0) and a.dumps() == bytes(raw[:size])
        except Exception as e:  # noqa: BLE001
            ok = False
            cd = dict(cd, error=f"{type(e).__name__}: {e}")
        if not ok:
            viol("self-referential structure does not parse / dereference / dump like a structure declared in one piece", cd)
    res.sample({"fields": "f0:uint8, f1:uint32:3 bits, f2:char[], ...", "splits": "all compositions of the field list"})
    return res


def replay(body) -> int:
    print("replay:", body.get("what"), body.get("case"))
    return 0
