"""C14 — no hidden shared state: instances, defaults and cstruct objects are independent.

Random histories of construct / mutate / parse / dump / load / set-endian / add-type operations over several cstruct
objects that define same-named types with equal field counts (shared code templates) and several live instances.  After
every step every *other* object is observed and compared with what it showed before the step; parsing is compared with
a freshly created universe (same definitions, same endianness) so that it cannot depend on history.

Purity histories (harness/s6_c14.py): 2-3 cstruct objects load textually identical structures (array counts such as
`(n & 3) * SCALE`, `n + sizeof(hdr)`, `SIZE`; bit-field runs; fixed / null-terminated arrays of packed scalars) on top of
object-specific `#define`s, a `len_t` typedef and a `struct hdr` that differ between the objects.  The histories mix loads,
`cs.endian` changes, good parses, failing parses (truncated at random cuts and, in a sweep, at every cut point — so also inside
bit-field units — each followed by a valid parse), dumps of scalars / arrays / structures and default constructions, compiled
and interpreted.  Every observation, and after every step a fixed valid probe parse of every loaded type of every object, is
compared with (a) a brand-new object configured identically that performs only that operation and (b) the independent
reference interpreter `refimpl` given the object's own constants / typedefs — the latter also exposes state shared by all
objects of the process.

History independence (harness/t4_c14.py): every observation on an object with a history is compared with the same operation on
a brand-new object that performed only the *definitional* steps of that history (load, add_type, add_field, cs.endian = ...) and
none of the earlier resolves / parses / dumps / constructions / failures.
 * alias histories: names bound by add_type() to other names (chains of up to four links, also through built-in aliases like DWORD),
   by typedef text and used by structures; inner names re-pointed with add_type(..., replace=True); resolve / attribute access /
   read / parse / array parse / dumps / failing resolves and parses through the outer names before and after each re-pointing.
 * type histories: structures and unions (members smallest-first, largest-first or shuffled; arrays, char arrays, nested and
   anonymous structures; a structure holding the union and an array of it; compiled or not): dumps / len / bytes / == / != / hash /
   repr / bool of parsed, default, positionally and keyword constructed instances, member assignment, failing constructions and
   parses, add_field() in the middle; then positional / keyword / default construction and parsing again.  Values are compared by
   member name.  A fixed probe set per type / name is re-observed after the steps, so reported histories are short; each case
   carries two standalone scripts (with and without the earlier observations) that `--replay` re-executes.
 * size-change histories (harness/u3_c14.py): structures whose array lengths are evaluated at parse time and mention `sizeof(T)` or a
   constant after a member operand (`char body[len - sizeof(hdr)]`, `uint16 v[len / sizeof(unit_t)]`, `uint8 d[(len & 7) * K]`); between
   parses T / K change on the same object (`hdr.add_field(...)`, `add_type("unit_t", ..., replace=True)`, re-pointing a typedef'd struct
   name, a further `#define K`, endianness); parses before and after are compared with a new object that performed only the definitional
   steps, so that anything a parse folds into an expression / array type is seen.

Option independence between loads (harness/v4_c14.py): one cstruct object performs 2-4 load() calls, each with a self-contained definition
(own name prefix) and its own options - `align` and / or `compiled` flipped from one load to the next (aligned-first and unaligned-first,
keywords given explicitly or left at their defaults, now and then a load through the legacy parser).  The definitions are padding-sensitive
structures (small members before uint32 / uint64 / double / uint128 / pointers, arrays, nested / inline / anonymous structures and unions,
bit-field runs, enums, typedefs, expression-sized, null-terminated and EOF arrays) and trees of the general generator.  After every load the
new definition and every earlier one are observed (load outcome; per structure size, alignment, field offsets / bits / types recursively,
__align__, __compiled__; len; three parses with value, stream position and dump; default construction and its dump) and compared with a new
cstruct object of the same endianness / pointer type that performed only that one load with the same options.  Only the running number in
the names of anonymous structures is normalised.

Held callables (harness/v5_c14.py): 2-3 cstruct objects of different endianness define the same type names (typedef, enum / flag, nested and
main structure, union, dynamic structure; identical text or per-object variants of other widths; compiled / interpreted, aligned or not).  Bound
callables are taken and KEPT - `f = a.dumps`, `w = a.write`, `g = T.dumps`, `h = T.write`, `r = T.read`, `s = T.reads`, getattr(a, "dumps"),
functools.partial(...) of them, lazy `map(T.dumps, values)` / `map(T.reads, inputs)` / `map(a.write, streams)`, lists of callbacks over
instances of several cstruct objects; a ranges over parsed / default / keyword-constructed structures, scalar / array / char / wchar / enum /
LEB128 instances and members of instances bound to their own name, T over scalars, arrays, structures, unions, arrays of structures.  Between
taking and calling, any other object of the session is used: attribute access of .dumps / .write without a call, immediate dumps / write /
bytes / len / repr / == / parses / default constructions, failing calls, member assignments and in-place changes (also of the instance whose
callable is held), `cs.endian = ...` on another or the own object, load(), add_type(), other held callables.  Each held callable is called 1-3
times; its result (value by member name, bytes, count and bytes written, exception class) must equal (1) the immediate form on the same object
with the same arguments evaluated right afterwards and (2) the immediate form in a new universe that executed only the definitional and
instance-constructing / assigning lines of the cstruct objects concerned.  Every line of a session is recorded Python source, the replay
script is the session.

Types shared between cstruct objects (harness/v8_c14.py): 2-3 cstruct objects that differ in endianness and / or pointer width define the same
type names (typedef, enum / flag, nested, main - possibly dynamically sized - structure, union; compiled / interpreted, aligned or not).  A type
object of one object is registered on another by class - `b.add_type("x", a.S)`, `b.addtype("y", a.uint16)`, `a.E`, `a.word_t`, `a.resolve(...)`,
`a.typedefs[...]`, built-in scalars of every width, floats, char / wchar, arrays made through the type (`a.uint16[3]`, `a.S[2]`), names handed on
to a third object, existing names of `b` re-pointed with replace=True - and `b` then uses it: structures / unions / typedefs that embed the alias
as member, array, pointer, bit field, expression-sized array (compiled or not, aligned or not), parses (good and truncated), dumps, writes,
default constructions, `T[n]`, `cs.read`, `b.endian = ...`, `b.pointer = ...`, further loads.  After every step every object is observed through
its own names (layout with the cstruct object each type is bound to, len, three parses with value / stream position / dump, default
construction, a parse through `T[2]`; also 4-6 built-in scalars) and through its imported / mixed names: what an object shows through its own
names never changes by a step on another object (in particular: the owner of a shared type shows what it showed before the add_type on the
other object), what it shows through mixed names only changes when it or an object it imported from is re-configured; after every share (owner
and importer), now and then in between and at the end every object shows what it shows in a new universe that executed only the definitional
lines of the object and of those it imported from - for an exporting object a universe without any other cstruct object.

Every public table of a cstruct object (harness/v9_c14.py): 2-4 cstruct objects made through every constructor spelling (endian positional / keyword,
all five byte-order codes, pointer types, `cstruct(...).load(T)` chained), some loaded, some left untouched.  One object at a time acts: it loads a
text of 1-4 top-level constructs - every construct the parsers accept: #define (int / hex / string / expression), typedef (scalar, multi-word, array,
pointer, structure with tag and several names, anonymous), struct / union, enum / flag / anonymous enum, the lookup syntax `$name = {'CONST': value}`,
the config flag `#[nocompile]`; all objects use the same names (K0.., word_t, E, S, U, lk, tab ...) with values of their own - through load() (keywords,
deftype by name / number / position), the legacy parser (DEF_LEGACY), loadfile() of a real file (str and pathlib.Path, both parsers); or it uses the
API (add_type / addtype by reference, by type object, replace=True of own and built-in names, add_custom_type), writes cs.consts / cs.lookups /
cs.typedefs directly, sets cs.endian / cs.pointer, or performs a load that fails (duplicate type, unknown type, syntax error, lookup over an unknown
constant, missing file).  Observed per object: cs.endian, cs.pointer, cs.consts, cs.lookups, cs.typedefs (names, targets, type name / size /
alignment / owner, identity of every value) and a parse signature (layout, len, parses with stream position and dumps, default construction, the
entry points T(bytes) / T.read(stream) / T.reads / cs.read(name, bytearray) / T(memoryview)) of its own types and three built-in scalars.  After every
step: (1) every other object of the session shows exactly what it showed before; (2) a NEW object made by one of the session's constructor
expressions shows what the same expression gave at the start of the session, also after loading the session's probe definition (same names as the
objects use, lookup included) through the session's entry point; at the end (3) every object shows what it shows in a universe that executed only
its own lines, and (4) a new cstruct() after all sessions equals the one before the first.

Object identity of mutable members (harness/v10_c14.py): the value-based families above cannot see two instances that hold the very same list /
nested structure object as long as nobody writes to it.  One cstruct object (every constructor / endianness spelling) receives a definition through
load() (compiled / interpreted, aligned or not), loadfile(), the legacy parser or API construction (_make_struct / _make_union + add_type): an enum,
nested structures and a nested union, the type under test T - a structure or a fixed-size UNION (half of the sessions) with scalars, bit fields, char
blocks, enums, int arrays, 2-D arrays, arrays of enums / char blocks, nested structures, arrays of them, a nested union, an inline anonymous structure,
a parse-time sized array - and the holders `struct W { uint8 pre; T m; T arr[2]; }`, `union WU { T m; uint8 raw[sizeof T]; }`.  2-5 sources give T
instances (the object itself, W.m, W.arr[k], WU.m, elements of T[n]): parses through every entry point (X(bytes / bytearray / memoryview / BytesIO),
X.read(stream / bytes), X.reads, cs.read(name, ...), a stream positioned behind a prefix, a real file object; X as cs.T / cs.resolve / cs.typedefs) of
all-zero bytes (= the default value; half of the parses), random bytes or zero bytes with a random stretch, often the same bytes twice; default,
keyword (scalars and freshly made containers; a union is rebuilt from the one member given) and positional construction; failing parses in between.
Oracles: (1) no list / structure / union object (proxies unwrapped) is reachable from two distinct instances, nor from an instance and a LATER default
construction T(); (2) after an in-place change of one instance through its public path (`i.a[k] = v`, `i.a[k][l] = v`, `i.n.p = v`, `i.n.q[k] = v`,
`i.sa[k].p = v`, `i.u.b[k] = v`, `i.a[:] = [...]`, now and then `i.x = v`) every other instance (value by member, dumps, bytes), the dump of every
other holder and a later default construction (against a new universe that only loaded the definition) are what they were; (3) every parsing source
parsed again at the end through its own entry point shows the values of its first parse, one of them also in a new universe.  Known finding F8 is
classified exactly where BOTH places were filled in by default construction (default-constructed instance / holder, a top-level member left out of
a keyword or positional construction of a structure); everything that involves a parsed instance, a user-given value or a union rebuilt from keyword
values is reported.  The case data is the session descriptor, `--replay` re-evaluates it.
"""
from __future__ import annotations

import io

from .. import defs, impl, s6_c14, t4_c14, u3_c14, v4_c14, v5_c14, v6_c14, v8_c14, v9_c14, v10_c14
from ..common import Case, Result, mkrng
from ..structprops import rand_bytes

DEF_A = "struct N { uint8 p; uint16 q; }; struct A { uint8 x; uint16 a[2]; N n; char s[3]; uint32 y; };"
DEF_B = "struct N { uint16 p; uint8 q; }; struct A { uint16 x; uint8 a[2]; N n; char s[3]; uint8 y; };"   # same names, same field counts
DEF_X = "struct X { uint8 k; uint8 d[k & 3]; uint16 t; };"


def run(env) -> Result:
    res = Result()
    res.rule = ("seeded histories of 12..30 operations over 2-3 cstruct objects (same-named structures with equal field counts, so that "
                "the generated-method templates are shared) and up to 6 live instances: construct default, construct from values, assign "
                "field, mutate array element in place, mutate nested structure in place, parse (good and truncated input), dump, load more "
                "definitions, set endianness, add alias, define anonymous structures. After each operation all other instances, the defaults "
                "of all classes and a reference parse per class are compared with their state before the operation / with a fresh universe. "
                "Purity histories (s6_c14): objects that share definition text but not constants / typedefs / sizeof targets; loads, endianness "
                "changes, good and failing parses (every cut point), scalar / array / structure dumps; each observation and a probe parse of every "
                "type after every step compared with a fresh identically configured object and with the reference interpreter. "
                "History independence (t4_c14): alias chains built with add_type()/typedef and re-pointed with replace=True, observed through "
                "the outer names before and after; structure and union types (unions declared smallest-first) whose instances are dumped, "
                "measured, compared, hashed, printed, assigned to, then constructed positionally / by keyword / by default and parsed, with "
                "add_field() and failing operations in between; every observation compared with a new object that performed only the "
                "definitional steps. "
                "Size-change histories (u3_c14): parse-time array lengths with sizeof(T) / constants after a member operand; T grows by "
                "add_field(), typedef'd names inside sizeof are re-pointed with replace=True, constants are re-defined, with parses before and "
                "after, compared with a new object that performed only the definitional steps. "
                "Option independence (v4_c14): 2-4 load() calls on one object, each with its own self-contained padding-sensitive / generated "
                "definition and its own align / compiled options (flipped between loads, both orders, explicit or default keywords, legacy parser "
                "in between); layout (size, alignment, field offsets, flags), len, parses (value, stream position, dump) and default construction "
                "of the new and of every earlier definition compared with a new object that performed only that load with the same options. "
                "Held callables (v5_c14): bound a.dumps / a.write / T.dumps / T.write / T.read / T.reads (plain, getattr, functools.partial, lazy "
                "map(), lists of callbacks) over 2-3 cstruct objects of different endianness with same-named types are kept while other instances, "
                "types and cstruct objects are accessed (.dumps / .write without a call), dumped, written, parsed, made to fail, assigned to, "
                "re-configured (endian, load, add_type); each later call of a held callable must equal the immediate form on the object it was "
                "taken from at that moment (current member values) and the immediate form in a new universe that performed only the definitional "
                "and assigning steps. "
                "Types shared between cstruct objects (v8_c14): a type object of one cstruct object (structure, union, enum, typedef'd / built-in "
                "scalar, array made through the type) is registered on another object of other endianness / pointer width with add_type() / addtype() "
                "(new name or replace=True), embedded there in structures / unions / typedefs (member, array, pointer, bit field; compiled or not, "
                "aligned or not), parsed, dumped, handed on; the importer changes endianness / pointer type and loads more. After every step every "
                "object's own names (layout incl. the cstruct object each type is bound to, len, parses with stream position and dump, default "
                "construction, T[2]) must show what they showed before unless that object itself was re-configured, its mixed names unless it or an "
                "object it imported from was re-configured; after every share and at the end every object is compared with a new universe that "
                "executed only the definitional lines of the object and of those it imported from. "
                "Public tables (v9_c14): 2-4 cstruct objects made through every constructor spelling; one object at a time loads a text of 1-4 top-level "
                "constructs (#define, typedef, struct / union, enum / flag / anonymous enum, lookup `$name = {'CONST': v}`, config flag; same names in all "
                "objects) through load() / the legacy parser / loadfile(str | Path) / cstruct(...).load(), uses add_type / addtype / add_custom_type, writes "
                "consts / lookups / typedefs, sets endian / pointer, or performs a failing load; after every step every other object shows the endian, "
                "pointer, consts, lookups, typedefs (names, targets, identities) and parse signature it showed before, a new object made after the step "
                "shows (also after the session's probe load) what one made at the start of the session showed, and at the end every object equals itself "
                "in a universe that executed only its own lines. "
                "Object identity (v10_c14): T instances (structure or fixed-size union with arrays, 2-D arrays, nested structures / unions, anonymous "
                "structures; load / loadfile / legacy parser / API construction; compiled or not, aligned or not, every endianness spelling) obtained "
                "through every parse entry point (bytes, bytearray, memoryview, streams, real files, cs.read, T[n], members and array members of a holder "
                "structure / union) from all-zero, random and mixed bytes, and through default / keyword / positional construction: no list or nested "
                "structure object is shared between two distinct instances or with a later default construction (F8 only when both places are "
                "default-filled); an in-place change of one instance leaves every other instance (value, dumps, bytes), every other holder's dump and "
                "later default constructions unchanged; every source parsed again at the end, and in a new universe, gives the values of its first parse. "
                "distinct = (history prefix); non-trivial = history of >= 3 operations")
    dc = impl.dc()
    rnd = mkrng(env["seed"], "c14")
    tier = env["tier"]
    findings = {f["id"] for f in env["findings"]}

    def viol(what, data, sig=None):
        if sig and sig in findings:
            res.known_seen[sig] = res.known_seen.get(sig, 0) + 1
        elif len(res.violations) < 40:
            res.violations.append(Case("property", what, data))

    def fresh_parse(defn, endian, tname, data):
        cs = dc.cstruct(endian=endian)
        cs.load(defn)
        try:
            return ("ok", impl.canon(getattr(cs, tname)(data)))
        except Exception as e:  # noqa: BLE001
            return ("err", type(e).__name__)

    for h in range(40 if tier == "quick" else 500):
        ncs = rnd.choice([2, 2, 3])
        universes = []
        for i in range(ncs):
            endian = rnd.choice("<>")
            cs = dc.cstruct(endian=endian)
            defn = [DEF_A, DEF_B][i % 2]
            cs.load(defn, compiled=rnd.random() < 0.5)
            universes.append({"cs": cs, "defn": defn, "endian": endian, "extra": ""})
        insts = []  # (universe index, instance, default_constructed?, aliased?)
        probe = rand_bytes(rnd, 24)
        history = []

        def snapshot():
            snap = {"inst": [], "default": [], "parse": []}
            for (ui, x, _, _) in insts:
                try:
                    snap["inst"].append(impl.canon(x))
                except Exception as e:  # noqa: BLE001
                    snap["inst"].append(("err", type(e).__name__))
            for u in universes:
                try:
                    snap["default"].append((impl.canon(u["cs"].A()), u["cs"].A().dumps()))
                except Exception as e:  # noqa: BLE001
                    snap["default"].append(("err", type(e).__name__))
                try:
                    snap["parse"].append(("ok", impl.canon(u["cs"].A(probe))))
                except Exception as e:  # noqa: BLE001
                    snap["parse"].append(("err", type(e).__name__))
            return snap

        before = snapshot()
        tainted_defaults = set()  # universes whose class defaults were mutated in place through a default instance (F8)
        for step in range(rnd.randint(12, 30)):
            op = rnd.choice(["construct", "construct", "fromvalues", "assign", "assign", "inplace-array", "inplace-nested", "parse", "badparse",
                             "dump", "load", "endian", "alias", "anon"])
            ui = rnd.randrange(ncs)
            u = universes[ui]
            cs = u["cs"]
            touched_inst = None      # index of the instance the operation is allowed to change
            touched_cs = None        # universe whose parse/default may legitimately change
            try:
                if op == "construct":
                    if len(insts) < 6:
                        insts.append((ui, cs.A(), True, False))
                        touched_inst = len(insts) - 1
                elif op == "fromvalues":
                    if len(insts) < 6:
                        insts.append((ui, cs.A(x=rnd.randint(0, 200), y=rnd.randint(0, 200)), True, False))
                        touched_inst = len(insts) - 1
                elif op == "assign" and insts:
                    k = rnd.randrange(len(insts))
                    x = insts[k][1]
                    f = rnd.choice(["x", "y", "a", "s"])
                    setattr(x, f, {"x": rnd.randint(0, 255), "y": rnd.randint(0, 255), "a": [rnd.randint(0, 255), rnd.randint(0, 255)], "s": b"abc"}[f])
                    touched_inst = k
                elif op == "inplace-array" and insts:
                    k = rnd.randrange(len(insts))
                    insts[k][1].a[rnd.randrange(2)] = rnd.randint(1, 255)
                    touched_inst = k
                    if insts[k][2]:
                        tainted_defaults.add(insts[k][0])
                elif op == "inplace-nested" and insts:
                    k = rnd.randrange(len(insts))
                    insts[k][1].n.p = rnd.randint(1, 255)
                    touched_inst = k
                    if insts[k][2]:
                        tainted_defaults.add(insts[k][0])
                elif op == "parse":
                    if len(insts) < 6:
                        insts.append((ui, cs.A(rand_bytes(rnd, 24)), False, False))
                        touched_inst = len(insts) - 1
                elif op == "badparse":
                    try:
                        cs.A(rand_bytes(rnd, rnd.randint(0, 5)))
                    except EOFError:
                        pass
                elif op == "dump" and insts:
                    insts[rnd.randrange(len(insts))][1].dumps()
                elif op == "load":
                    cs.load(DEF_X if "struct X" not in u["extra"] else f"struct Y{step} {{ uint8 a; uint8 b; uint16 c[2]; N n; char s[3]; uint32 y; }};")
                    u["extra"] += DEF_X
                elif op == "endian":
                    cs.endian = rnd.choice("<>")
                    u["endian"] = cs.endian
                    touched_cs = ui
                elif op == "alias":
                    cs.add_type(f"alias{step}", "uint32")
                elif op == "anon":
                    cs.load(f"struct Z{step} {{ struct {{ uint8 a; }} in; uint8 b; }};")
            except Exception as e:  # noqa: BLE001
                viol(f"operation {op} raises {type(e).__name__}: {e}", {"history": history + [op]})
                break
            history.append(f"{op}@cs{ui}" + (f"/inst{touched_inst}" if touched_inst is not None else ""))
            after = snapshot()
            res.count(tuple(history), len(history) >= 3)
            res.feat("op:" + op)
            cd = {"history": list(history), "definitions": [x["defn"] for x in universes]}
            # instances: only the touched one may change (those of a universe whose endianness changed keep their values too)
            for k in range(len(before["inst"])):
                if k == touched_inst:
                    continue
                if before["inst"][k] != after["inst"][k]:
                    aliased = insts[k][2] and insts[k][0] in tainted_defaults
                    viol(f"instance {k} changed although the operation ({history[-1]}) acted on another object", cd, "F8" if (aliased or op.startswith("inplace")) else None)
            # defaults and parsing of every cstruct object
            for j, uu in enumerate(universes):
                if before["default"][j] != after["default"][j] and j != touched_cs:
                    viol(f"default construction of cs{j}.A changed after {history[-1]}", cd, "F8" if op.startswith("inplace") or j in tainted_defaults else None)
                want = fresh_parse(uu["defn"], uu["endian"], "A", probe)
                if after["parse"][j] != want:
                    viol(f"cs{j}.A(probe) = {str(after['parse'][j])[:150]} after this history; a fresh universe gives {str(want)[:150]}", cd)
                if j != touched_cs and before["parse"][j] != after["parse"][j]:
                    viol(f"parsing with cs{j} changed after an operation on another object ({history[-1]})", cd)
            before = after
    # purity histories over cstruct objects that share definition text but not constants / typedefs (see s6_c14)
    s6_c14.run(env, res, viol, mkrng(env["seed"], "c14:s6"), 24 if tier == "quick" else 300)
    # history independence of resolve / parse / construct (alias chains re-pointed with replace=True; dumps & co. before construction)
    t4_c14.run(env, res, viol, mkrng(env["seed"], "c14:t4"), 60 if tier == "quick" else 600, 60 if tier == "quick" else 600)
    # types whose size / constants change between two parses (sizeof(T) and constants in parse-time array lengths)
    u3_c14.run(env, res, viol, mkrng(env["seed"], "c14:u3"), 60 if tier == "quick" else 600)
    # what load(D, align=a, compiled=c) creates does not depend on the options of the earlier loads of the same object
    v4_c14.run(env, res, viol, mkrng(env["seed"], "c14:v4"), 100 if tier == "quick" else 600)
    # bound dumps / write / read / reads callables kept across operations on other instances, types and cstruct objects
    v5_c14.run(env, res, viol, mkrng(env["seed"], "c14:v5"), 60 if tier == "quick" else 900)
    # parses that fail inside the evaluation of an array-length expression, then good parses with the same types (harness/v6_c14.py)
    v6_c14.run(env, res, lambda w, d: viol(w, d), mkrng(env["seed"], "c14:v6"), impl.dc())
    # type objects of one cstruct object registered on another one (add_type by class), then used there; the owner must not notice
    if tier == "quick":
        v8_c14.run(env, res, viol, mkrng(env["seed"], "c14:v8"), 20)
    else:
        v8_c14.run(env, res, viol, mkrng(env["seed"], "c14:v8"), 400, steps=(8, 24))
    # every public table (endian, pointer, consts, lookups, typedefs) of bystander objects and of new objects, every way a definition is loaded
    if tier == "quick":
        v9_c14.run(env, res, viol, mkrng(env["seed"], "c14:v9"), 28)
    else:
        v9_c14.run(env, res, viol, mkrng(env["seed"], "c14:v9"), 500, steps=(6, 16))
    # object identity of mutable members: no list / nested structure object is shared between two instances (however obtained) or with a later default
    v10_c14.run(env, res, viol, mkrng(env["seed"], "c14:v10"), 250 if tier == "quick" else 6000)
    res.sample({"history_example": "construct@cs0, inplace-array@cs0/inst0, construct@cs0, endian@cs1, parse@cs1, ..."})
    return res


def replay(body) -> int:
    case = body.get("case") or {}
    if str(case.get("family", "")).startswith("t4:"):
        print("replay:", body.get("what"))
        return t4_c14.replay(case)
    if str(case.get("family", "")).startswith("v4:"):
        print("replay:", body.get("what"))
        return v4_c14.replay(case)
    if str(case.get("family", "")).startswith("v5:"):
        print("replay:", body.get("what"))
        return v5_c14.replay(case)
    if str(case.get("family", "")).startswith("v8:"):
        print("replay:", body.get("what"))
        return v8_c14.replay(case)
    if str(case.get("family", "")).startswith("v10:"):
        print("replay:", body.get("what"))
        return v10_c14.replay(case)
    if str(case.get("family", "")).startswith("v9:"):
        print("replay:", body.get("what"))
        return v9_c14.replay(case)
    print("replay:", body.get("what"), body.get("case"))
    return 0
